#!/usr/bin/env python3
"""Regenerates /verif/MANIFEST.json from checks.json (single source of truth for commands)."""
import json, os
V = os.path.dirname(os.path.dirname(os.path.abspath(__file__)))
cfg = json.load(open(os.path.join(V, "checks.json")))
props = [json.loads(l) for l in open(os.path.join(V, "properties.jsonl"))]
na_reasons = json.load(open(os.path.join(V, "tools", "not_applicable.json")))
checks = []
na = []
for p in props:
    pid = p["id"]
    c = cfg.get(pid)
    if not c or c.get("disabled"):
        na.append({"property_id": pid, "reason": na_reasons.get(pid, "check not built yet in this session; design in DESIGN.md section 4")})
        continue
    checks.append({
        "property_id": pid,
        "quick_cmd": "./check %s quick" % pid,
        "thorough_cmd": "./check %s thorough" % pid,
        "evidence_file": "/verif/evidence/%s.json" % pid,
        "replay_cmd_template": "./check %s --replay {path}" % pid,
        "engine": "rapid-harness",
        "level_claimed": {"category": "exploration", "text": c["level_text"], "design_ref": "DESIGN.md section 4, " + pid},
        "level_note": c["level_note"],
        "technique": c["technique"],
    })
m = {
    "version": 1,
    "setup_cmd": "cd /verif/harness && cp -n /repo/go.sum go.sum; GOFLAGS=-mod=mod GOPROXY=off GOSUMDB=off GOTOOLCHAIN=local go vet -tags verif ./internal/... >/dev/null 2>&1; mkdir -p /verif/.bin /verif/.out /verif/replays /verif/evidence",
    "hooks": {
        "guard": "verif",
        "enable": "go test -tags verif (the driver ./check builds every test binary with -tags verif)",
        "baseline_off_cmd": "cd /repo && GOPROXY=off GOSUMDB=off GOTOOLCHAIN=local go test -json -vet=off -count=1 -timeout 25m ./...",
        "source_commits": json.load(open(os.path.join(V, "tools", "hook_commits.json"))),
        "add_only": True,
    },
    "engines": [{"name": "rapid-harness", "path": "/verif/harness", "serves_properties": [c["property_id"] for c in checks],
                 "kind_free_text": "Go test packages (one per property) driven by pgregory.net/rapid v1.3.0 (random generation + shrinking, JSON replay files) and Go native fuzzing in the thorough tier; explicit reference models / differential / metamorphic oracles; python driver ./check"}],
    "checks": checks,
    "notes": "All checks rebuild from /repo's working tree via a replace directive. exit 2 = inconclusive (build failure, timeout) and is never a violation. Known findings: /verif/known_findings.json.",
    "not_applicable": na,
}
json.dump(m, open(os.path.join(V, "MANIFEST.json"), "w"), indent=1)
print("checks:", len(checks), "not_applicable:", len(na))
