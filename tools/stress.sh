#!/bin/bash
# usage: tools/stress.sh <ID> [copies=16] [checks=300]  -- runs the property binary in parallel copies with
# different seeds (machine oversubscribed) and reports any failing copy. Requires ./check to have built .bin/<ID>.test.
ID=$1; N=${2:-16}; C=${3:-300}
PKG=$(python3 -c "import json;print(json.load(open('/verif/checks.json'))['$ID']['pkg'])")
D=/tmp/stress-$ID; rm -rf $D; mkdir -p $D/replays; cp /verif/known_findings.json $D/
cd /verif/harness/$PKG
pids=()
for i in $(seq 1 $N); do
  VERIF_DIR=$D VERIF_SHARD=$i GORACE=halt_on_error=1 /verif/.bin/$ID.test -test.run '^TestProp$' -rapid.checks=$C -rapid.seed=$((RANDOM*7+i)) -rapid.nofailfile -rapid.shrinktime=5s -test.timeout 900s > $D/log$i.txt 2>&1 &
  pids+=($!)
done
fail=0
for p in "${pids[@]}"; do wait $p || fail=$((fail+1)); done
echo "stress $ID: $fail of $N copies failed"
grep -h "VERIF-DISC\|DATA RACE\|panic:" $D/log*.txt | cut -c1-400 | sort | uniq -c | sort -rn | head -8
