#!/usr/bin/env python3
"""usage: tools/seedeval.py <ID> <A|B> [--checks C01,C08]
Confirms a seeded change (from /tmp/seed-<ID>-out/<A|B>/) in its scratch worktree /tmp/seed-<ID>:
  builds, demo fails with the change, existing suite passes with the change, demo passes without.
Then applies it to /repo, runs the property's quick check (plus --checks), reverts /repo, and stores
/verif/seeded/<ID>-<A|B>/{patch.diff, demo file, meta.json}.
"""
import json, os, shutil, subprocess, sys, glob, time

ID, V = sys.argv[1], sys.argv[2]
extra = []
if "--checks" in sys.argv:
    extra = sys.argv[sys.argv.index("--checks") + 1].split(",")
ROUND = ""
if "--round" in sys.argv:
    ROUND = sys.argv[sys.argv.index("--round") + 1]
PHASE = "both"
if "--phase" in sys.argv:
    PHASE = sys.argv[sys.argv.index("--phase") + 1]  # confirm: scratch worktree only; check: /repo only (needs an earlier confirm)
WT = "/tmp/seed%s-%s" % (ROUND, ID)
SRC = "/tmp/seed%s-%s-out/%s" % (ROUND, ID, V)
OUT = "/verif/seeded/%s-%s%s" % (ID, V, ROUND)
env = dict(os.environ, GOPROXY="off", GOSUMDB="off", GOTOOLCHAIN="local", GOFLAGS="")

def sh(cmd, cwd, timeout=1500):
    p = subprocess.run(cmd, cwd=cwd, env=env, shell=True, stdout=subprocess.PIPE, stderr=subprocess.STDOUT, text=True, timeout=timeout)
    return p.returncode, p.stdout

meta = json.load(open(os.path.join(SRC, "meta.json")))
patch = os.path.join(SRC, "patch.diff")
demo_path = meta.get("demo_path") or meta.get("demo") or ""
demos = [f for f in glob.glob(os.path.join(SRC, "*_test.go"))]
res = {"id": ID, "variant": V + ROUND, "property": ID, "summary": meta.get("summary"), "needs_to_manifest": meta.get("needs_to_manifest"),
       "files_changed": meta.get("files_changed"), "agent_verified": meta.get("verified")}
if not demos:
    print("no demo test file"); sys.exit(2)
demo = demos[0]
if os.path.isdir(os.path.join(WT, demo_path)):
    demo_rel = os.path.join(demo_path, os.path.basename(demo))
elif demo_path.endswith(".go"):
    demo_rel = demo_path
else:
    demo_rel = os.path.join("test/e2e", os.path.basename(demo))
res["demo_rel"] = demo_rel
pkg = "./" + os.path.dirname(demo_rel) + "/"
# test function names in the demo
import re
names = re.findall(r"^func (Test\w+)\(", open(demo).read(), re.M)
runpat = "^(" + "|".join(names) + ")$"

if PHASE == "check":
    prev = json.load(open(os.path.join(OUT, "meta.json")))
    res.update({k: prev[k] for k in ("demo_without_change_passes", "builds", "demo_with_change_fails", "suite_passes_with_change", "suite_wall_s", "confirmed") if k in prev})
    patch = os.path.join(OUT, "patch.diff")
ok = res.get("confirmed", False)
if PHASE != "check":
  sh("git checkout -q -- . && git clean -fdq", WT)
rc, out = (0, "") if PHASE == "check" else sh("git apply --check %s" % patch, WT)
if rc != 0:
    print("patch does not apply to scratch worktree:", out); sys.exit(2)
if PHASE != "check":
  shutil.copy(demo, os.path.join(WT, demo_rel))
  # without the change: demo passes
  rc0, out0 = sh("go test -vet=off -count=1 -run '%s' %s" % (runpat, pkg), WT)
  res["demo_without_change_passes"] = (rc0 == 0)
  sh("git apply %s" % patch, WT)
  rcb, outb = sh("go build ./...", WT)
  res["builds"] = (rcb == 0)
  # with the change: demo fails (schedule-dependent demos: up to 3 runs)
  fails = 0
  for i in range(3):
      rc1, out1 = sh("go test -vet=off -count=1 -run '%s' %s" % (runpat, pkg), WT)
      if rc1 != 0:
          fails += 1
          break
  res["demo_with_change_fails"] = fails > 0
  # existing suite with the change (demo file removed so it does not count)
  os.remove(os.path.join(WT, demo_rel))
  t0 = time.time()
  rcs, outs = sh("go test -vet=off -count=1 ./... 2>&1 | grep -v 'no test files'", WT, timeout=2400)
  res["suite_passes_with_change"] = ("FAIL" not in outs)
  res["suite_wall_s"] = round(time.time() - t0)
  if "FAIL" in outs:
      res["suite_failures"] = [l for l in outs.splitlines() if "FAIL" in l][:10]
  sh("git checkout -q -- . && git clean -fdq", WT)
  ok = res["builds"] and res["demo_without_change_passes"] and res["demo_with_change_fails"] and res["suite_passes_with_change"]
  res["confirmed"] = ok
  print(json.dumps(res, indent=1))
  os.makedirs(OUT, exist_ok=True)
  shutil.copy(patch, os.path.join(OUT, "patch.diff"))
  shutil.copy(demo, os.path.join(OUT, os.path.basename(demo)))
# run our checks against /repo with the change applied
runs = {}
if ok and PHASE != "confirm":
    rc, out = sh("git -C /repo diff --quiet && git -C /repo apply --check %s" % patch, "/verif")
    if rc != 0:
        rc3, out3 = sh("git -C /repo diff --quiet && git -C /repo apply --3way %s" % patch, "/verif")
        res["applies_to_repo_head"] = "3way" if rc3 == 0 else "no: " + out3[-300:]
        if rc3 != 0:
            sh("git -C /repo checkout -q -- . ; git -C /repo reset -q", "/verif")
    else:
        sh("git -C /repo apply %s" % patch, "/verif")
        res["applies_to_repo_head"] = "yes"
    if res["applies_to_repo_head"] in ("yes", "3way"):
        try:
            for cid in [ID] + extra:
                rc, out = sh("./check %s quick" % cid, "/verif", timeout=1800)
                lines = [l for l in out.splitlines() if not l.startswith("KNOWN-FINDING")]
                runs[cid] = {"rc": rc, "tail": lines[-6:]}
        finally:
            sh("git -C /repo reset -q; git -C /repo checkout -q -- . ; git -C /repo clean -fdq -- . ", "/verif")
res["check_runs"] = runs
res["caught_by"] = [c for c, r in runs.items() if r["rc"] == 1]
json.dump(res, open(os.path.join(OUT, "meta.json"), "w"), indent=1)
print("CONFIRMED" if ok else "NOT CONFIRMED", "caught_by=", res["caught_by"])
