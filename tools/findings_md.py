#!/usr/bin/env python3
"""Regenerates the findings tables between the markers in DESIGN.md from known_findings.json and seeded/*/meta.json."""
import json, os, glob, re
V = os.path.dirname(os.path.dirname(os.path.abspath(__file__)))
k = json.load(open(os.path.join(V, "known_findings.json")))["findings"]
def esc(s): return (s or "").replace("|", "\\|").replace("\n", " ")
out = []
out.append("### Open findings (genuine defects recorded, not repaired)\n")
out.append("| id | property | discrepancy kind | excluded shape (feature) | what fails |")
out.append("|---|---|---|---|---|")
for f in k:
    if f.get("status") == "open":
        out.append("| %s | %s | %s | %s | %s |" % (f["id"], f["property"], esc(f.get("kind")), esc(f.get("feature")), esc(f.get("what"))))
out.append("\n### Defects repaired in /repo (`fix:` commits)\n")
out.append("| id | property | commit | what failed |")
out.append("|---|---|---|---|")
for f in k:
    if f.get("status") == "fixed":
        out.append("| %s | %s | %s | %s |" % (f["id"], f["property"], f.get("commit", ""), esc(f.get("what"))))
other = [f for f in k if f.get("status") not in ("open", "fixed")]
if other:
    out.append("\n### Latent (masked by another open finding; not suppressing anything)\n")
    for f in other:
        out.append("* %s (%s): %s" % (f["id"], f["property"], esc(f.get("what"))))
ftxt = "\n".join(out) + "\n"
# sensitivity table from seeded
rows = []
for m in sorted(glob.glob(os.path.join(V, "seeded", "*", "meta.json"))):
    d = json.load(open(m))
    first = ", ".join(d.get("caught_by") or []) or ("missed" if d.get("confirmed") else "n/a")
    after = ", ".join(d.get("caught_by_after_strengthening") or [])
    if after:
        first += " -> **" + after + "** after: " + esc(d.get("strengthening", ""))
    fr = d.get("final_run") or {}
    if d.get("obsolete"):
        last = "obsolete: " + esc(d["obsolete"][:220])
    elif not fr:
        last = "-"
    elif not fr.get("applies"):
        last = "patch no longer applies at %s (code rewritten by a later fix)" % fr.get("repo_head")
    else:
        last = (", ".join(fr.get("caught_by") or []) or "MISSED") + " @" + str(fr.get("repo_head"))
    rows.append("| %s-%s | %s | %s | %s | %s | %s |" % (d["id"], d["variant"], d["property"], esc((d.get("summary") or "")[:260]), "yes" if d.get("confirmed") else "no", first, last))
stxt = "| seeded change | property | what it does | confirmed (builds, suite green, demo fails/passes) | caught by (quick tier) when evaluated | last full re-run of the matrix (tools/seedmatrix.py) |\n|---|---|---|---|---|---|\n" + "\n".join(rows) + "\n"
p = os.path.join(V, "DESIGN.md")
s = open(p).read()
def put(s, tag, txt):
    a, b = "<!-- BEGIN %s -->" % tag, "<!-- END %s -->" % tag
    if a not in s:
        return s
    i, j = s.index(a) + len(a), s.index(b)
    return s[:i] + "\n" + txt + s[j:]
s = put(s, "FINDINGS", ftxt)
s = put(s, "SEEDED", stxt)
open(p, "w").write(s)
print("open:", sum(1 for f in k if f.get("status") == "open"), "fixed:", sum(1 for f in k if f.get("status") == "fixed"), "seeded:", len(rows))
