#!/usr/bin/env python3
"""usage: tools/seedrecheck.py <seed-dir-name e.g. C02-B2> "<strengthening text>" [C02 C10 ...]
Applies seeded/<name>/patch.diff to /repo, runs the quick check of the named properties (default: the seed's own),
reverts /repo, and records caught_by_after_strengthening + strengthening in the seed's meta.json."""
import json, os, subprocess, sys
name, text = sys.argv[1], sys.argv[2]
d = "/verif/seeded/" + name
meta = json.load(open(d + "/meta.json"))
checks = sys.argv[3:] or [meta["property"]]
def sh(c):
    p = subprocess.run(c, shell=True, cwd="/verif", stdout=subprocess.PIPE, stderr=subprocess.STDOUT, text=True)
    return p.returncode, p.stdout
rc, out = sh("git -C /repo diff --quiet && (git -C /repo apply %s/patch.diff || git -C /repo apply --3way %s/patch.diff)" % (d, d))
if rc != 0:
    print("cannot apply:", out); sys.exit(2)
caught = []
try:
    for c in checks:
        rc, out = sh("./check %s quick" % c)
        lines = [l for l in out.splitlines() if not l.startswith("KNOWN-FINDING")]
        print(c, "rc=%d" % rc, (lines[-2][:300] if len(lines) > 1 else ""))
        meta.setdefault("recheck_runs", {})[c] = {"rc": rc, "tail": [l[:400] for l in lines[-4:]]}
        if rc == 1:
            caught.append(c)
finally:
    sh("git -C /repo reset -q; git -C /repo checkout -q -- . ; git -C /repo clean -fdq -- .")
if caught:
    meta["caught_by_after_strengthening"] = caught
    meta["strengthening"] = text
json.dump(meta, open(d + "/meta.json", "w"), indent=1)
print("caught after strengthening:", caught)
