#!/bin/bash
# usage: tools/mut.sh <ID> <patch.diff> [tier]  -- applies a patch to /repo, runs the check, reverts.
set -u
ID=$1; P=$2; T=${3:-quick}
git -C /repo diff --quiet || { echo "/repo dirty"; exit 3; }
git -C /repo apply "$P" || { echo "patch failed"; exit 3; }
(cd /repo && GOPROXY=off go build ./... ) || { git -C /repo checkout -- .; echo "build failed"; exit 3; }
cd /verif && ./check "$ID" "$T"; rc=$?
git -C /repo checkout -- .
git -C /repo status --short | grep -v '^??' 
echo "mut rc=$rc"
exit $rc
