#!/usr/bin/env python3
"""usage: tools/seedmatrix.py [--lanes N] [names...]   (default: every directory under /verif/seeded)
Re-runs, for each stored seeded change, the quick check of the checks recorded as catching it (caught_by or
caught_by_after_strengthening; default: the seed's own property) against the engine with the change applied, and
records the outcome as final_run in the seed's meta.json. Prints one line per seed.

Without --lanes the change is applied to /repo itself (restored after every seed). With --lanes N the work is split
over N private lanes under /tmp/mlane<i>: each lane is a git worktree of /repo's HEAD plus a copy of /verif whose
harness go.mod points at that worktree, so /repo and /verif stay untouched while the matrix runs; lanes are removed
at the end and the final_run records are merged back into /verif/seeded/*/meta.json."""
import json, os, subprocess, sys, time, shutil

args = sys.argv[1:]
LANES = 0
if "--lanes" in args:
    i = args.index("--lanes"); LANES = int(args[i + 1]); del args[i:i + 2]
LANE = None
if "--lane-worker" in args:  # internal: --lane-worker <verifdir> <repodir>
    i = args.index("--lane-worker"); LANE = (args[i + 1], args[i + 2]); del args[i:i + 3]
VERIF, REPO = LANE if LANE else ("/verif", "/repo")
# with VERIF_SEED set the outcome is kept beside the default-seed record, as final_run_seed<N>
KEY = "final_run" + ("_seed" + os.environ["VERIF_SEED"] if os.environ.get("VERIF_SEED") else "")
names = args or sorted(d for d in os.listdir("/verif/seeded") if os.path.isdir("/verif/seeded/" + d))

def sh(c, cwd=None):
    p = subprocess.run(c, shell=True, cwd=cwd or VERIF, stdout=subprocess.PIPE, stderr=subprocess.STDOUT, text=True)
    return p.returncode, p.stdout

def restore():
    sh("git -C %s reset -q; git -C %s checkout -q -- . ; git -C %s clean -fdq -- ." % (REPO, REPO, REPO))

def worker(names):
    head = sh("git -C %s log --format=%%h -1" % REPO)[1].strip()
    missed = []
    for name in names:
        d = VERIF + "/seeded/" + name
        meta = json.load(open(d + "/meta.json"))
        if meta.get("obsolete"):
            print(name, "obsolete (neutralised by an engine repair), skipped", flush=True); continue
        checks = meta.get("caught_by_after_strengthening") or meta.get("caught_by") or [meta["property"]]
        rc, out = sh("git -C %s diff --quiet && (git -C %s apply %s/patch.diff 2>/dev/null || git -C %s apply --3way %s/patch.diff)" % (REPO, REPO, d, REPO, d))
        if rc != 0:
            restore()
            print(name, "DOES NOT APPLY to", head, flush=True); meta[KEY] = {"repo_head": head, "applies": False}
            json.dump(meta, open(d + "/meta.json", "w"), indent=1); continue
        caught, runs = [], {}
        try:
            for c in checks:
                t0 = time.time()
                rc, out = sh("./check %s quick" % c)
                viol = [l for l in out.splitlines() if l.startswith("VIOLATION")]
                runs[c] = {"rc": rc, "wall_s": round(time.time() - t0, 1), "violation_line": (viol[0].replace(VERIF, "/verif") if viol else None)}
                if rc == 1:
                    caught.append(c)
        finally:
            restore()
        meta[KEY] = {"repo_head": head, "applies": True, "runs": runs, "caught_by": caught}
        json.dump(meta, open(d + "/meta.json", "w"), indent=1)
        print(name, "caught by", caught if caught else "NOTHING", flush=True)
        if not caught:
            missed.append(name)
    print("missed:", missed, flush=True)

if not LANES:
    worker(names)
    sys.exit(0)

# ---- lanes
procs = []
for i in range(LANES):
    base = "/tmp/mlane%d" % i
    sh("git -C /repo worktree remove --force %s/repo 2>/dev/null; rm -rf %s; mkdir -p %s" % (base, base, base), "/")
    rc, out = sh("git -C /repo worktree add -q --detach %s/repo HEAD" % base, "/")
    if rc != 0:
        print(out); sys.exit(2)
    sh("rsync -a --exclude .git --exclude .bin --exclude .out --exclude 'replays/*.json' /verif/ %s/verif/" % base, "/")
    gm = base + "/verif/harness/go.mod"
    s = open(gm).read().replace("=> /repo", "=> %s/repo" % base)
    open(gm, "w").write(s)
    shutil.copy("/repo/go.sum", base + "/verif/harness/go.sum")
    mine = names[i::LANES]
    log = open("%s/lane.log" % base, "w")
    procs.append((i, base, mine, subprocess.Popen([sys.executable, base + "/verif/tools/seedmatrix.py", "--lane-worker", base + "/verif", base + "/repo"] + mine, stdout=log, stderr=subprocess.STDOUT)))
for i, base, mine, p in procs:
    p.wait()
    sys.stdout.write(open(base + "/lane.log").read()); sys.stdout.flush()
    for name in mine:
        try:
            lm = json.load(open("%s/verif/seeded/%s/meta.json" % (base, name)))
        except Exception as ex:
            print(name, "lane result unreadable:", ex); continue
        if KEY in lm:
            path = "/verif/seeded/%s/meta.json" % name
            m = json.load(open(path)); m[KEY] = lm[KEY]
            json.dump(m, open(path, "w"), indent=1)
    sh("git -C /repo worktree remove --force %s/repo; rm -rf %s" % (base, base), "/")
sh("git -C /repo worktree prune", "/")
print("done")
