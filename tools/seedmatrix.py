#!/usr/bin/env python3
"""usage: tools/seedmatrix.py [names...]   (default: every directory under /verif/seeded)
Re-runs, for each stored seeded change, the quick check of the checks recorded as catching it (caught_by or
caught_by_after_strengthening; default: the seed's own property) against /repo with the change applied, and records
the outcome as final_run in the seed's meta.json. /repo is restored after every seed. Prints one line per seed."""
import json, os, subprocess, sys, time
names = sys.argv[1:] or sorted(d for d in os.listdir("/verif/seeded") if os.path.isdir("/verif/seeded/" + d))
def sh(c):
    p = subprocess.run(c, shell=True, cwd="/verif", stdout=subprocess.PIPE, stderr=subprocess.STDOUT, text=True)
    return p.returncode, p.stdout
head = sh("git -C /repo log --format=%h -1")[1].strip()
missed = []
for name in names:
    d = "/verif/seeded/" + name
    meta = json.load(open(d + "/meta.json"))
    checks = meta.get("caught_by_after_strengthening") or meta.get("caught_by") or [meta["property"]]
    rc, out = sh("git -C /repo diff --quiet && (git -C /repo apply %s/patch.diff 2>/dev/null || git -C /repo apply --3way %s/patch.diff)" % (d, d))
    if rc != 0:
        sh("git -C /repo reset -q; git -C /repo checkout -q -- . ; git -C /repo clean -fdq -- .")
        print(name, "DOES NOT APPLY to", head); meta["final_run"] = {"repo_head": head, "applies": False}
        json.dump(meta, open(d + "/meta.json", "w"), indent=1); continue
    caught, runs = [], {}
    try:
        for c in checks:
            t0 = time.time()
            rc, out = sh("./check %s quick" % c)
            viol = [l for l in out.splitlines() if l.startswith("VIOLATION")]
            runs[c] = {"rc": rc, "wall_s": round(time.time() - t0, 1), "violation_line": (viol[0] if viol else None)}
            if rc == 1:
                caught.append(c)
    finally:
        sh("git -C /repo reset -q; git -C /repo checkout -q -- . ; git -C /repo clean -fdq -- .")
    meta["final_run"] = {"repo_head": head, "applies": True, "runs": runs, "caught_by": caught}
    json.dump(meta, open(d + "/meta.json", "w"), indent=1)
    print(name, "caught by", caught if caught else "NOTHING", flush=True)
    if not caught:
        missed.append(name)
print("missed:", missed)
