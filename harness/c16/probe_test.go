package c16

import (
	"fmt"
	"testing"
	"time"

	"verifharness/internal/run"
)

func TestProbe(t *testing.T) {
	try := func(sql string, table []map[string]any, rows []map[string]any) {
		in, err := run.Open(sql)
		fmt.Println("SQL:", sql)
		if err != nil {
			fmt.Println("  EXEC ERR:", err)
			return
		}
		defer in.Stop()
		_, err = in.S.RegisterTable("meta", table)
		if err != nil {
			fmt.Println("  REG ERR:", err)
			return
		}
		for _, r := range rows {
			got, err := in.S.EmitSync(r)
			if err != nil {
				in.Emit(r)
				time.Sleep(20 * time.Millisecond)
				fmt.Printf("  row %v -> (async) \n", r)
				continue
			}
			fmt.Printf("  row %v -> %#v\n", r, got)
		}
		time.Sleep(30 * time.Millisecond)
		for _, d := range in.Deliveries() {
			fmt.Printf("  delivery %v\n", d.Rows)
		}
	}
	tab := []map[string]any{{"k": 1, "loc": "A", "v": 10}, {"k": "1", "loc": "S", "v": 20}, {"k": 2.5, "loc": "F", "v": 30}}
	rows := []map[string]any{{"id": 1, "k": 1}, {"id": 2, "k": 1.0}, {"id": 3, "k": "1"}, {"id": 4, "k": nil}, {"id": 5}, {"id": 6, "k": 2.5}, {"id": 7, "k": int64(1)}, {"id": 8, "k": int8(1)}, {"id": 9, "k": "zz"}}
	try("SELECT id, m.loc, m.v FROM stream JOIN meta m ON k = m.k", tab, rows)
	try("SELECT id, m.loc, m.v FROM stream LEFT JOIN meta m ON k = m.k", tab, rows)
	try("SELECT s.id, m.loc AS l, m.v FROM stream s LEFT JOIN meta m ON s.k = m.k", tab, rows)
	try("SELECT s.id, meta.loc, meta.v FROM stream AS s INNER JOIN meta ON s.k = meta.k", tab, rows)
	try("SELECT id, meta.loc, v FROM stream LEFT OUTER JOIN meta ON k = k", tab, rows)
	try("SELECT id, m.loc FROM stream JOIN meta AS m ON m.k = k", tab, rows)
	try("SELECT id, m.loc FROM stream LEFT JOIN meta m ON k = m.k WHERE m.v > 15", tab, rows)
	try("SELECT id, m.loc FROM stream LEFT JOIN meta m ON k = m.k WHERE m.loc = 'A'", tab, rows)
	try("SELECT id, m.loc FROM stream LEFT JOIN meta m ON k = m.k WHERE m.loc IS NULL", tab, rows)
	try("SELECT * FROM stream LEFT JOIN meta m ON k = m.k", tab, rows)
	try("SELECT id, m.* FROM stream LEFT JOIN meta m ON k = m.k", tab, rows)
	try("SELECT m.loc, count(*) AS c, sum(id) AS s FROM stream LEFT JOIN meta m ON k = m.k GROUP BY m.loc, CountingWindow(2)", tab, rows)
	try("SELECT m.loc AS l, count(*) AS c, collect(id) AS ids FROM stream JOIN meta m ON k = m.k GROUP BY m.loc, CountingWindow(2)", tab, rows)
	// composite
	tab2 := []map[string]any{{"a": "x", "b": 1, "loc": "X1"}, {"a": "a\x1fs:b", "b": "c", "loc": "COLL1"}, {"a": "x", "b": "1", "loc": "Xs1"}}
	rows2 := []map[string]any{{"id": 1, "a": "x", "b": 1.0}, {"id": 2, "a": "a", "b": "b\x1fs:c"}, {"id": 3, "a": "x", "b": "1"}, {"id": 4, "a": "x"}, {"id": 5, "a": "a\x1fs:b", "b": "c"}}
	try("SELECT id, m.loc FROM stream LEFT JOIN meta m ON a = m.a AND b = m.b", tab2, rows2)
	try("SELECT id, m.loc FROM stream LEFT JOIN meta m ON sa = m.a AND sb = m.b", tab2, []map[string]any{{"id": 1, "sa": "x", "sb": 1}})
	try("SELECT id, m.loc FROM stream s LEFT JOIN meta m ON m.a = s.sa AND m.b = s.sb", tab2, []map[string]any{{"id": 1, "sa": "x", "sb": 1}})
}
