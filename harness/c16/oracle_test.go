package c16

import (
	"fmt"
	"math"
	"math/big"
	"reflect"
	"runtime"
	"sort"
	"strconv"
	"strings"
	"sync"
	"sync/atomic"
	"time"

	"verifharness/internal/gen"
	"verifharness/internal/pbt"
	"verifharness/internal/run"
)

// ---- typed key equality (the property's reading: numbers numerically, strings exactly) -------------

func isNum(v gen.Val) bool { _, ok := v.Num(); return ok }

// exact returns the exact rational value of a numeric Val.
func exact(v gen.Val) *big.Rat {
	switch v.K {
	case "int", "int8", "int16", "int32", "int64":
		return new(big.Rat).SetInt64(v.I)
	case "uint", "uint8", "uint16", "uint32", "uint64":
		return new(big.Rat).SetInt(new(big.Int).SetUint64(v.U))
	}
	f, _ := v.Num()
	if math.IsNaN(f) || math.IsInf(f, 0) {
		return nil
	}
	return new(big.Rat).SetFloat64(f)
}

func keyEq(a, b gen.Val) bool {
	if a.IsNull() || b.IsNull() {
		return false
	}
	an, bn := isNum(a), isNum(b)
	if an != bn {
		return false
	}
	if an {
		x, y := exact(a), exact(b)
		return x != nil && y != nil && x.Cmp(y) == 0
	}
	if a.K == "str" && b.K == "str" {
		return a.S == b.S
	}
	return false
}

func tupleEq(a, b []gen.Val) bool {
	if len(a) != len(b) {
		return false
	}
	for i := range a {
		if !keyEq(a[i], b[i]) {
			return false
		}
	}
	return true
}

func tupleStr(tu []gen.Val) string {
	parts := make([]string, len(tu))
	for i, v := range tu {
		parts[i] = v.String()
	}
	return "(" + strings.Join(parts, ", ") + ")"
}

func (c Case) tableTuple(r gen.Row) []gen.Val {
	tu := make([]gen.Val, len(c.Keys))
	for i, k := range c.Keys {
		tu[i] = r[k.T]
	}
	return tu
}

func (c Case) streamTuple(r gen.Row) []gen.Val {
	tu := make([]gen.Val, len(c.Keys))
	src := map[string]gen.Val(r)
	if c.Nested {
		src = r["dev"].M
	}
	for i, k := range c.Keys {
		v, ok := src[k.S]
		if !ok || v.IsMissing() {
			v = gen.Nil()
		}
		tu[i] = v
	}
	return tu
}

func (c Case) makeStreamRow(id int64, tu []gen.Val) gen.Row {
	r := gen.Row{"id": gen.Int(id), "x": gen.Int(9)}
	if c.Nested {
		m := map[string]gen.Val{}
		for i, k := range c.Keys {
			m[k.S] = tu[i]
		}
		r["dev"] = gen.Map(m)
	} else {
		for i, k := range c.Keys {
			r[k.S] = tu[i]
		}
	}
	return r
}

// ---- model table ------------------------------------------------------------------------------

type trow struct {
	key []gen.Val
	row gen.Row
}

type model struct{ rows []*trow }

func (m *model) find(tu []gen.Val) *trow {
	for _, r := range m.rows {
		if tupleEq(r.key, tu) {
			return r
		}
	}
	return nil
}

func (m *model) upsert(tu []gen.Val, row gen.Row) {
	for i, r := range m.rows {
		if tupleEq(r.key, tu) {
			m.rows[i] = &trow{key: tu, row: row}
			return
		}
	}
	m.rows = append(m.rows, &trow{key: tu, row: row})
}

func (m *model) remove(tu []gen.Val) {
	for i, r := range m.rows {
		if tupleEq(r.key, tu) {
			m.rows = append(m.rows[:i:i], m.rows[i+1:]...)
			return
		}
	}
}

// expectation for one stream row, fixed at the time the row is processed
type expect struct {
	id    int64
	sr    gen.Row
	kept  bool
	match *trow // nil: no match
	why   string
	how   string  // sync | emit | sentinel | probe
	aux   gen.Val // second join: expected x2.aname (NULL without a match)
}

const auxTable = "aux"

// auxName is the static second table: ak in 1,3,5,7,9 with aname "n<ak>".
func auxName(x gen.Val) gen.Val {
	if f, ok := x.Num(); ok && int64(f)%2 == 1 && f == float64(int64(f)) && f >= 1 && f <= 9 {
		return gen.Str(fmt.Sprintf("n%d", int64(f)))
	}
	return gen.Nil()
}

func tcol(match *trow, col string) gen.Val {
	if match == nil {
		return gen.Nil()
	}
	v, ok := match.row[col]
	if !ok || v.IsMissing() {
		return gen.Nil()
	}
	return v
}

func (c Case) whereOK(sr gen.Row, match *trow) bool {
	ok := true
	switch c.Where {
	case 1, 2, 3, 4:
		v := tcol(match, "v")
		f, isnum := v.Num()
		if !isnum {
			return false
		}
		w, _ := c.WhereNum.Num()
		switch c.Where {
		case 1:
			ok = f > w
		case 2:
			ok = f >= w
		case 3:
			ok = f == w
		case 4:
			ok = f < w
		}
	case 5:
		v := tcol(match, "loc")
		ok = v.K == "str" && v.S == c.WhereStr
	case 6:
		ok = tcol(match, "loc").IsNull()
	case 7:
		ok = !tcol(match, "loc").IsNull()
	}
	if ok && c.WhereX >= 0 {
		ok = sr["x"].I > int64(c.WhereX)
	}
	return ok
}

func (c Case) process(m *model, sr gen.Row, how string) *expect {
	e := &expect{id: sr["id"].I, sr: sr, how: how}
	e.match = m.find(c.streamTuple(sr))
	e.aux = gen.Nil()
	if c.Join2 > 0 {
		e.aux = auxName(sr["x"])
	}
	switch {
	case e.match == nil && !c.Left:
		e.why = "INNER JOIN without match"
	case c.Join2 > 0 && c.Join2 <= 2 && e.aux.IsNull():
		e.why = "second (INNER) JOIN without match"
	case !c.whereOK(sr, e.match):
		e.why = "WHERE false"
	default:
		e.kept = true
	}
	return e
}

// ---- value comparison ----------------------------------------------------------------------------

func sameVal(got any, want gen.Val) bool {
	if want.IsNull() {
		return got == nil
	}
	if w, ok := want.Num(); ok {
		g, ok2 := gen.ToFloat(got)
		return ok2 && gen.Close(g, w, 1e-9)
	}
	switch want.K {
	case "str":
		s, ok := got.(string)
		return ok && s == want.S
	case "map":
		gm, ok := got.(map[string]any)
		if !ok {
			return false
		}
		for k, v := range want.M {
			if v.IsMissing() {
				continue
			}
			if !sameVal(gm[k], v) {
				return false
			}
		}
		for k := range gm {
			if v, ok := want.M[k]; !ok || v.IsMissing() {
				return false
			}
		}
		return true
	}
	return reflect.DeepEqual(got, want.Go())
}

func (e *expect) desc() string {
	m := "no table row"
	if e.match != nil {
		m = fmt.Sprintf("table row %v", map[string]gen.Val(e.match.row))
	}
	return fmt.Sprintf("%s of stream row %v (model: %s)", e.how, map[string]gen.Val(e.sr), m)
}

// verKind classifies a difference in the identifying column "ver".
func verKind(got any, want gen.Val) string {
	switch {
	case want.IsNull() && got != nil:
		return "false-match"
	case !want.IsNull() && got == nil:
		return "missed-match"
	}
	return "wrong-table-row"
}

// checkDirect compares one direct-path result with the expectation (exp.kept is true).
func (c Case) checkDirect(got map[string]any, e *expect) (ds []pbt.Disc) {
	q := c.tQual()
	if c.Star {
		for k, v := range e.sr {
			if v.IsMissing() {
				continue
			}
			if !sameVal(got[k], v) {
				ds = append(ds, pbt.D("wrong-value", "%s: SELECT * column %s = %#v, want %s", e.desc(), k, got[k], v))
			}
		}
		tm, _ := got[q].(map[string]any)
		if got[q] != nil && tm == nil {
			ds = append(ds, pbt.D("wrong-columns", "%s: SELECT * column %s = %#v is not a row", e.desc(), q, got[q]))
		}
		if !sameVal(tm["ver"], tcol(e.match, "ver")) {
			ds = append(ds, pbt.D(verKind(tm["ver"], tcol(e.match, "ver")), "%s: %s.ver = %#v, want %s", e.desc(), q, tm["ver"], tcol(e.match, "ver")))
			return
		}
		if e.match != nil {
			if !sameVal(got[q], gen.Map(e.match.row)) {
				ds = append(ds, pbt.D("wrong-value", "%s: %s = %#v, want the table row", e.desc(), q, got[q]))
			}
		} else if len(tm) != 0 {
			ds = append(ds, pbt.D("wrong-value", "%s: %s = %#v, want no table columns", e.desc(), q, got[q]))
		}
		for k := range got {
			if _, ok := e.sr[k]; ok || k == q || (c.SAlias != 0 && k == "s") {
				continue
			}
			ds = append(ds, pbt.D("wrong-columns", "%s: unexpected output column %q in %v", e.desc(), k, got))
		}
		return
	}
	names := map[string]bool{}
	// the identifying column first: it decides the kind
	for _, it := range c.Sel {
		if it.Side == "t" && it.Col == "ver" {
			if want := tcol(e.match, "ver"); !sameVal(got[it.outName()], want) {
				ds = append(ds, pbt.D(verKind(got[it.outName()], want), "%s: output %s (%s.ver) = %#v, want %s; whole output %v", e.desc(), it.outName(), q, got[it.outName()], want, got))
				return
			}
		}
	}
	for _, it := range c.Sel {
		names[it.outName()] = true
		var want gen.Val
		if it.Side == "s" {
			want = e.sr[it.Col]
			if want.K == "" {
				want = gen.Nil()
			}
		} else {
			want = tcol(e.match, it.Col)
		}
		if g := got[it.outName()]; !sameVal(g, want) {
			ds = append(ds, pbt.D("wrong-value", "%s: output %s (%s column %s) = %#v, want %s; whole output %v", e.desc(), it.outName(), it.Side, it.Col, g, want, got))
		}
	}
	if c.Join2 > 0 {
		names["aname2"] = true
		if g := got["aname2"]; !sameVal(g, e.aux) {
			ds = append(ds, pbt.D("wrong-value", "%s: output aname2 (second join, x2.aname) = %#v, want %s; whole output %v", e.desc(), g, e.aux, got))
		}
	}
	for k := range got {
		if !names[k] {
			ds = append(ds, pbt.D("wrong-columns", "%s: unexpected output column %q in %v (expected names %v)", e.desc(), k, got, sortedKeys(names)))
		}
	}
	return
}

func sortedKeys(m map[string]bool) []string {
	out := make([]string, 0, len(m))
	for k := range m {
		out = append(out, k)
	}
	sort.Strings(out)
	return out
}

func (c Case) idName() string {
	if c.Mode == "direct" && !c.Star {
		for _, it := range c.Sel {
			if it.Side == "s" && it.Col == "id" {
				return it.outName()
			}
		}
	}
	return "id"
}

// ---- sentinel --------------------------------------------------------------------------------------

func (c Case) sentinelTuple() []gen.Val {
	tu := make([]gen.Val, len(c.Keys))
	for i := range tu {
		tu[i] = gen.Str(sentinelS)
	}
	return tu
}

// sentinelTableRow is a permanent table row that satisfies the WHERE clause.
func (c Case) sentinelTableRow() gen.Row {
	r := gen.Row{"ver": gen.Int(-1), "loc": gen.Str(sentinelS), "v": gen.Int(100)}
	for i, k := range c.Keys {
		r[k.T] = c.sentinelTuple()[i]
	}
	w, _ := c.WhereNum.Num()
	switch c.Where {
	case 3:
		r["v"] = c.WhereNum
	case 4:
		r["v"] = gen.Float(w - 1)
	case 5:
		r["loc"] = gen.Str(c.WhereStr)
	case 6:
		delete(r, "loc")
	}
	return r
}

// ---- running a case -----------------------------------------------------------------------------

type held struct {
	ref  map[string]any
	snap map[string]any
	e    *expect
}

func goKey(tu []gen.Val) []any {
	out := make([]any, len(tu))
	for i, v := range tu {
		out[i] = v.Go()
	}
	return out
}

func asInt(x any) (int64, bool) {
	f, ok := gen.ToFloat(x)
	if !ok || f != math.Trunc(f) {
		return 0, false
	}
	return int64(f), true
}

func idsOf(x any) ([]int64, bool) {
	l, ok := x.([]any)
	if !ok {
		return nil, false
	}
	out := make([]int64, len(l))
	for i, e := range l {
		n, ok := asInt(e)
		if !ok {
			return nil, false
		}
		out[i] = n
	}
	return out, true
}

const maxDiscs = 8

func runCase(c Case) (res pbt.Result) {
	sql := c.sql()
	in, err := run.Open(sql)
	if err != nil {
		res.Add(pbt.D("execute-error", "%v for %s", err, sql))
		return
	}
	defer in.Stop()
	in.KeepRaw = true
	add := func(d ...pbt.Disc) {
		for _, x := range d {
			if len(res.Discs) < maxDiscs {
				x.Detail = sql + " :: " + x.Detail
				res.Add(x)
			}
		}
	}

	// table registration: the sentinel row plus the generated initial rows
	m := &model{}
	var rows []map[string]any
	st := c.sentinelTableRow()
	m.upsert(c.sentinelTuple(), st)
	rows = append(rows, st.Go())
	for _, r := range c.Init {
		m.upsert(c.tableTuple(r), r)
		rows = append(rows, r.Go())
	}
	var kf []string
	if c.Explicit {
		kf = c.tableKeyFields()
	}
	src, err := in.S.RegisterTable(tableName, rows, kf...)
	if err != nil {
		add(pbt.D("register-error", "RegisterTable: %v", err))
		return
	}
	if c.Join2 > 0 {
		var ar []map[string]any
		for _, k := range []int{1, 3, 5, 7, 9} {
			ar = append(ar, map[string]any{"ak": k, "aname": fmt.Sprintf("n%d", k)})
		}
		if _, err := in.S.RegisterTable(auxTable, ar, "ak"); err != nil {
			add(pbt.D("register-error", "RegisterTable(aux): %v", err))
			return
		}
		res.Class("second-join")
	}

	// background writer on unrelated keys
	var bgOps int64
	stop := make(chan struct{})
	done := make(chan struct{})
	if c.Conc > 0 {
		go func() {
			defer close(done)
			for i := 0; ; i++ {
				select {
				case <-stop:
					return
				default:
				}
				k := i % c.Conc
				tu := make([]gen.Val, len(c.Keys))
				for j := range tu {
					if (j+k)%2 == 0 {
						tu[j] = gen.Str(fmt.Sprintf("bg-%d", k))
					} else {
						tu[j] = gen.Int(int64(1000 + k))
					}
				}
				row := gen.Row{"ver": gen.Int(int64(-1000 - i)), "loc": gen.Str("BG"), "v": gen.Int(50)}
				for j, kc := range c.Keys {
					row[kc.T] = tu[j]
				}
				switch i % 3 {
				case 0:
					src.Upsert(row.Go())
				case 1:
					_ = in.S.UpsertTable(tableName, row.Go())
				default:
					src.Delete(goKey(tu))
				}
				atomic.AddInt64(&bgOps, 1)
				runtime.Gosched()
			}
		}()
	} else {
		close(done)
	}
	stopBG := func() {
		select {
		case <-stop:
		default:
			close(stop)
		}
		<-done
	}
	defer stopBG()

	idName := c.idName()
	exps := map[int64]*expect{}
	var order []*expect // emit order of asynchronously emitted rows (incl. sentinels)
	var helds []held
	pending := 0
	var last *expect
	sentinelID := int64(0)
	broken := false

	emitAsync := func(sr gen.Row, how string) *expect {
		e := c.process(m, sr, how)
		exps[e.id] = e
		order = append(order, e)
		in.Emit(sr.Go())
		pending++
		last = e
		return e
	}
	hasID := func(ds []run.Delivery, want func(int64) bool) bool {
		for _, d := range ds {
			for _, r := range d.Rows {
				if c.Mode == "window" {
					ids, _ := idsOf(r["ids"])
					for _, id := range ids {
						if want(id) {
							return true
						}
					}
				} else if id, ok := asInt(r[idName]); ok && want(id) {
					return true
				}
			}
		}
		return false
	}
	barrier := func() {
		if pending == 0 || broken {
			return
		}
		// n sentinel rows (matching the permanent table row) follow the pending rows; the processor handles
		// rows one at a time in emit order, so a result carrying one of them proves the pending rows were enriched.
		// (Waiting for a pending row's own result instead would turn a wrongly dropped row into a time-out.)
		n := 1
		if c.Mode == "window" {
			n = c.N
		}
		lo, hi := sentinelID-int64(n), sentinelID
		for i := 0; i < n; i++ {
			sentinelID--
			e := emitAsync(c.makeStreamRow(sentinelID, c.sentinelTuple()), "sentinel")
			if !e.kept {
				panic("harness: sentinel row is not kept by the model: " + sql)
			}
		}
		want := func(x int64) bool { return x >= lo && x < hi }
		if !in.WaitFor(pbt.Wait(8*time.Second), func(ds []run.Delivery) bool { return hasID(ds, want) }) {
			add(pbt.D("barrier-lost", "after emitting %s no result arrived within the deadline (sentinel/own delivery missing); deliveries so far: %d", last.desc(), len(in.Deliveries())))
			broken = true
		}
		pending = 0
	}

	// non-triviality bookkeeping
	type ev struct {
		mut bool
		tu  []gen.Val
	}
	var hist []ev
	lookNum, lookStr := false, false
	noteLookup := func(sr gen.Row) {
		tu := c.streamTuple(sr)
		hist = append(hist, ev{tu: tu})
		for _, r := range m.rows {
			for j := range tu {
				a, b := tu[j], r.key[j]
				if a.IsNull() {
					continue
				}
				an, bn := isNum(a), isNum(b)
				switch {
				case an && bn && a.K != b.K && keyEq(a, b):
					lookNum = true
				case an != bn:
					s, n := a, b
					if an {
						s, n = b, a
					}
					if s.K == "str" {
						if f, err := strconv.ParseFloat(s.S, 64); err == nil {
							if nf, _ := n.Num(); nf == f {
								lookStr = true
							}
						}
					}
				}
			}
		}
	}

	nullKey, dropped, keptN := false, 0, 0
	for i, op := range c.Ops {
		if broken {
			break
		}
		switch op.Kind {
		case "upsert":
			barrier()
			tu := c.tableTuple(op.Row)
			hist = append(hist, ev{mut: true, tu: tu})
			if op.Via == 1 {
				if err := in.S.UpsertTable(tableName, op.Row.Go()); err != nil {
					add(pbt.D("upsert-error", "op %d UpsertTable(%v): %v", i, map[string]gen.Val(op.Row), err))
				}
			} else {
				src.Upsert(op.Row.Go())
			}
			m.upsert(tu, op.Row)
		case "delete":
			barrier()
			hist = append(hist, ev{mut: true, tu: op.Key})
			if op.Scalar && len(op.Key) == 1 {
				src.Delete(op.Key[0].Go())
			} else {
				src.Delete(goKey(op.Key))
			}
			m.remove(op.Key)
		case "sync":
			noteLookup(op.Row)
			e := c.process(m, op.Row, "EmitSync")
			exps[e.id] = e
			var got map[string]any
			var err error
			func() {
				defer func() {
					if p := recover(); p != nil {
						err = fmt.Errorf("PANIC: %v", p)
					}
				}()
				got, err = in.S.EmitSync(op.Row.Go())
			}()
			switch {
			case err != nil:
				add(pbt.D("emitsync-error", "op %d %s: %v", i, e.desc(), err))
			case got == nil && e.kept:
				add(pbt.D("row-missing", "op %d %s: EmitSync returned nil, want a result", i, e.desc()))
			case got != nil && !e.kept:
				add(pbt.D("row-unexpected", "op %d %s: EmitSync returned %v, want nil (%s)", i, e.desc(), got, e.why))
			case got != nil:
				add(c.checkDirect(got, e)...)
				helds = append(helds, held{ref: got, snap: run.DeepCopy(got).(map[string]any), e: e})
			}
		case "emit":
			noteLookup(op.Row)
			emitAsync(op.Row, "Emit")
			if op.Barrier {
				barrier()
			}
		}
		if op.Kind == "sync" || op.Kind == "emit" {
			for _, v := range c.streamTuple(op.Row) {
				if v.IsNull() {
					nullKey = true
				}
			}
		}
	}
	barrier()
	// closing probes: every model row is still found under its exact key (direct path only)
	if c.Mode == "direct" && !broken {
		for i, r := range append([]*trow{}, m.rows...) {
			sr := c.makeStreamRow(int64(1000000+i), r.key)
			e := c.process(m, sr, "closing EmitSync probe")
			exps[e.id] = e
			got, err := in.S.EmitSync(sr.Go())
			switch {
			case err != nil:
				add(pbt.D("emitsync-error", "%s: %v", e.desc(), err))
			case got == nil && e.kept:
				add(pbt.D("row-missing", "%s: EmitSync returned nil, want a result", e.desc()))
			case got != nil && !e.kept:
				add(pbt.D("row-unexpected", "%s: EmitSync returned %v, want nil (%s)", e.desc(), got, e.why))
			case got != nil:
				add(c.checkDirect(got, e)...)
			}
		}
	}
	// concurrent burst: several goroutines call EmitSync at the same time with rows of different keys (the table rows'
	// keys and keys that match nothing) while the table is not changing; each answer is the one the model gives.
	if c.Mode == "direct" && !broken && c.Burst > 0 {
		type job struct {
			sr gen.Row
			e  *expect
		}
		jobs := make([][]job, c.Burst)
		id := int64(2000000)
		keys := [][]gen.Val{}
		for _, r := range m.rows {
			keys = append(keys, r.key)
		}
		for k := 0; k < 3; k++ {
			tu := make([]gen.Val, len(c.Keys))
			for j := range tu {
				tu[j] = gen.Str(fmt.Sprintf("absent-%d-%d", k, j))
			}
			keys = append(keys, tu)
		}
		for g := range jobs {
			for round := 0; round < 40; round++ {
				for i := range keys {
					sr := c.makeStreamRow(id, keys[(i+g*2)%len(keys)])
					e := c.process(m, sr, "concurrent EmitSync")
					exps[e.id] = e
					jobs[g] = append(jobs[g], job{sr, e})
					id++
				}
			}
		}
		var wg sync.WaitGroup
		var mu sync.Mutex
		// meanwhile one writer keeps replacing the table rows by themselves (same key, same contents, through both
		// APIs): a key that is present the whole time must match at every moment
		rewrite := make(chan struct{})
		var rewrites int64
		var wwg sync.WaitGroup
		if c.Burst%2 == 0 {
			snapshot := append([]*trow{}, m.rows...)
			wwg.Add(1)
			go func() {
				defer wwg.Done()
				for i := 0; ; i++ {
					select {
					case <-rewrite:
						return
					default:
					}
					r := snapshot[i%len(snapshot)]
					if i%2 == 0 {
						src.Upsert(r.row.Go())
					} else {
						_ = in.S.UpsertTable(tableName, r.row.Go())
					}
					atomic.AddInt64(&rewrites, 1)
				}
			}()
		}
		for g := range jobs {
			wg.Add(1)
			go func(js []job) {
				defer wg.Done()
				for _, j := range js {
					var got map[string]any
					var err error
					func() {
						defer func() {
							if p := recover(); p != nil {
								err = fmt.Errorf("PANIC: %v", p)
							}
						}()
						got, err = in.S.EmitSync(j.sr.Go())
					}()
					var ds []pbt.Disc
					switch {
					case err != nil:
						ds = append(ds, pbt.D("emitsync-error", "%s: %v", j.e.desc(), err))
					case got == nil && j.e.kept:
						ds = append(ds, pbt.D("row-missing", "%s: EmitSync returned nil, want a result", j.e.desc()))
					case got != nil && !j.e.kept:
						ds = append(ds, pbt.D("row-unexpected", "%s: EmitSync returned %v, want nil (%s)", j.e.desc(), got, j.e.why))
					case got != nil:
						ds = c.checkDirect(got, j.e)
					}
					if len(ds) > 0 {
						mu.Lock()
						add(ds...)
						mu.Unlock()
						return
					}
				}
			}(jobs[g])
		}
		wg.Wait()
		close(rewrite)
		wwg.Wait()
		res.Count("burst_row_replacements", atomic.LoadInt64(&rewrites))
		res.Class("concurrent-emitsync-burst")
		if c.Burst%2 == 0 {
			res.Class("burst-with-row-replacement")
		}
	}
	stopBG()

	// results returned earlier are unchanged by later table changes
	for _, h := range helds {
		if !reflect.DeepEqual(h.ref, h.snap) {
			add(pbt.D("returned-result-changed", "%s: result was %v when returned, is %v after later operations", h.e.desc(), h.snap, h.ref))
		}
	}

	for _, d := range in.Deliveries() {
		for i := range d.Rows {
			if i < len(d.Raw) && !reflect.DeepEqual(d.Raw[i], d.Rows[i]) {
				add(pbt.D("returned-result-changed", "delivered row was %v when handed to the sink, is %v after later operations", d.Rows[i], d.Raw[i]))
			}
		}
	}

	// ---- deliveries ----
	must := c.mustDeliver(exps, order)
	if !broken && len(order) > 0 {
		// only asynchronously emitted rows can still be on their way (EmitSync delivers inline)
		in.WaitFor(pbt.Wait(4*time.Second), func(ds []run.Delivery) bool {
			for _, e := range order {
				id := e.id
				if _, ok := must[id]; ok && !hasID(ds, func(x int64) bool { return x == id }) {
					return false
				}
			}
			return true
		})
	}
	dels := in.Deliveries()
	if c.Mode == "direct" {
		seen := map[int64]int{}
		for _, d := range dels {
			for _, r := range d.Rows {
				id, ok := asInt(r[idName])
				if !ok {
					add(pbt.D("wrong-columns", "delivered row without %s: %v", idName, r))
					continue
				}
				e := exps[id]
				if e == nil {
					add(pbt.D("row-unexpected", "delivered row with unknown id: %v", r))
					continue
				}
				seen[id]++
				if !e.kept {
					add(pbt.D("row-unexpected", "%s: delivered %v, want nothing (%s)", e.desc(), r, e.why))
					continue
				}
				if seen[id] > 1 {
					add(pbt.D("row-twice", "%s: delivered %d times", e.desc(), seen[id]))
					continue
				}
				add(c.checkDirect(r, e)...)
			}
		}
		if !broken {
			ids := make([]int64, 0, len(must))
			for id := range must {
				ids = append(ids, id)
			}
			sort.Slice(ids, func(i, j int) bool { return ids[i] < ids[j] })
			for _, id := range ids {
				if seen[id] == 0 {
					add(pbt.D("row-missing", "%s: never delivered to the sink", exps[id].desc()))
				}
			}
		}
	} else {
		c.checkWindow(dels, exps, must, broken, add)
	}

	// ---- classes / non-triviality ----
	for _, e := range exps {
		if e.how == "sentinel" || strings.HasPrefix(e.how, "closing") {
			continue
		}
		if e.kept {
			keptN++
		} else {
			dropped++
		}
	}
	updBetween := false
	for i := range hist {
		if !hist[i].mut {
			continue
		}
		before, after := false, false
		for j := range hist {
			if hist[j].mut || !tupleEq(hist[j].tu, hist[i].tu) {
				continue
			}
			if j < i {
				before = true
			} else {
				after = true
			}
		}
		if before && after {
			updBetween = true
		}
	}
	res.NonTrivial = updBetween || lookNum || lookStr
	cls := func(b bool, name string) {
		if b {
			res.Class(name)
		}
	}
	cls(c.Left, "left")
	cls(!c.Left, "inner")
	cls(len(c.Keys) > 1, "composite")
	cls(len(c.Keys) == 1, "single-key")
	res.Class("mode:" + c.Mode)
	cls(c.Star, "select-star")
	cls(c.Where != 0, "where-joined")
	cls(c.SAlias != 0, "stream-alias")
	cls(c.TAlias != 0, "table-alias")
	cls(c.Reversed, "on-reversed")
	cls(c.Nested, "nested-stream-key")
	cls(c.Explicit, "explicit-keyfields")
	cls(c.Conc > 0, "concurrent-writer")
	cls(updBetween, "update-between-lookups")
	cls(lookNum, "lookalike-numeric-type")
	cls(lookStr, "lookalike-number-vs-string")
	cls(nullKey, "null-stream-key")
	cls(dropped > 0, "has-dropped-row")
	cls(keptN > 0, "has-kept-row")
	cls(broken, "barrier-lost")
	for _, f := range features(c) {
		res.Class("feature:" + f)
	}
	sep := false
	for _, tu := range c.allTuples() {
		for _, v := range tu {
			if v.K == "str" && strings.Contains(v.S, "\x1f") {
				sep = true
			}
		}
	}
	cls(sep, "key-with-unit-separator")
	res.Count("bg_ops", atomic.LoadInt64(&bgOps))
	res.Count("lookups", int64(keptN+dropped))
	return
}

// groupNorm is an injective text form of a grouping value.
func groupNorm(v gen.Val) string {
	if v.IsNull() {
		return "N"
	}
	if f, ok := v.Num(); ok {
		return "n" + fmtNum(f)
	}
	return "s" + v.S
}

// mustDeliver: ids whose result must have reached the sink once the last barrier returned.
// Direct path: every kept row. Window path: the rows that both readings of CountingWindow(N)
// (batches cut over all kept rows / per group) must have delivered.
func (c Case) mustDeliver(exps map[int64]*expect, order []*expect) map[int64]string {
	must := map[int64]string{}
	if c.Mode == "direct" {
		for id, e := range exps {
			if e.kept {
				must[id] = ""
			}
		}
		return must
	}
	var kept []*expect
	perGroup := map[string]int{}
	for _, e := range order {
		if e.kept {
			kept = append(kept, e)
			perGroup[groupNorm(tcol(e.match, c.GroupCol))]++
		}
	}
	globalMust := len(kept) / c.N * c.N
	ord := map[string]int{}
	for i, e := range kept {
		g := groupNorm(tcol(e.match, c.GroupCol))
		o := ord[g]
		ord[g]++
		if i < globalMust && o < perGroup[g]/c.N*c.N {
			must[e.id] = fmt.Sprintf("CountingWindow(%d), %d kept rows, %d in its group", c.N, len(kept), perGroup[g])
		}
	}
	return must
}

func (c Case) checkWindow(dels []run.Delivery, exps map[int64]*expect, must map[int64]string, broken bool, add func(...pbt.Disc)) {
	q := c.tQual()
	gout := c.groupOut()
	seen := map[int64]bool{}
	for di, d := range dels {
		groups := map[string]bool{}
		for _, r := range d.Rows {
			ids, ok := idsOf(r["ids"])
			if !ok || len(ids) == 0 {
				add(pbt.D("wrong-columns", "delivery %d: result row without ids: %v", di, r))
				continue
			}
			if _, bad := r[q+"."+c.GroupCol]; bad {
				add(pbt.D("wrong-columns", "delivery %d: result row carries the qualified column %q: %v (documented name: %q)", di, q+"."+c.GroupCol, r, gout))
			}
			if cnt, ok := asInt(r["c"]); !ok || int(cnt) != len(ids) {
				add(pbt.D("wrong-count", "delivery %d: count(*)=%v but collect(id)=%v", di, r["c"], ids))
			}
			g := r[gout]
			for _, id := range ids {
				e := exps[id]
				if e == nil {
					add(pbt.D("row-unexpected", "delivery %d: unknown id %d in %v", di, id, r))
					continue
				}
				if !e.kept {
					add(pbt.D("row-unexpected", "delivery %d: %s contributes to group %v, want dropped (%s)", di, e.desc(), r, e.why))
					continue
				}
				if seen[id] {
					add(pbt.D("row-twice", "%s contributes to two results", e.desc()))
				}
				seen[id] = true
				if want := tcol(e.match, c.GroupCol); !sameVal(g, want) {
					add(pbt.D("wrong-group", "delivery %d: %s is in group %s=%#v, want %s; result row %v", di, e.desc(), gout, g, want, r))
				}
			}
			// rows of one batch with the same joined value form one group
			var gv gen.Val
			switch x := g.(type) {
			case nil:
				gv = gen.Nil()
			case string:
				gv = gen.Str(x)
			default:
				if f, ok := gen.ToFloat(g); ok {
					gv = gen.Float(f)
				} else {
					gv = gen.Str(fmt.Sprintf("%T:%v", g, g))
				}
			}
			if groups[groupNorm(gv)] {
				add(pbt.D("group-split", "delivery %d has two result rows for group %s=%#v: %v", di, gout, g, d.Rows))
			}
			groups[groupNorm(gv)] = true
		}
	}
	if broken {
		return
	}
	ids := make([]int64, 0, len(must))
	for id := range must {
		ids = append(ids, id)
	}
	sort.Slice(ids, func(i, j int) bool { return ids[i] > ids[j] })
	for _, id := range ids {
		if !seen[id] {
			add(pbt.D("row-missing", "%s: kept row is in no delivered group (%s)", exps[id].desc(), must[id]))
		}
	}
}

// ---- known-finding features -----------------------------------------------------------------------

func (c Case) allTuples() [][]gen.Val {
	var out [][]gen.Val
	for _, r := range c.Init {
		out = append(out, c.tableTuple(r))
	}
	for _, op := range c.Ops {
		switch op.Kind {
		case "upsert":
			out = append(out, c.tableTuple(op.Row))
		case "delete":
			out = append(out, op.Key)
		default:
			out = append(out, c.streamTuple(op.Row))
		}
	}
	return out
}

// encComp spells one key component the way the table index does ("<tag><value>"); only used to
// recognise the separator-collision shape of a case, never by the oracle.
func encComp(v gen.Val) string {
	if v.IsNull() {
		return "<nil>"
	}
	if narrowKinds[v.K] {
		return v.K + ":" + strings.TrimPrefix(v.String(), v.K+":")
	}
	if f, ok := v.Num(); ok {
		if f == 0 {
			f = 0
		}
		return "n:" + fmtNum(f)
	}
	return "s:" + v.S
}

// sepCollision: the parts differ but their unit-separator join is the same text.
func sepCollision(a, b []gen.Val) bool {
	if len(a) != len(b) || len(a) < 2 {
		return false
	}
	pa, pb := make([]string, len(a)), make([]string, len(b))
	same := true
	for i := range a {
		pa[i], pb[i] = encComp(a[i]), encComp(b[i])
		if pa[i] != pb[i] {
			same = false
		}
	}
	return !same && strings.Join(pa, "\x1f") == strings.Join(pb, "\x1f")
}

func features(c Case) []string {
	var f []string
	tus := c.allTuples()
	if c.Reversed {
		diff := c.Nested
		for _, k := range c.Keys {
			if k.S != k.T {
				diff = true
			}
		}
		if diff {
			f = append(f, "on-reversed")
		}
	}
	sep, narrow, big := false, false, false
	for i := range tus {
		for j := range tus {
			if i == j {
				continue
			}
			a, b := tus[i], tus[j]
			if i < j && sepCollision(a, b) {
				sep = true
			}
			for p := range a {
				if p >= len(b) || !isNum(a[p]) || !isNum(b[p]) {
					continue
				}
				if narrowKinds[a[p].K] && a[p].K != b[p].K && keyEq(a[p], b[p]) {
					narrow = true
				}
				fa, _ := a[p].Num()
				fb, _ := b[p].Num()
				if fa == fb && !keyEq(a[p], b[p]) {
					big = true
				}
			}
		}
	}
	if sep {
		f = append(f, "sep-collision")
	}
	if narrow {
		f = append(f, "narrow-int-key")
	}
	if big {
		f = append(f, "key-above-2p53")
	}
	return f
}
