// Package c16 checks C16: a stream-table JOIN enriches each row from the table state at processing time.
//
// A case is a statement shape (INNER/LEFT, aliases, ON layout, SELECT/WHERE/GROUP BY over joined
// columns) plus an explicit history of operations (Upsert, Delete, EmitSync, Emit+barrier) that
// runCase interprets against a fresh engine instance and against a model table (a list searched with
// typed, componentwise key equality: numbers numerically, strings exactly, numbers never equal strings,
// NULL never equal to anything).
package c16

import (
	"fmt"
	"math"
	"os"
	"strconv"
	"strings"
	"testing"

	"pgregory.net/rapid"
	"verifharness/internal/gen"
	"verifharness/internal/pbt"
)

const (
	tableName = "meta"
	sentinelS = "~sentinel~"
)

// KeyCol is one ON pair: stream field name and table field name.
type KeyCol struct {
	S string `json:"s"`
	T string `json:"t"`
}

// SelItem is one SELECT item of the direct path.
type SelItem struct {
	Side string `json:"side"` // "s" stream column, "t" table column
	Col  string `json:"col"`
	As   string `json:"as,omitempty"`
}

// Op is one step of the history.
type Op struct {
	Kind    string    `json:"kind"`              // upsert | delete | sync | emit
	Via     int       `json:"via,omitempty"`     // upsert: 0 src.Upsert, 1 Streamsql.UpsertTable
	Row     gen.Row   `json:"row,omitempty"`     // upsert: table row; sync/emit: stream row
	Key     []gen.Val `json:"key,omitempty"`     // delete: key tuple
	Scalar  bool      `json:"scalar,omitempty"`  // delete on a single-key table: pass the bare value, not []any
	Barrier bool      `json:"barrier,omitempty"` // emit: wait until processed before the next op
}

type Case struct {
	Left       bool      `json:"left"`
	JoinKW     int       `json:"join_kw"`     // 0 short spelling (JOIN / LEFT JOIN), 1 long (INNER JOIN / LEFT OUTER JOIN)
	SAlias     int       `json:"s_alias"`     // 0 none, 1 "stream s", 2 "stream AS s"
	TAlias     int       `json:"t_alias"`     // 0 none (alias = table name), 1 "meta m", 2 "meta AS m"
	QualStream bool      `json:"qual_stream"` // stream columns written as s.<col> (only with SAlias)
	BareRight  bool      `json:"bare_right"`  // table side of ON written without qualifier
	Reversed   bool      `json:"reversed"`    // ON <table side> = <stream side>
	Nested     bool      `json:"nested"`      // stream key fields live under the map column "dev"
	Explicit   bool      `json:"explicit"`    // RegisterTable with explicit keyFields
	Keys       []KeyCol  `json:"keys"`
	Mode       string    `json:"mode"` // direct | window
	Star       bool      `json:"star"` // direct: SELECT *
	Sel        []SelItem `json:"sel,omitempty"`
	Where      int       `json:"where"` // 0 none, 1 v > c, 2 v >= c, 3 v = c, 4 v < c, 5 loc = 'L', 6 loc IS NULL, 7 loc IS NOT NULL
	WhereNum   gen.Val   `json:"where_num"`
	WhereStr   string    `json:"where_str,omitempty"`
	WhereX     int       `json:"where_x"` // -1 none, otherwise AND x > WhereX (stream column)
	N          int       `json:"n"`       // window: CountingWindow(N)
	GroupCol   string    `json:"group_col,omitempty"`
	GroupAs    string    `json:"group_as,omitempty"`
	Init       []gen.Row `json:"init"`
	Ops        []Op      `json:"ops"`
	Conc       int       `json:"conc"`            // 0 none, otherwise number of unrelated keys a background goroutine keeps upserting/deleting
	Join2      int       `json:"join2,omitempty"` // direct, non-star: a second join to the static table aux (ak in 1,3,5,7,9) on the stream column x: 1 JOIN, 2 INNER JOIN, 3 LEFT JOIN, 4 LEFT OUTER JOIN; its column aname is selected as aname2
	Burst      int       `json:"burst,omitempty"` // direct mode: at the end this many goroutines call EmitSync concurrently with rows of different keys
}

// ---- names ----------------------------------------------------------------------------------

func (c Case) tQual() string {
	if c.TAlias == 0 {
		return tableName
	}
	return "m"
}

func (c Case) sPrefix() string {
	if c.SAlias != 0 && c.QualStream {
		return "s."
	}
	return ""
}

func (c Case) streamKeyPath(i int) string {
	if c.Nested {
		return "dev." + c.Keys[i].S
	}
	return c.Keys[i].S
}

func (c Case) tableKeyFields() []string {
	out := make([]string, len(c.Keys))
	for i, k := range c.Keys {
		out[i] = k.T
	}
	return out
}

// outName is the engine's documented naming rule (join_column_naming_test.go, stripJoinAlias):
// AS alias if given, otherwise the column name with the stream/table qualifier removed.
func (it SelItem) outName() string {
	if it.As != "" {
		return it.As
	}
	return it.Col
}

func (c Case) groupOut() string {
	if c.GroupAs != "" {
		return c.GroupAs
	}
	return c.GroupCol
}

func numLit(v gen.Val) string {
	f, _ := v.Num()
	return strconv.FormatFloat(f, 'f', -1, 64)
}

func (c Case) whereSQL() string {
	q := c.tQual() + "."
	var w string
	switch c.Where {
	case 0:
		return ""
	case 1:
		w = q + "v > " + numLit(c.WhereNum)
	case 2:
		w = q + "v >= " + numLit(c.WhereNum)
	case 3:
		w = q + "v = " + numLit(c.WhereNum)
	case 4:
		w = q + "v < " + numLit(c.WhereNum)
	case 5:
		w = q + "loc = '" + c.WhereStr + "'"
	case 6:
		w = q + "loc IS NULL"
	case 7:
		w = q + "loc IS NOT NULL"
	}
	if c.WhereX >= 0 {
		w += " AND " + c.sPrefix() + "x > " + strconv.Itoa(c.WhereX)
	}
	return " WHERE " + w
}

func (c Case) sql() string {
	var sb strings.Builder
	sb.WriteString("SELECT ")
	q := c.tQual()
	if c.Mode == "window" {
		sb.WriteString(q + "." + c.GroupCol)
		if c.GroupAs != "" {
			sb.WriteString(" AS " + c.GroupAs)
		}
		sb.WriteString(", count(*) AS c, collect(id) AS ids")
	} else if c.Star {
		sb.WriteString("*")
	} else {
		for i, it := range c.Sel {
			if i > 0 {
				sb.WriteString(", ")
			}
			if it.Side == "s" {
				sb.WriteString(c.sPrefix() + it.Col)
			} else {
				sb.WriteString(q + "." + it.Col)
			}
			if it.As != "" {
				sb.WriteString(" AS " + it.As)
			}
		}
		if c.Join2 > 0 {
			sb.WriteString(", x2.aname AS aname2")
		}
	}
	sb.WriteString(" FROM stream")
	switch c.SAlias {
	case 1:
		sb.WriteString(" s")
	case 2:
		sb.WriteString(" AS s")
	}
	switch {
	case c.Left && c.JoinKW == 1:
		sb.WriteString(" LEFT OUTER JOIN ")
	case c.Left:
		sb.WriteString(" LEFT JOIN ")
	case c.JoinKW == 1:
		sb.WriteString(" INNER JOIN ")
	default:
		sb.WriteString(" JOIN ")
	}
	sb.WriteString(tableName)
	switch c.TAlias {
	case 1:
		sb.WriteString(" m")
	case 2:
		sb.WriteString(" AS m")
	}
	sb.WriteString(" ON ")
	for i := range c.Keys {
		if i > 0 {
			sb.WriteString(" AND ")
		}
		l := c.sPrefix() + c.streamKeyPath(i)
		r := c.Keys[i].T
		if !c.BareRight {
			r = q + "." + r
		}
		if c.Reversed {
			l, r = r, l
		}
		sb.WriteString(l + " = " + r)
	}
	if c.Join2 > 0 {
		sb.WriteString([]string{"", " JOIN ", " INNER JOIN ", " LEFT JOIN ", " LEFT OUTER JOIN "}[c.Join2] + auxTable + " x2 ON " + c.sPrefix() + "x = x2.ak")
	}
	sb.WriteString(c.whereSQL())
	if c.Mode == "window" {
		fmt.Fprintf(&sb, " GROUP BY %s.%s, CountingWindow(%d)", q, c.GroupCol, c.N)
	}
	return sb.String()
}

// ---- generator ------------------------------------------------------------------------------

// avoid reports whether the generator must steer clear of a confirmed-defect shape (an open finding).
// C16_NOAVOID=<feature,feature|all> switches the steering off: the known-finding filter alone must then
// explain every discrepancy, which is how the narrowness of features() is checked.
func avoid(feature string) bool {
	if na := os.Getenv("C16_NOAVOID"); na == "all" || strings.Contains(","+na+",", ","+feature+",") {
		return false
	}
	return pbt.Open("C16", feature)
}

var narrowKinds = map[string]bool{"int8": true, "int16": true, "uint8": true, "uint16": true}

const two53 = int64(1) << 53

func fmtNum(f float64) string { return strconv.FormatFloat(f, 'f', -1, 64) }

// variants returns look-alikes of the number n under other Go types and as text.
func numVariants(t *rapid.T, n float64, label string) gen.Val {
	integral := n == math.Trunc(n)
	cands := []gen.Val{gen.Float(n), gen.Float(n), gen.Float(n), gen.Str(fmtNum(n)), gen.Str(fmtNum(n))}
	if integral {
		cands = append(cands, gen.Int(int64(n)), gen.Int(int64(n)), gen.Int(int64(n)), gen.Str(fmtNum(n)+".0"), gen.Int64(int64(n)))
		ks := []string{"int32", "uint32", "uint", "uint64"}
		if !avoid("narrow-int-key") {
			ks = append(ks, "int8", "int16", "uint8", "uint16")
		}
		k := ks[rapid.IntRange(0, len(ks)-1).Draw(t, label+"xk")]
		if k[0] != 'u' {
			cands = append(cands, gen.Val{K: k, I: int64(n)})
		} else if n >= 0 {
			cands = append(cands, gen.Val{K: k, U: uint64(n)})
		}
	}
	if float64(float32(n)) == n {
		cands = append(cands, gen.Val{K: "float32", F: fmtNum(n)})
	}
	if n == 0 {
		cands = append(cands, gen.Val{K: "float64", F: "-0"})
	}
	return cands[rapid.IntRange(0, len(cands)-1).Draw(t, label+"var")]
}

func hostilePool(composite bool) []string {
	pool := gen.HostileStrings
	pool = append(append([]string{}, pool...), "a\x1fs:b", "b\x1fs:c", "s:b", "n:1", "1", "1.0", "<nil>\x1f<nil>")
	if composite && avoid("sep-collision") {
		var out []string
		for _, s := range pool {
			if !strings.Contains(s, "\x1f") {
				out = append(out, s)
			}
		}
		return out
	}
	return pool
}

// keyComponent draws a non-NULL key component.
func keyComponent(t *rapid.T, composite bool, label string) gen.Val {
	switch x := rapid.IntRange(0, 19).Draw(t, label+"fam"); {
	case x < 9:
		return numVariants(t, float64(rapid.IntRange(-1, 3).Draw(t, label+"n")), label)
	case x < 11:
		return numVariants(t, float64(rapid.IntRange(-3, 5).Draw(t, label+"h"))+0.5, label)
	case x < 12 && !avoid("key-above-2p53"):
		d := int64(rapid.IntRange(0, 2).Draw(t, label+"big"))
		if rapid.Bool().Draw(t, label+"bigf") {
			return gen.Float(float64(two53))
		}
		return gen.Int64(two53 + d)
	default:
		return gen.Str(rapid.SampledFrom(hostilePool(composite)).Draw(t, label+"s"))
	}
}

// lookalike returns a value that a careless key encoding could confuse with v.
func lookalike(t *rapid.T, v gen.Val, composite bool, label string) gen.Val {
	if f, ok := v.Num(); ok {
		if math.Abs(f) >= float64(two53) {
			return keyComponent(t, composite, label)
		}
		return numVariants(t, f, label)
	}
	if v.K == "str" {
		if f, err := strconv.ParseFloat(v.S, 64); err == nil && !math.IsNaN(f) && !math.IsInf(f, 0) && math.Abs(f) < 1e6 {
			return numVariants(t, f, label)
		}
		switch rapid.IntRange(0, 3).Draw(t, label+"sl") {
		case 0:
			return gen.Str("s:" + v.S)
		case 1:
			if !(composite && avoid("sep-collision")) {
				return gen.Str(v.S + "\x1f")
			}
		}
	}
	return keyComponent(t, composite, label)
}

var locPool = []string{"A", "B", "C", "A", "B", "a|b", "", "\x1f", "s:A"}

func genCase(t *rapid.T) Case {
	c := Case{WhereX: -1}
	c.Left = rapid.Bool().Draw(t, "left")
	c.JoinKW = rapid.IntRange(0, 1).Draw(t, "joinkw")
	c.SAlias = rapid.SampledFrom([]int{0, 0, 1, 2}).Draw(t, "salias")
	c.TAlias = rapid.SampledFrom([]int{0, 1, 1, 2}).Draw(t, "talias")
	if c.SAlias != 0 {
		c.QualStream = rapid.IntRange(0, 3).Draw(t, "qualstream") != 0
	}
	nk := rapid.SampledFrom([]int{1, 1, 1, 2, 2, 3}).Draw(t, "nkeys")
	composite := nk > 1
	sameNames := true
	for i := 0; i < nk; i++ {
		if rapid.Bool().Draw(t, "samename") {
			n := fmt.Sprintf("k%d", i+1)
			c.Keys = append(c.Keys, KeyCol{S: n, T: n})
		} else {
			c.Keys = append(c.Keys, KeyCol{S: fmt.Sprintf("sk%d", i+1), T: fmt.Sprintf("tk%d", i+1)})
			sameNames = false
		}
	}
	c.Nested = rapid.IntRange(0, 9).Draw(t, "nested") == 0
	c.Reversed = rapid.IntRange(0, 7).Draw(t, "reversed") == 0
	if c.Reversed && avoid("on-reversed") && (!sameNames || c.Nested) {
		c.Reversed = false
	}
	if !c.Reversed {
		c.BareRight = rapid.IntRange(0, 4).Draw(t, "bareright") == 0
	}
	c.Explicit = rapid.IntRange(0, 3).Draw(t, "explicit") == 0
	if rapid.IntRange(0, 3).Draw(t, "mode") == 0 {
		c.Mode = "window"
		c.N = rapid.SampledFrom([]int{1, 1, 2, 3}).Draw(t, "N")
		c.GroupCol = rapid.SampledFrom([]string{"loc", "loc", "loc", "v"}).Draw(t, "groupcol")
		if rapid.Bool().Draw(t, "groupas") {
			c.GroupAs = "g"
		}
	} else {
		c.Mode = "direct"
		c.Star = rapid.IntRange(0, 9).Draw(t, "star") == 0
		if !c.Star && rapid.IntRange(0, 3).Draw(t, "join2") == 0 {
			c.Join2 = rapid.IntRange(1, 4).Draw(t, "join2kw")
		}
	}
	// WHERE on a joined column
	if rapid.Bool().Draw(t, "haswhere") {
		c.Where = rapid.IntRange(1, 7).Draw(t, "where")
		if rapid.Bool().Draw(t, "wherefrac") {
			c.WhereNum = gen.Float(float64(rapid.IntRange(0, 8).Draw(t, "wnum")) + 0.5)
		} else {
			c.WhereNum = gen.Int(int64(rapid.IntRange(0, 9).Draw(t, "wnum")))
		}
		c.WhereStr = rapid.SampledFrom([]string{"A", "B", "a|b", "s:A"}).Draw(t, "wstr")
		if rapid.IntRange(0, 5).Draw(t, "wherex") == 0 {
			c.WhereX = rapid.IntRange(0, 5).Draw(t, "wx")
		}
	} else {
		c.WhereNum = gen.Int(0)
	}
	// SELECT list (direct, not star)
	if c.Mode == "direct" && !c.Star {
		items := []SelItem{{Side: "s", Col: "id"}, {Side: "t", Col: "ver"}}
		cand := []SelItem{{Side: "s", Col: "x"}, {Side: "s", Col: "v"}, {Side: "t", Col: "loc"}, {Side: "t", Col: "v"}, {Side: "t", Col: "nope"}}
		for _, k := range c.Keys {
			cand = append(cand, SelItem{Side: "t", Col: k.T})
			if !c.Nested {
				cand = append(cand, SelItem{Side: "s", Col: k.S})
			}
		}
		for _, it := range cand {
			if rapid.IntRange(0, 2).Draw(t, "pick-"+it.Side+it.Col) != 0 {
				items = append(items, it)
			}
		}
		items = rapid.Permutation(items).Draw(t, "selorder")
		used := map[string]bool{}
		for i := range items {
			if rapid.IntRange(0, 3).Draw(t, "as") == 0 {
				items[i].As = fmt.Sprintf("a%d", i)
			}
			if used[items[i].outName()] {
				items[i].As = fmt.Sprintf("a%d", i)
			}
			used[items[i].outName()] = true
		}
		c.Sel = items
	}

	// key universe: every tuple drawn so far; live: tuples the table holds at this point of the history
	var universe, live [][]gen.Val
	newTuple := func(label string) []gen.Val {
		tu := make([]gen.Val, nk)
		for j := range tu {
			tu[j] = keyComponent(t, composite, fmt.Sprintf("%s%d", label, j))
		}
		return tu
	}
	// mutate returns tu itself or a tuple a careless index could confuse with it
	mutate := func(base []gen.Val, label string) []gen.Val {
		tu := append([]gen.Val{}, base...)
		switch x := rapid.IntRange(0, 19).Draw(t, label+"mut"); {
		case x < 11:
			return tu
		case x < 16:
			j := rapid.IntRange(0, nk-1).Draw(t, label+"mj")
			tu[j] = lookalike(t, tu[j], composite, label+"la")
		case x < 18:
			if nk > 1 && len(universe) > 0 {
				// borrow a component of another tuple / another position: componentwise matching
				o := universe[rapid.IntRange(0, len(universe)-1).Draw(t, label+"other")]
				j := rapid.IntRange(0, nk-1).Draw(t, label+"bj")
				tu[j] = o[(j+rapid.IntRange(0, 1).Draw(t, label+"bs"))%nk]
			}
		default:
			if nk > 1 && !avoid("sep-collision") {
				// aimed at "<tag><value>" parts joined by the unit separator: (u+US+"s:"+m, q) vs (u, m+US+tag(q))
				j := rapid.IntRange(0, nk-2).Draw(t, label+"cj")
				u, q := tu[j], tu[j+1]
				if u.K != "str" {
					u = gen.Str("a")
				}
				var tag string
				if f, ok := q.Num(); ok {
					tag = "n:" + fmtNum(f)
				} else {
					tag = "s:" + q.S
				}
				m := rapid.SampledFrom([]string{"b", "", "1"}).Draw(t, label+"cm")
				other := append([]gen.Val{}, tu...)
				tu[j], tu[j+1] = gen.Str(u.S+"\x1fs:"+m), q
				other[j], other[j+1] = u, gen.Str(m+"\x1f"+tag)
				universe = append(universe, other)
				if rapid.Bool().Draw(t, label+"cside") {
					tu, other = other, tu
				}
			}
		}
		universe = append(universe, tu)
		return tu
	}
	// pickTuple: pLive of 10 draws start from a tuple the table holds
	pickTuple := func(label string, pLive int) []gen.Val {
		x := rapid.IntRange(0, 9).Draw(t, label+"src")
		switch {
		case x < pLive && len(live) > 0:
			return mutate(live[rapid.IntRange(0, len(live)-1).Draw(t, label+"lpick")], label)
		case x < 8 && len(universe) > 0:
			return mutate(universe[rapid.IntRange(0, len(universe)-1).Draw(t, label+"upick")], label)
		}
		tu := newTuple(label)
		universe = append(universe, tu)
		return tu
	}
	setLive := func(tu []gen.Val, on bool) {
		for i, l := range live {
			if tupleEq(l, tu) {
				live = append(live[:i:i], live[i+1:]...)
				break
			}
		}
		if on {
			live = append(live, tu)
		}
	}
	ver := int64(0)
	tableRow := func(tu []gen.Val, label string) gen.Row {
		ver++
		r := gen.Row{"ver": gen.Int(ver)}
		for j, k := range c.Keys {
			r[k.T] = tu[j]
		}
		if rapid.IntRange(0, 7).Draw(t, label+"hasloc") != 7 {
			r["loc"] = gen.Str(rapid.SampledFrom(locPool).Draw(t, label+"loc"))
		}
		switch rapid.IntRange(0, 7).Draw(t, label+"vk") {
		case 7:
		case 5, 6:
			r["v"] = gen.Float(float64(rapid.IntRange(0, 9).Draw(t, label+"vf")) + 0.5)
		default:
			r["v"] = gen.Int(int64(rapid.IntRange(0, 9).Draw(t, label+"vi")))
		}
		if c.GroupCol == "v" {
			// one scalar type per grouping column (DESIGN 3.2)
			r["v"] = gen.Int(int64(rapid.IntRange(0, 4).Draw(t, label+"vg")))
		}
		return r
	}
	ninit := rapid.IntRange(0, 4).Draw(t, "ninit")
	for i := 0; i < ninit; i++ {
		tu := pickTuple(fmt.Sprintf("init%d", i), 0)
		dup := false
		for _, l := range live {
			if tupleEq(tu, l) {
				dup = true
			}
		}
		if !dup {
			c.Init = append(c.Init, tableRow(tu, fmt.Sprintf("init%d", i)))
			setLive(tu, true)
		}
	}
	id := int64(0)
	streamRow := func(label string) gen.Row {
		id++
		r := gen.Row{"id": gen.Int(id), "x": gen.Int(int64(rapid.IntRange(0, 9).Draw(t, label+"x")))}
		if rapid.Bool().Draw(t, label+"hasv") {
			r["v"] = gen.Int(int64(100 + rapid.IntRange(0, 9).Draw(t, label+"sv")))
		}
		tu := pickTuple(label, 6)
		keys := map[string]gen.Val{}
		for j, k := range c.Keys {
			v := tu[j]
			switch rapid.IntRange(0, 39).Draw(t, label+"null") {
			case 36:
				v = gen.Nil()
			case 37:
				v = gen.Missing()
			case 38:
				v = gen.Str("zz")
			}
			keys[k.S] = v
		}
		if c.Nested {
			r["dev"] = gen.Map(keys)
		} else {
			for k, v := range keys {
				r[k] = v
			}
		}
		return r
	}
	nops := rapid.IntRange(2, 28).Draw(t, "nops")
	for i := 0; i < nops; i++ {
		label := fmt.Sprintf("op%d", i)
		switch x := rapid.IntRange(0, 99).Draw(t, label+"kind"); {
		case x < 60:
			op := Op{Kind: "emit", Row: streamRow(label)}
			if c.Mode == "direct" && rapid.IntRange(0, 99).Draw(t, label+"sync") < 55 {
				op.Kind = "sync"
			} else {
				op.Barrier = rapid.Bool().Draw(t, label+"barrier")
			}
			c.Ops = append(c.Ops, op)
		case x < 88:
			tu := pickTuple(label, 5)
			c.Ops = append(c.Ops, Op{Kind: "upsert", Via: rapid.IntRange(0, 1).Draw(t, label+"via"), Row: tableRow(tu, label)})
			setLive(tu, true)
		default:
			op := Op{Kind: "delete", Key: pickTuple(label, 8)}
			if nk == 1 {
				op.Scalar = rapid.Bool().Draw(t, label+"scalar")
			}
			c.Ops = append(c.Ops, op)
			setLive(op.Key, false)
		}
	}
	if rapid.IntRange(0, 3).Draw(t, "conc") == 0 {
		c.Conc = rapid.IntRange(1, 4).Draw(t, "nconc")
	}
	if c.Mode == "direct" && rapid.IntRange(0, 3).Draw(t, "burst") == 0 {
		c.Burst = rapid.IntRange(2, 4).Draw(t, "nburst")
	}
	return c
}

// ---- spec -----------------------------------------------------------------------------------

var spec = pbt.Spec[Case]{
	ID: "C16",
	Rule: "generated: INNER/LEFT (short and long spelling), with/without stream and table aliases (implicit and AS), ON with 1-3 pairs " +
		"(same or different stream/table field names, qualified or bare, stream side left or right, stream key optionally nested), " +
		"RegisterTable with derived or explicit key fields; key components int/float64/other Go numeric types/string/NULL/missing with " +
		"look-alikes (1, 1.0, '1', '1.0', -0, 2^53+1) and separator-bearing strings; optionally a second JOIN / INNER JOIN / LEFT [OUTER] JOIN to a static table on another stream column (after the first one, which may be LEFT); direct path (SELECT of stream and table columns with " +
		"and without AS, SELECT *, WHERE on a joined column) and GROUP BY a joined column over CountingWindow(N); history of 1-24 ops " +
		"Upsert (source and UpsertTable) / Delete (tuple and scalar form) / EmitSync / Emit with barriers before every table change; " +
		"optional background goroutine upserting and deleting unrelated keys; optionally a final burst of 2-4 goroutines calling EmitSync concurrently with rows of different keys (table rows' keys and keys that match nothing), for an even number of goroutines while a writer keeps replacing every table row by itself through Upsert / UpsertTable. Oracle: model table with typed componentwise key equality. " +
		"non-trivial = an upsert/delete of a key between two lookups of that key, or a lookup whose key is a numeric/string or " +
		"numeric-type look-alike of a table key; distinct = hash of the case JSON",
	Assumptions: []string{
		"input never dropped: WithOverflowStrategy(block,0)",
		"the processor goroutine handles emitted rows one at a time in emit order, so a delivered sentinel row (matching a permanent table row) proves every earlier emitted row was enriched",
		"table rows never use NULL key components; a NULL or missing stream key component never matches",
		"NULL comparisons in WHERE are false",
		"window mode is checked independently of how CountingWindow(N) cuts batches (global or per group): only rows both readings must deliver are required",
	},
	Gen:      genCase,
	Run:      runCase,
	Features: features,
	WAL:      true, // built with -race: a detected race ends the process; the logged case is the replay
}

func TestProp(t *testing.T)    { pbt.RunProp(t, spec) }
func TestReplay(t *testing.T)  { pbt.RunReplay(t, spec) }
func TestWitness(t *testing.T) { pbt.RunWitnesses(t, spec) }
