package c18

import (
	"fmt"
	"runtime"
	"strings"
	"sync"
	"sync/atomic"
	"testing"
	"time"
	"verifharness/internal/hook"

	"github.com/rulego/streamsql"
	"github.com/rulego/streamsql/functions"
	"github.com/rulego/streamsql/logger"
	"github.com/rulego/streamsql/types"
	"pgregory.net/rapid"
	"verifharness/internal/et"
	"verifharness/internal/pbt"
	"verifharness/internal/run"
)

type SinkSpec struct {
	Kind    string `json:"kind"` // plain, slow, panic, re-stats, re-emit, re-addsink, re-stop
	Sync    bool   `json:"sync"`
	Every   int    `json:"every"`    // act on every k-th call
	DelayUs int    `json:"delay_us"` // slow sink
}

// SmallBuf: buffer and pool sizes of a custom performance configuration.
type SmallBuf struct {
	Data, Result, WinOut, SinkPool, SinkWorkers int
}

type Case struct {
	Kind        string     `json:"kind"` // direct, analytic, cep, tumbling, sliding, session, counting, global
	EventTime   bool       `json:"event_time"`
	Strategy    string     `json:"strategy"`
	Producers   int        `json:"producers"`
	RowsPer     int        `json:"rows_per"`
	SyncCallers int        `json:"sync_callers"`
	Adders      int        `json:"adders"`
	Readers     int        `json:"readers"`
	Triggerers  int        `json:"triggerers"`
	Stops       int        `json:"stops"`
	StopAfterUs int        `json:"stop_after_us"`
	Sinks       []SinkSpec `json:"sinks"`
	PanicRow    bool       `json:"panic_row"`           // rows that make a custom function panic
	PaceUs      int        `json:"pace_us"`             // producer pause every 16 rows
	Sentinel    bool       `json:"sentinel"`            // direct kinds: after the producers, a sentinel row must still be delivered before Stop
	HookSeed    uint64     `json:"hook_seed,omitempty"` // seed of the engine's build-tag-guarded perturbation points (0 = off)
	Small       *SmallBuf  `json:"small,omitempty"`     // nil = default buffer sizes; otherwise a custom performance configuration with small buffers (every stage fills up)
	Backlog     bool       `json:"backlog,omitempty"`   // planted: blocking pipeline, smallest buffers, slow sink, Stop under backlog
	Where       int        `json:"where,omitempty"`     // shape of the (always true) WHERE predicate: 0 shortcut comparison, 1-3 forms the general evaluator has to run
}

var registerOnce sync.Once

func registerBoom() {
	registerOnce.Do(func() {
		_ = functions.RegisterCustomFunction("c18boom", functions.TypeMath, "test", "panics on 666", 1, 1,
			func(ctx *functions.FunctionContext, args []any) (any, error) {
				if f, ok := args[0].(int); ok && f == 666 {
					panic("c18boom: injected row panic")
				}
				return args[0], nil
			})
	})
}

var kinds = []string{"direct", "analytic", "cep", "tumbling", "sliding", "session", "counting", "global"}

func genCase(t *rapid.T) Case {
	c := Case{Kind: rapid.SampledFrom(kinds).Draw(t, "kind")}
	if c.Kind == "tumbling" || c.Kind == "sliding" || c.Kind == "session" {
		c.EventTime = rapid.Bool().Draw(t, "eventtime")
	}
	c.Strategy = rapid.SampledFrom([]string{"drop", "block", "expand"}).Draw(t, "strategy")
	c.Producers = rapid.IntRange(1, 4).Draw(t, "producers")
	c.RowsPer = rapid.SampledFrom([]int{20, 100, 400, 1500}).Draw(t, "rows")
	if c.Kind == "direct" || c.Kind == "analytic" {
		c.SyncCallers = rapid.IntRange(0, 2).Draw(t, "synccallers")
	}
	c.Adders = rapid.IntRange(0, 2).Draw(t, "adders")
	c.Readers = rapid.IntRange(0, 2).Draw(t, "readers")
	c.Triggerers = rapid.IntRange(0, 1).Draw(t, "triggerers")
	c.Stops = rapid.IntRange(1, 2).Draw(t, "stops")
	c.StopAfterUs = rapid.SampledFrom([]int{0, 50, 500, 3000, 20000}).Draw(t, "stopafter")
	ns := rapid.IntRange(1, 3).Draw(t, "nsinks")
	sk := []string{"plain", "slow", "panic", "re-stats", "re-emit", "re-stop"}
	if !pbt.Open("C18", "sync-sink-addsink") {
		sk = append(sk, "re-addsink")
	}
	for i := 0; i < ns; i++ {
		s := SinkSpec{Kind: rapid.SampledFrom(sk).Draw(t, "sinkkind"), Sync: rapid.Bool().Draw(t, "sinksync"), Every: rapid.IntRange(1, 5).Draw(t, "every")}
		if s.Kind == "slow" {
			s.DelayUs = rapid.SampledFrom([]int{100, 1000, 5000}).Draw(t, "delay")
		}
		if s.Kind == "re-emit" && c.Strategy == "block" {
			s.Kind = "re-stats" // re-entrant Emit only under a non-blocking strategy
		}
		c.Sinks = append(c.Sinks, s)
	}
	// keep the total time spent in slow sinks near a second (a full worker pool runs sinks inline)
	for _, sp := range c.Sinks {
		if sp.Kind == "slow" {
			if max := 600000 / sp.DelayUs / len(c.Sinks); c.RowsPer > max {
				c.RowsPer = max
			}
		}
	}
	c.PanicRow = (c.Kind == "direct") && rapid.IntRange(0, 2).Draw(t, "panicrow") == 0
	c.PaceUs = rapid.SampledFrom([]int{0, 0, 20, 200}).Draw(t, "pace")
	c.Sentinel = (c.Kind == "direct" || c.Kind == "analytic") && rapid.Bool().Draw(t, "sentinel")
	c.HookSeed = hookSeed(t)
	c.Where = rapid.IntRange(0, 3).Draw(t, "where")
	if rapid.IntRange(0, 2).Draw(t, "smallbuf") == 0 {
		c.Small = &SmallBuf{
			Data:        rapid.SampledFrom([]int{4, 32, 1000}).Draw(t, "sbdata"),
			Result:      rapid.SampledFrom([]int{2, 16, 100}).Draw(t, "sbresult"),
			WinOut:      rapid.SampledFrom([]int{2, 4, 16}).Draw(t, "sbwin"),
			SinkPool:    rapid.SampledFrom([]int{1, 4}).Draw(t, "sbpool"),
			SinkWorkers: rapid.SampledFrom([]int{1, 2}).Draw(t, "sbworkers"),
		}
	}
	// planted backlog: a blocking pipeline whose every stage is full when Stop arrives (smallest buffers, one slow
	// asynchronous sink, several unpaced producers, Stop once the backlog has built up) - a goroutine that waits
	// inside a stage hand-over at that moment must still be released
	if rapid.IntRange(0, 7).Draw(t, "backlog") == 0 {
		c.Kind = rapid.SampledFrom([]string{"counting", "counting", "tumbling", "sliding", "session", "global", "direct"}).Draw(t, "blkind")
		c.EventTime = false
		c.Strategy = "block"
		c.Small = &SmallBuf{Data: 4, Result: 2, WinOut: 2, SinkPool: 1, SinkWorkers: 1}
		c.Sinks = []SinkSpec{{Kind: "slow", Sync: false, Every: 1, DelayUs: rapid.SampledFrom([]int{1000, 5000}).Draw(t, "bldelay")}}
		c.Producers = rapid.IntRange(2, 4).Draw(t, "blproducers")
		c.RowsPer = 600000 / c.Sinks[0].DelayUs
		c.PaceUs = 0
		c.PanicRow, c.Sentinel, c.SyncCallers = false, false, 0
		c.StopAfterUs = rapid.SampledFrom([]int{3000, 20000, 20000}).Draw(t, "blstopafter")
		c.Backlog = true
	}
	return c
}

// whereOf: predicates that hold for every generated row (ids are >= 0); forms 1-3 are not answered by the
// 'column OP literal' shortcuts, so concurrent EmitSync callers and the processing goroutine share the compiled program.
func whereOf(c Case) string {
	switch c.Where {
	case 1:
		return "(id >= 0)"
	case 2:
		return "id >= 0 AND (v >= -100000 OR id == 1)"
	case 3:
		return "k LIKE 'zz%' OR id >= 0"
	}
	return "id >= 0"
}

func sqlOf(c Case) string {
	with := ""
	if c.EventTime {
		with = " " + et.With("ms", 0, 0)
	}
	switch c.Kind {
	case "direct":
		if c.PanicRow {
			return "SELECT id, c18boom(v) AS b FROM stream WHERE " + whereOf(c)
		}
		return "SELECT id, v * 2 AS w FROM stream WHERE " + whereOf(c)
	case "analytic":
		if c.Where > 0 {
			return "SELECT id, lag(v) OVER (PARTITION BY k) AS lv FROM stream WHERE " + whereOf(c)
		}
		return "SELECT id, lag(v) OVER (PARTITION BY k) AS lv FROM stream"
	case "cep":
		return "SELECT * FROM stream MATCH_RECOGNIZE ( PARTITION BY k ORDER BY ts MEASURES FIRST(id) AS f, LAST(id) AS l, COUNT(*) AS n ONE ROW PER MATCH AFTER MATCH SKIP PAST LAST ROW PATTERN (A B+) DEFINE A AS v > 5, B AS v <= 5 )"
	case "tumbling":
		return "SELECT k, count(*) AS c FROM stream GROUP BY k, TumblingWindow('100ms')" + with
	case "sliding":
		return "SELECT k, count(*) AS c FROM stream GROUP BY k, SlidingWindow('200ms','100ms')" + with
	case "session":
		return "SELECT k, count(*) AS c FROM stream GROUP BY k, SessionWindow('100ms')" + with
	case "counting":
		if c.Where > 0 {
			return "SELECT k, count(*) AS c FROM stream WHERE " + whereOf(c) + " GROUP BY k, CountingWindow(3)"
		}
		return "SELECT k, count(*) AS c FROM stream GROUP BY k, CountingWindow(3)"
	default:
		return "SELECT k, count(*) AS c, max(v) AS m FROM stream GROUP BY k, GLOBAL WINDOW TRIGGER WHEN count(*) >= 4"
	}
}

// waitProgress polls cond; it gives up ("stalled") when the progress counter has not moved for idle, and reports
// "slow" when cond is still false after hardCap although progress continued.
func waitProgress(cond func() bool, progress func() int64, idle, hardCap time.Duration) string {
	start := time.Now()
	last, lastAt := progress(), time.Now()
	for {
		if cond() {
			return "ok"
		}
		if p := progress(); p != last {
			last, lastAt = p, time.Now()
		}
		if time.Since(lastAt) > idle {
			if cond() {
				return "ok"
			}
			return "stalled"
		}
		if time.Since(start) > hardCap {
			return "slow"
		}
		time.Sleep(200 * time.Microsecond)
	}
}

// guard runs f and records a panic escaping from an engine API call.
func guard(op string, escaped *atomic.Value, f func()) {
	defer func() {
		if r := recover(); r != nil {
			escaped.Store(fmt.Sprintf("%s: %v", op, r))
		}
	}()
	f()
}

// engineBlocked: some goroutine is parked (lock, channel, select, semaphore) with an engine function as its
// innermost non-runtime frame - a sink of ours that is merely sleeping or running does not count.
func engineBlocked(dump string) bool {
	for _, g := range strings.Split(dump, "\n\n") {
		lines := strings.Split(g, "\n")
		if len(lines) < 2 {
			continue
		}
		hdr := lines[0]
		if !strings.Contains(hdr, "[sync.") && !strings.Contains(hdr, "[chan ") && !strings.Contains(hdr, "[select") && !strings.Contains(hdr, "[semacquire") {
			continue
		}
		for _, l := range lines[1:] {
			if strings.HasPrefix(l, "\t") || l == "" {
				continue
			}
			if strings.HasPrefix(l, "runtime.") || strings.HasPrefix(l, "sync.") || strings.HasPrefix(l, "time.") || strings.HasPrefix(l, "internal/") {
				continue
			}
			if strings.HasPrefix(l, "github.com/rulego/streamsql") && !strings.Contains(l, "waitLifecycle") && !strings.Contains(l, "startSinkWorkerPool") && !strings.Contains(l, "updateLoop") {
				return true
			}
			break
		}
	}
	return false
}

func runCase(c Case) (res pbt.Result) {
	hook.Configure(c.HookSeed)
	defer func() {
		for site, n := range hook.Sites() {
			res.Count("hook:"+site, n)
		}
		hook.Configure(0)
	}()
	registerBoom()
	time.Sleep(0)
	base, _ := run.EngineGoroutines()
	opt := []streamsql.Option{streamsql.WithOverflowStrategy(c.Strategy, 0), streamsql.WithLogger(logger.NewDiscardLogger())}
	if c.Small != nil {
		pc := types.DefaultPerformanceConfig()
		pc.OverflowConfig.Strategy = c.Strategy
		pc.OverflowConfig.BlockTimeout = 0
		pc.OverflowConfig.AllowDataLoss = c.Strategy == "drop"
		pc.BufferConfig.DataChannelSize = c.Small.Data
		pc.BufferConfig.ResultChannelSize = c.Small.Result
		pc.BufferConfig.WindowOutputSize = c.Small.WinOut
		pc.WorkerConfig.SinkPoolSize = c.Small.SinkPool
		pc.WorkerConfig.SinkWorkerCount = c.Small.SinkWorkers
		if c.Strategy == "expand" {
			pc.OverflowConfig.ExpansionConfig.MinIncrement = 8
		}
		opt = []streamsql.Option{streamsql.WithCustomPerformance(pc), streamsql.WithLogger(logger.NewDiscardLogger())}
		res.Class("small-buffers")
		if c.Backlog {
			res.Class("planted-backlog")
		}
	}
	s := streamsql.New(opt...)
	if err := s.Execute(sqlOf(c)); err != nil {
		res.Add(pbt.D("execute-error", "%v for %s", err, sqlOf(c)))
		return
	}
	var sinkCalls int64
	var sentinelSeen int32
	var stopped int32
	var escaped atomic.Value
	var tsCounter int64
	mkRow := func(p, i int) map[string]any {
		r := map[string]any{"id": p*100000 + i, "v": (i*7 + p) % 11, "k": fmt.Sprintf("k%d", (i+p)%3)}
		if c.PanicRow && i%17 == 5 {
			r["v"] = 666
		}
		if c.EventTime || c.Kind == "cep" {
			r["ts"] = et.Base + atomic.AddInt64(&tsCounter, 1)*10
		}
		return r
	}
	var reentrantStops sync.WaitGroup
	mkSink := func(sp SinkSpec) func([]map[string]any) {
		var n int64
		return func(rows []map[string]any) {
			atomic.AddInt64(&sinkCalls, 1)
			for _, r := range rows {
				if id, ok := r["id"].(int); ok && id == 777777777 {
					atomic.StoreInt32(&sentinelSeen, 1)
				}
			}
			k := atomic.AddInt64(&n, 1)
			act := sp.Every <= 1 || k%int64(sp.Every) == 0
			switch sp.Kind {
			case "slow":
				time.Sleep(time.Duration(sp.DelayUs) * time.Microsecond)
			case "panic":
				if act {
					panic("c18: injected sink panic")
				}
			case "re-stats":
				if act {
					_ = s.GetStats()
					_ = s.GetDetailedStats()
				}
			case "re-emit":
				if act && k < 50 {
					s.Emit(map[string]any{"id": -100, "v": 1, "k": "re", "ts": et.Base})
				}
			case "re-addsink":
				if act && k < 20 {
					s.AddSink(func([]map[string]any) { atomic.AddInt64(&sinkCalls, 1) })
				}
			case "re-stop":
				if act && k == int64(sp.Every) {
					// Stop from inside a sink: must not deadlock; run it detached like a user would from a callback
					reentrantStops.Add(1)
					go func() { defer reentrantStops.Done(); s.Stop() }()
				}
			}
		}
	}
	for _, sp := range c.Sinks {
		if sp.Sync {
			s.AddSyncSink(mkSink(sp))
		} else {
			s.AddSink(mkSink(sp))
		}
	}
	var wg sync.WaitGroup
	quit := make(chan struct{})
	spawn := func(op string, f func()) {
		wg.Add(1)
		go func() {
			defer wg.Done()
			guard(op, &escaped, f)
		}()
	}
	var producersWG sync.WaitGroup
	for p := 0; p < c.Producers; p++ {
		p := p
		producersWG.Add(1)
		spawn("Emit", func() {
			defer producersWG.Done()
			for i := 0; i < c.RowsPer; i++ {
				s.Emit(mkRow(p, i))
				if c.PaceUs > 0 && i%16 == 15 {
					time.Sleep(time.Duration(c.PaceUs) * time.Microsecond)
				}
			}
		})
	}
	for q := 0; q < c.SyncCallers; q++ {
		q := q
		spawn("EmitSync", func() {
			for i := 0; i < c.RowsPer/2; i++ {
				select {
				case <-quit:
					return
				default:
				}
				_, _ = s.EmitSync(mkRow(10+q, i))
			}
		})
	}
	loop := func(op string, f func()) {
		spawn(op, func() {
			for {
				select {
				case <-quit:
					return
				default:
				}
				f()
				runtime.Gosched()
				time.Sleep(20 * time.Microsecond)
			}
		})
	}
	for a := 0; a < c.Adders; a++ {
		n := 0
		loop("AddSink", func() {
			if n < 30 {
				s.AddSink(func([]map[string]any) { atomic.AddInt64(&sinkCalls, 1) })
				n++
			}
		})
	}
	for r := 0; r < c.Readers; r++ {
		loop("GetStats", func() { _ = s.GetStats(); _ = s.GetDetailedStats() })
	}
	for r := 0; r < c.Triggerers; r++ {
		loop("TriggerWindow", func() { s.TriggerWindow() })
	}
	// sentinel before Stop (direct kinds, no early Stop): after the producers returned, a row must still get through
	sentinelOK := true
	stopDelay := time.Duration(c.StopAfterUs) * time.Microsecond
	hasReStop := false
	for _, sp := range c.Sinks {
		if sp.Kind == "re-stop" {
			hasReStop = true
		}
	}
	if c.Sentinel && !hasReStop && c.Strategy == "block" {
		pd := make(chan struct{})
		go func() { producersWG.Wait(); close(pd) }()
		// Both waits end on lack of progress, not on elapsed time: while sinks are still being called the backlog is
		// being worked off (re-entrant sinks, perturbation points and a loaded machine make that arbitrarily slow).
		progress := func() int64 { return atomic.LoadInt64(&sinkCalls) }
		returned := func() bool {
			select {
			case <-pd:
				return true
			default:
				return false
			}
		}
		switch waitProgress(returned, progress, pbt.Wait(30*time.Second), 4*time.Minute) {
		case "ok":
			guard("Emit", &escaped, func() { s.Emit(map[string]any{"id": 777777777, "v": 1, "k": "s"}) })
			switch waitProgress(func() bool { return atomic.LoadInt32(&sentinelSeen) == 1 }, progress, pbt.Wait(5*time.Second), 4*time.Minute) {
			case "ok":
			case "stalled":
				sentinelOK = false
			default:
				res.Class("no-verdict:slow")
			}
		case "stalled":
			res.Add(pbt.D("producers-stuck", "producers did not return and no sink was called for 30 s (strategy %s, kind %s)", c.Strategy, c.Kind))
		default:
			res.Class("no-verdict:slow")
		}
		res.Class("sentinel")
	} else {
		time.Sleep(stopDelay)
	}
	if !sentinelOK {
		res.Add(pbt.D("sentinel-lost", "kind %s: a row emitted after panicking sinks/rows was not delivered although no sink had been called for 5 s (block strategy, before Stop)", c.Kind))
	}
	// Stop callers
	inflight := producersInFlight(&producersWG)
	var stopDur [2]time.Duration
	var stopWG sync.WaitGroup
	for i := 0; i < c.Stops; i++ {
		i := i
		stopWG.Add(1)
		go func() {
			defer stopWG.Done()
			guard("Stop", &escaped, func() {
				t0 := time.Now()
				s.Stop()
				stopDur[i] = time.Since(t0)
			})
		}()
	}
	sd := make(chan struct{})
	go func() { stopWG.Wait(); close(sd) }()
	select {
	case <-sd:
	case <-time.After(stopWait()):
		_, dump := run.EngineGoroutines()
		if !engineBlocked(dump) {
			close(quit)
			return
		}
		res.Add(pbt.D("stop-hangs", "Stop did not return within its grace period (5 s) plus slack (kind %s, strategy %s); engine goroutines:\n%s", c.Kind, c.Strategy, firstLines(dump, 40)))
		close(quit)
		return
	}
	for i := 0; i < c.Stops; i++ {
		if stopDur[i] > 7*time.Second {
			res.Add(pbt.D("stop-slow", "Stop took %v (grace period 5 s)", stopDur[i]))
		}
	}
	// every API caller must return (EmitSync callers run sinks inline, so they must be done before the
	// "no sink after Stop" window is measured)
	close(quit)
	hd := make(chan struct{})
	go func() { wg.Wait(); reentrantStops.Wait(); close(hd) }()
	select {
	case <-hd:
	case <-time.After(pbt.Wait(20 * time.Second)):
		_, dump := run.EngineGoroutines()
		if engineBlocked(dump) {
			res.Add(pbt.D("deadlock", "API callers still blocked 20 s after Stop returned (kind %s, strategy %s, sinks %+v); engine goroutines:\n%s", c.Kind, c.Strategy, c.Sinks, firstLines(dump, 60)))
		}
		return
	}
	// bounded runs an engine call that must return promptly
	bounded := func(op string, f func()) bool {
		d := make(chan struct{})
		go func() { defer close(d); guard(op, &escaped, f) }()
		select {
		case <-d:
			return true
		case <-time.After(pbt.Wait(10 * time.Second)):
			_, dump := run.EngineGoroutines()
			if !engineBlocked(dump) {
				return false
			}
			res.Add(pbt.D("deadlock", "%s did not return within 10 s (kind %s, strategy %s, sinks %+v); engine goroutines:\n%s", op, c.Kind, c.Strategy, c.Sinks, firstLines(dump, 60)))
			return false
		}
	}
	atomic.StoreInt32(&stopped, 1)
	c0 := atomic.LoadInt64(&sinkCalls)
	if !bounded("Emit after Stop", func() { s.Emit(mkRow(99, 1)) }) {
		return
	}
	time.Sleep(30 * time.Millisecond)
	if n := atomic.LoadInt64(&sinkCalls) - c0; n > 0 {
		res.Add(pbt.D("sink-after-stop", "%d sink call(s) happened after Stop had returned and every API caller had finished (kind %s, strategy %s)", n, c.Kind, c.Strategy))
	}
	if c.Kind == "direct" || c.Kind == "analytic" {
		if !bounded("EmitSync after Stop", func() { _, _ = s.EmitSync(mkRow(99, 2)) }) {
			return
		}
	}
	t0 := time.Now()
	if !bounded("second Stop", func() { s.Stop() }) {
		return
	}
	if d := time.Since(t0); d > 2*time.Second {
		res.Add(pbt.D("second-stop-slow", "second Stop took %v", d))
	}
	if v := escaped.Load(); v != nil {
		res.Add(pbt.D("panic-escaped", "a panic escaped from the engine API: %v", v))
	}
	// goroutine census
	deadline := time.Now().Add(pbt.Wait(3 * time.Second))
	var n int
	var dump string
	for {
		n, dump = run.EngineGoroutines()
		if n <= base || time.Now().After(deadline) {
			break
		}
		time.Sleep(2 * time.Millisecond)
	}
	if n > base {
		res.Add(pbt.D("goroutine-leak", "%d engine goroutine(s) still running 3 s after Stop (kind %s):\n%s", n-base, c.Kind, firstLines(dump, 40)))
	}
	res.Class("kind:" + c.Kind)
	res.Class("strategy:" + c.Strategy)
	for _, sp := range c.Sinks {
		res.Class("sink:" + sp.Kind)
	}
	if inflight {
		res.Class("stop-overlaps-emit")
	}
	res.NonTrivial = inflight && atomic.LoadInt64(&sinkCalls) > 0
	return
}

// stopWait: Stop may legitimately take its 5 s grace period when a sink is blocked; never wait less than that.
func stopWait() time.Duration {
	d := pbt.Wait(20 * time.Second)
	if d < 9*time.Second {
		d = 9 * time.Second
	}
	return d
}

func producersInFlight(wg *sync.WaitGroup) bool {
	d := make(chan struct{})
	go func() { wg.Wait(); close(d) }()
	select {
	case <-d:
		return false
	case <-time.After(50 * time.Microsecond):
		return true
	}
}

func firstLines(s string, n int) string {
	l := strings.Split(s, "\n")
	if len(l) > n {
		l = l[:n]
	}
	return strings.Join(l, "\n")
}

func features(c Case) []string {
	var f []string
	for _, sp := range c.Sinks {
		if sp.Kind == "re-addsink" && sp.Sync {
			f = append(f, "sync-sink-addsink")
		}
	}
	if c.PanicRow && c.SyncCallers > 0 {
		f = append(f, "panic-row-emitsync")
	}
	return f
}

var spec = pbt.Spec[Case]{
	ID:          "C18",
	Rule:        "generated: query kind in {direct, analytic, CEP, tumbling/sliding/session in event and processing time, counting, global} x strategy {drop, block, expand} x buffer sizes {defaults, or a custom configuration with input buffer 4-1000, result buffer 2-100, window output buffer 2-16, sink pool 1-4 x 1-2 workers}; 1-4 producers, 0-2 EmitSync callers, AddSink adders, GetStats readers, TriggerWindow callers, 1-2 Stop callers at a drawn offset; sinks plain / slow / panicking every k-th call / re-entrant (GetStats, Emit, AddSink, Stop), sync or async; rows that make a registered custom function panic; built with -race (GORACE=halt_on_error). oracle: no panic escapes an API call, no data race, Stop returns (within grace + slack), afterwards the sink-call counter stays constant, Emit/EmitSync after Stop do not panic, a second Stop returns at once, every API caller returns, the census of goroutines with engine frames returns to its pre-New value, and with the block strategy a sentinel row emitted after panicking sinks/rows is still delivered. non-trivial = Stop overlapped an in-flight producer and at least one sink call happened; distinct by case hash",
	Assumptions: []string{"a wait that expires without engine frames in the goroutine dump is inconclusive, not a violation", "re-entrant Emit only under non-blocking strategies; re-entrant Stop is issued from a goroutine started by the sink"},
	Gen:         genCase,
	Run:         runCase,
	Features:    features,
	WAL:         true,
}

func TestProp(t *testing.T)    { pbt.RunProp(t, spec) }
func TestReplay(t *testing.T)  { pbt.RunReplay(t, spec) }
func TestWitness(t *testing.T) { pbt.RunWitnesses(t, spec) }

// hookSeed: two cases in three run with schedule perturbation at the engine's verif-tagged points.
func hookSeed(t *rapid.T) uint64 {
	if rapid.IntRange(0, 2).Draw(t, "hookon") == 0 {
		return 0
	}
	return uint64(rapid.IntRange(1, 1<<30).Draw(t, "hookseed"))
}
