package c19

import (
	"fmt"
	"runtime"
	"sync"
	"sync/atomic"
	"testing"
	"time"
	"verifharness/internal/hook"

	"github.com/rulego/streamsql"
	"github.com/rulego/streamsql/logger"
	"github.com/rulego/streamsql/types"
	"pgregory.net/rapid"
	"verifharness/internal/gen"
	"verifharness/internal/pbt"
	_ "verifharness/internal/run"
)

type Case struct {
	Strategy     string  `json:"strategy"`
	Producers    int     `json:"producers"`
	PerProducer  int     `json:"per_producer"`
	Buffer       int     `json:"buffer"`
	Growth       float64 `json:"growth"`
	MinInc       int     `json:"min_inc"`
	Ceiling      int     `json:"ceiling"`
	Threshold    float64 `json:"threshold"`
	BlockTimeout int     `json:"block_timeout_us"` // 0 = block forever
	SinkDelayUs  int     `json:"sink_delay_us"`
	Yield        []int   `json:"yield"`               // per producer: 0 none, 1 Gosched every row, 2 short sleep every 64 rows
	HookSeed     uint64  `json:"hook_seed,omitempty"` // seed of the engine's build-tag-guarded perturbation points (0 = off)
	Storm        bool    `json:"storm,omitempty"`     // planted: hundreds of one-slot expansions under several producers
}

func genCase(t *rapid.T) Case {
	c := Case{Strategy: rapid.SampledFrom([]string{"drop", "block", "expand", "expand"}).Draw(t, "strategy")}
	c.Producers = rapid.IntRange(1, 8).Draw(t, "producers")
	c.PerProducer = rapid.SampledFrom([]int{50, 200, 500, 1000, 2000}).Draw(t, "per")
	c.Buffer = rapid.SampledFrom([]int{1, 2, 3, 8, 16, 64}).Draw(t, "buffer")
	c.Growth = rapid.SampledFrom([]float64{1.1, 1.5, 2, 3}).Draw(t, "growth")
	c.MinInc = rapid.SampledFrom([]int{1, 2, 4, 16}).Draw(t, "mininc")
	c.Ceiling = rapid.SampledFrom([]int{2, 4, 16, 64, 256}).Draw(t, "ceiling")
	if c.Ceiling < c.Buffer {
		c.Ceiling = c.Buffer
	}
	c.Threshold = rapid.SampledFrom([]float64{0.1, 0.5, 0.9, 1}).Draw(t, "threshold")
	if c.Strategy == "block" && rapid.IntRange(0, 2).Draw(t, "bt") == 0 {
		c.BlockTimeout = rapid.SampledFrom([]int{50, 500, 5000}).Draw(t, "btus")
	}
	c.SinkDelayUs = rapid.SampledFrom([]int{0, 0, 5, 50, 200}).Draw(t, "delay")
	if c.Strategy == "block" && c.BlockTimeout == 0 && c.SinkDelayUs > 50 {
		c.SinkDelayUs = 50 // keep fully blocking runs short
	}
	for i := 0; i < c.Producers; i++ {
		c.Yield = append(c.Yield, rapid.IntRange(0, 2).Draw(t, "yield"))
	}
	c.HookSeed = hookSeed(t)
	// planted expansion storm: a tiny buffer that grows one slot at a time up to a high ceiling (hundreds of
	// migrations per run), several unpaced producers, a consumer that keeps up, schedule perturbation on
	if rapid.IntRange(0, 3).Draw(t, "storm") == 0 {
		c.Strategy = "expand"
		c.Storm = true
		c.Producers = rapid.IntRange(2, 8).Draw(t, "stormproducers")
		c.PerProducer = rapid.SampledFrom([]int{1000, 2000}).Draw(t, "stormper")
		c.Buffer = rapid.SampledFrom([]int{2, 3, 8}).Draw(t, "stormbuffer")
		c.Growth, c.MinInc = 1.1, rapid.SampledFrom([]int{1, 1, 2}).Draw(t, "storminc")
		c.Ceiling = rapid.SampledFrom([]int{256, 1024}).Draw(t, "stormceiling")
		c.Threshold = rapid.SampledFrom([]float64{0.5, 0.9, 1}).Draw(t, "stormthreshold")
		c.SinkDelayUs = rapid.SampledFrom([]int{0, 5}).Draw(t, "stormdelay")
		c.Yield = nil
		for i := 0; i < c.Producers; i++ {
			c.Yield = append(c.Yield, rapid.IntRange(0, 1).Draw(t, "stormyield"))
		}
		// second profile: few paced producers and a larger buffer that expands when half full, so that every
		// migration moves many rows while the consumer sits between two receives
		if rapid.Bool().Draw(t, "stormpaced") {
			c.Producers = rapid.IntRange(1, 3).Draw(t, "pacedproducers")
			c.Buffer = rapid.SampledFrom([]int{16, 64}).Draw(t, "pacedbuffer")
			c.Threshold = rapid.SampledFrom([]float64{0.1, 0.5}).Draw(t, "pacedthreshold")
			c.Ceiling = 1024
			c.SinkDelayUs = 0
			c.Yield = nil
			for i := 0; i < c.Producers; i++ {
				c.Yield = append(c.Yield, rapid.IntRange(1, 2).Draw(t, "pacedyield"))
			}
		}
		if c.HookSeed == 0 {
			c.HookSeed = uint64(rapid.IntRange(1, 1<<30).Draw(t, "stormhookseed"))
		}
	}
	return c
}

func runCase(c Case) (res pbt.Result) {
	hook.Configure(c.HookSeed)
	defer func() {
		for site, n := range hook.Sites() {
			res.Count("hook:"+site, n)
		}
		hook.Configure(0)
	}()
	pc := types.DefaultPerformanceConfig()
	pc.BufferConfig.DataChannelSize = c.Buffer
	pc.BufferConfig.MaxBufferSize = c.Ceiling
	pc.BufferConfig.ResultChannelSize = 16
	pc.OverflowConfig.Strategy = c.Strategy
	pc.OverflowConfig.BlockTimeout = time.Duration(c.BlockTimeout) * time.Microsecond
	pc.OverflowConfig.AllowDataLoss = c.Strategy != "block"
	pc.OverflowConfig.ExpansionConfig = types.ExpansionConfig{GrowthFactor: c.Growth, MinIncrement: c.MinInc, TriggerThreshold: c.Threshold, ExpansionTimeout: 5 * time.Second}
	s := streamsql.New(streamsql.WithCustomPerformance(pc), streamsql.WithLogger(logger.NewDiscardLogger()))
	if err := s.Execute("SELECT p, i FROM stream"); err != nil {
		res.Add(pbt.D("execute-error", "%v", err))
		return
	}
	type pi struct{ p, i int }
	var mu sync.Mutex
	var processed []pi
	var nproc int64
	delay := time.Duration(c.SinkDelayUs) * time.Microsecond
	s.AddSyncSink(func(rows []map[string]any) {
		for _, r := range rows {
			p, _ := gen.ToFloat(r["p"])
			i, _ := gen.ToFloat(r["i"])
			mu.Lock()
			processed = append(processed, pi{int(p), int(i)})
			mu.Unlock()
			atomic.AddInt64(&nproc, 1)
		}
		if delay > 0 {
			t0 := time.Now()
			for time.Since(t0) < delay {
				runtime.Gosched()
			}
		}
	})
	// drain the result channel so it never matters
	stopDrain := make(chan struct{})
	go func() {
		ch := s.ToChannel()
		for {
			select {
			case <-ch:
			case <-stopDrain:
				return
			}
		}
	}()
	var maxCap int64
	stopPoll := make(chan struct{})
	var pollWG sync.WaitGroup
	pollWG.Add(1)
	go func() {
		defer pollWG.Done()
		for {
			select {
			case <-stopPoll:
				return
			default:
			}
			if cp := s.GetStats()["data_chan_cap"]; cp > atomic.LoadInt64(&maxCap) {
				atomic.StoreInt64(&maxCap, cp)
			}
			time.Sleep(100 * time.Microsecond)
		}
	}()
	var wg sync.WaitGroup
	total := c.Producers * c.PerProducer
	for p := 0; p < c.Producers; p++ {
		wg.Add(1)
		go func(p int) {
			defer wg.Done()
			for i := 0; i < c.PerProducer; i++ {
				s.Emit(map[string]any{"p": p, "i": i})
				switch c.Yield[p] {
				case 1:
					runtime.Gosched()
				case 2:
					if i%64 == 63 {
						time.Sleep(50 * time.Microsecond)
					}
				}
			}
		}(p)
	}
	done := make(chan struct{})
	go func() { wg.Wait(); close(done) }()
	select {
	case <-done:
	case <-time.After(pbt.Wait(60 * time.Second)):
		res.Add(pbt.D("producers-stuck", "producers did not return within 60 s (strategy %s)", c.Strategy))
		close(stopPoll)
		close(stopDrain)
		return
	}
	// quiescence: counters add up, or stay unchanged with an empty buffer for a while
	deadline := time.Now().Add(pbt.Wait(8 * time.Second))
	var st map[string]int64
	stable := 0
	var last int64 = -1
	for {
		st = s.GetStats()
		n := atomic.LoadInt64(&nproc)
		if n+st["input_dropped_count"] == int64(total) {
			break
		}
		if st["data_chan_len"] == 0 && n == last {
			stable++
		} else {
			stable = 0
		}
		last = n
		if stable > 300 || time.Now().After(deadline) {
			break
		}
		time.Sleep(time.Millisecond)
	}
	close(stopPoll)
	pollWG.Wait()
	st = s.GetStats()
	if cp := st["data_chan_cap"]; cp > maxCap {
		maxCap = cp
	}
	s.Stop()
	close(stopDrain)
	mu.Lock()
	defer mu.Unlock()
	dropped := st["input_dropped_count"]
	seen := map[pi]bool{}
	lastI := map[int]int{}
	for _, x := range processed {
		if seen[x] {
			res.Add(pbt.D("processed-twice", "row (producer %d, #%d) was processed twice", x.p, x.i))
		}
		seen[x] = true
		if c.Producers == 1 {
			if li, ok := lastI[x.p]; ok && x.i < li {
				res.Add(pbt.D("order", "single producer: row #%d processed after row #%d", x.i, li))
			}
			lastI[x.p] = x.i
		}
		if x.i < 0 || x.i >= c.PerProducer || x.p < 0 || x.p >= c.Producers {
			res.Add(pbt.D("invented-row", "row (producer %d, #%d) was never emitted", x.p, x.i))
		}
	}
	if int64(len(processed))+dropped != int64(total) {
		res.Add(pbt.D("conservation", "strategy %s: %d Emit calls, %d rows processed + input_dropped_count %d = %d (input_count %d)", c.Strategy, total, len(processed), dropped, int64(len(processed))+dropped, st["input_count"]))
	}
	if c.Strategy == "block" && c.BlockTimeout == 0 && dropped != 0 {
		res.Add(pbt.D("block-dropped", "block strategy without timeout dropped %d rows", dropped))
	}
	if maxCap > int64(c.Ceiling) {
		res.Add(pbt.D("over-ceiling", "data_chan_cap reached %d, configured maximum %d", maxCap, c.Ceiling))
	}
	expanded := maxCap > int64(c.Buffer)
	res.Class("strategy:" + c.Strategy)
	if c.Storm {
		res.Class("expansion-storm")
	}
	if expanded {
		res.Class("expanded")
	}
	if dropped > 0 {
		res.Class("dropped")
	}
	if c.Buffer == 1 {
		res.Class("buffer=1")
	}
	res.Count("rows_emitted", int64(total))
	res.Count("rows_dropped", dropped)
	res.NonTrivial = (expanded || dropped > 0) && c.Producers >= 2
	return
}

var spec = pbt.Spec[Case]{
	ID:          "C19",
	Rule:        "generated: `SELECT p, i FROM stream` with 1-8 concurrent producers x 50-2000 rows, strategy drop/block/expand, buffer 1-64, growth factor 1.1-3, min increment 1-16, ceiling 2-256, trigger threshold 0.1-1, block timeout none or 50 us-5 ms, sink delay 0-200 us, producer yields; built with -race. oracle after quiescence: processed (p,i) pairwise distinct and all emitted; |processed| + input_dropped_count == number of Emit calls; block without timeout drops nothing; data_chan_cap (polled concurrently and at the end) never above the ceiling; with one producer processed order == emission order. non-trivial = an expansion happened or a row was dropped, with >= 2 producers; distinct by case hash",
	Assumptions: []string{"quiescence = all producers returned and counters add up, or counters unchanged with an empty buffer for 300 ms", "a data race reported by the race detector kills the process and is reported as a violation by the driver"},
	Gen:         genCase,
	Run:         runCase,
	WAL:         true,
}

func TestProp(t *testing.T)    { pbt.RunProp(t, spec) }
func TestReplay(t *testing.T)  { pbt.RunReplay(t, spec) }
func TestWitness(t *testing.T) { pbt.RunWitnesses(t, spec) }

var _ = fmt.Sprint

// hookSeed: two cases in three run with schedule perturbation at the engine's verif-tagged points.
func hookSeed(t *rapid.T) uint64 {
	if rapid.IntRange(0, 2).Draw(t, "hookon") == 0 {
		return 0
	}
	return uint64(rapid.IntRange(1, 1<<30).Draw(t, "hookseed"))
}
