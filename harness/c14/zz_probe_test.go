package c14

import (
	"fmt"
	"testing"

	"verifharness/internal/run"
)

func probe(t *testing.T, sql string, rows []map[string]any) {
	in, err := run.Open(sql)
	if err != nil {
		fmt.Printf("SQL %s\n  EXEC ERROR %v\n", sql, err)
		return
	}
	defer in.Stop()
	fmt.Printf("SQL %s\n", sql)
	for _, r := range rows {
		cp := map[string]any{}
		for k, v := range r {
			cp[k] = v
		}
		out, err := in.S.EmitSync(cp)
		fmt.Printf("  in=%v -> out=%#v err=%v\n", r, out, err)
	}
}

func TestProbe(t *testing.T) {
	rows := []map[string]any{
		{"id": 0, "k": "a", "v": 1, "w": 1, "s": "x"},
		{"id": 1, "k": "b", "v": 10, "w": 1, "s": "y"},
		{"id": 2, "k": "a", "v": nil, "w": 0, "s": nil},
		{"id": 3, "k": "a", "v": 2, "w": -1, "s": "x"},
		{"id": 4, "k": "b", "v": 2.5, "w": nil, "s": ""},
		{"id": 5, "k": "a", "v": 3, "w": 1, "s": "x"},
		{"id": 6, "k": "a", "v": 3, "w": 1, "s": "z"},
	}
	for _, q := range []string{
		`SELECT id, changed_cols("c_", true, v, w) OVER (PARTITION BY k) FROM stream`,
		`SELECT id, changed_cols("c_", false, v, w) OVER (PARTITION BY k WHEN v > 1) FROM stream`,
		"SELECT id, lag(s) OVER (PARTITION BY k) AS r, acc_count(s) OVER (PARTITION BY k) AS c, acc_sum(s) OVER (PARTITION BY k) AS t FROM stream",
		"SELECT id, coalesce(lag(v), -1) OVER (PARTITION BY k) AS r FROM stream",
		"SELECT id, CASE WHEN lag(v) > 2 THEN 'up' ELSE 'down' END OVER (PARTITION BY k) AS r FROM stream",
		"SELECT id, CASE WHEN lag(v) OVER (PARTITION BY k) > 2 THEN 'up' ELSE 'down' END AS r FROM stream",
		"SELECT id, lag(v, 1, w, true) OVER (PARTITION BY k) AS r FROM stream",
		"SELECT id, v - lag(v, 1, v, true) OVER (PARTITION BY k) AS r FROM stream",
		"SELECT id, lag(v) OVER (PARTITION BY k) AS r, acc_sum(v) OVER (PARTITION BY w) AS q FROM stream",
		"SELECT id, lag(v) OVER (WHEN v > -2) AS r FROM stream WHERE v > -3",
		"SELECT id, acc_max(v)/10 - acc_min(v)*10 + acc_sum(v) OVER (PARTITION BY k) AS r FROM stream",
		"SELECT id FROM stream WHERE had_changed(true, v) OVER (PARTITION BY k) = true",
		"SELECT id FROM stream WHERE had_changed(true, v) OVER (PARTITION BY k) == false",
		"SELECT id FROM stream WHERE changed_col(true, v) OVER (PARTITION BY k)",
		"SELECT id FROM stream WHERE changed_col(true, v) OVER (PARTITION BY k) > 2",
		"SELECT id FROM stream WHERE v > 1 AND lag(v) OVER (PARTITION BY k) <= 1",
		"SELECT id FROM stream WHERE acc_count(v) OVER (PARTITION BY k) > 1",
		"SELECT id FROM stream WHERE latest(v) OVER (PARTITION BY k WHEN w > 0) >= 3",
		"SELECT id, had_changed(true, v, w) OVER (PARTITION BY k) AS r FROM stream",
		"SELECT id, lag(v) OVER (PARTITION BY k, w) AS r FROM stream",
		"SELECT id, acc_sum(v, w > 0) OVER (PARTITION BY k) AS r FROM stream",
		"SELECT id, acc_sum(v, w > 0, w < 0) OVER (PARTITION BY k) AS r FROM stream",
	} {
		probe(t, q, rows)
	}
}
