package c14

import (
	"verifharness/internal/gen"
)

// Reference state machines, written from the function comments in /repo/functions
// (functions_analytical.go, analytic_acc.go) and the OVER comment in /repo/types/analytic.go:
//
//   lag(v[,k[,default[,ignoreNull]]])  value k accepted rows back, else default, else NULL; a NULL value is
//                                      not stored unless ignoreNull=false (default true)
//   latest(v[,default])                newest non-NULL value, else default, else NULL
//   had_changed(ignoreNull, cols...)   first row true; later true iff a column differs from its baseline;
//                                      with ignoreNull a NULL neither counts as change nor moves the baseline
//   changed_col(ignoreNull, v)         new value when it differs from the previous one (first row differs),
//                                      else NULL; with ignoreNull a NULL is skipped entirely
//   changed_cols(prefix, ignoreNull, cols...)  {prefix+col: new value} for the columns that changed
//   acc_*(v[,start[,reset]])           cumulative over numeric values (acc_count: non-NULL values); with start:
//                                      accumulate once start has held; reset zeroes and stops until start again
//   OVER (PARTITION BY ... WHEN c)     one state per partition; when c is false the state is untouched and
//                                      the field repeats its last result (NULL if there is none)
//
// Values: nil = NULL, float64 = any number, string, bool.

type unknownT struct{} // "the documents do not pin this down": not compared

func isUnknown(v any) bool { _, ok := v.(unknownT); return ok }

// cell reads a data column. quirk=false: a missing column is NULL. quirk=true reproduces the
// engine's observed treatment of a missing argument column (the column *name* as a string) and is
// used only to attribute a discrepancy to that known shape, never to accept it.
func cell(r gen.Row, col string, quirk bool) any {
	v, ok := r[col]
	if !ok || v.IsMissing() {
		if quirk {
			return col
		}
		return nil
	}
	if v.IsNull() {
		return nil
	}
	if f, ok := v.Num(); ok {
		return f
	}
	if v.K == "str" {
		return v.S
	}
	if v.K == "bool" {
		return v.B
	}
	return nil
}

func condHolds(c *Cond, r gen.Row) bool {
	f, ok := cell(r, c.Col, false).(float64)
	if !ok {
		return false // NULL / missing never satisfies a comparison
	}
	return cmpNum(f, c.Op, float64(c.N))
}

func cmpNum(a float64, op string, b float64) bool {
	switch op {
	case ">":
		return a > b
	case ">=":
		return a >= b
	case "<":
		return a < b
	case "<=":
		return a <= b
	}
	return false
}

func valEq(a, b any) bool {
	if a == nil || b == nil {
		return a == nil && b == nil
	}
	if fa, ok := a.(float64); ok {
		fb, ok2 := b.(float64)
		return ok2 && fa == fb
	}
	return a == b
}

type machine struct {
	call Call
	// lag
	hist []any
	// latest
	latest    any
	hasLatest bool
	// had_changed
	prev  []any
	first bool
	// changed_col
	cprev any
	chas  bool
	// acc
	sum     float64
	cnt     int64
	ext     float64
	hasExt  bool
	started bool
	tainted bool
}

func (m *machine) accResult() any {
	switch m.call.Fn {
	case "acc_sum":
		return m.sum
	case "acc_count":
		return float64(m.cnt)
	case "acc_avg":
		if m.cnt == 0 {
			return nil
		}
		return m.sum / float64(m.cnt)
	default:
		if !m.hasExt {
			return nil
		}
		return m.ext
	}
}

func (m *machine) apply(r gen.Row, quirk bool) any {
	c := m.call
	v := cell(r, c.Col, quirk)
	switch c.Fn {
	case "lag":
		off := c.offset()
		ign := c.Ign != 2
		var res any
		if len(m.hist) >= off {
			res = m.hist[len(m.hist)-off]
		} else if c.DefKind == 1 {
			res = float64(c.DefN)
		} else if c.DefKind == 2 {
			res = cell(r, c.DefCol, quirk)
		}
		if !(ign && v == nil) {
			m.hist = append(m.hist, v)
			if len(m.hist) > off {
				m.hist = m.hist[len(m.hist)-off:]
			}
		}
		return res
	case "latest":
		if v != nil {
			m.latest, m.hasLatest = v, true
		}
		if m.hasLatest {
			return m.latest
		}
		if c.DefKind == 1 {
			return float64(c.DefN)
		}
		return nil
	case "had_changed":
		vals := []any{v}
		if c.Col2 != "" {
			vals = append(vals, cell(r, c.Col2, quirk))
		}
		if !m.first {
			m.first = true
			m.prev = vals
			return true
		}
		ign := c.Ign == 1
		changed := false
		next := make([]any, len(vals))
		for i, x := range vals {
			if ign && x == nil {
				next[i] = m.prev[i]
				continue
			}
			next[i] = x
			if !valEq(m.prev[i], x) {
				changed = true
			}
		}
		m.prev = next
		return changed
	case "changed_col":
		if c.Ign == 1 && v == nil {
			return nil
		}
		var res any
		if !m.chas || !valEq(m.cprev, v) {
			res = v
		}
		m.cprev, m.chas = v, true
		return res
	}
	// acc_*
	st := c.Start != nil && condHolds(c.Start, r)
	rs := c.Reset != nil && condHolds(c.Reset, r)
	if st && rs {
		// "reset zeroes and stops until start again" does not say which wins on the same row
		m.tainted = true
	}
	if rs {
		m.sum, m.cnt, m.ext, m.hasExt, m.started = 0, 0, 0, false, false
		return m.accResult()
	}
	if c.Start != nil {
		if !st && !m.started {
			return m.accResult()
		}
		m.started = true
	}
	if f, ok := v.(float64); ok {
		m.cnt++
		m.sum += f
		switch c.Fn {
		case "acc_max":
			if !m.hasExt || f > m.ext {
				m.ext = f
			}
		case "acc_min":
			if !m.hasExt || f < m.ext {
				m.ext = f
			}
		}
		m.hasExt = true
	} else if c.Fn == "acc_count" && v != nil {
		m.cnt++
	}
	return m.accResult()
}

// fieldState is the per-partition state of one SELECT item (or of the WHERE call).
type fieldState struct {
	ms      []*machine
	colPrev map[string]any // changed_cols baseline
	last    any            // last result (value, or map for cols)
	hasLast bool
	tainted bool
}

type fieldModel struct {
	kind  string
	calls []Call
	col   string
	n     int
	part  []string
	when  *Cond
	ign   bool
	cols  []string
	idx   int
	parts map[string]*fieldState
}

func newFieldModel(f Field, idx int) *fieldModel {
	return &fieldModel{kind: f.Kind, calls: f.Calls, col: f.Col, n: f.N, part: f.Part, when: f.When, ign: f.Ign,
		cols: f.Cols, idx: idx, parts: map[string]*fieldState{}}
}

func newWhereModel(w *Where) *fieldModel {
	return &fieldModel{kind: "plain", calls: []Call{*w.Call}, part: w.Part, when: w.When, parts: map[string]*fieldState{}}
}

func num2(a, b any) (float64, float64, bool) {
	fa, ok1 := a.(float64)
	fb, ok2 := b.(float64)
	return fa, fb, ok1 && ok2
}

// eval returns the field's result for the row: a value, or map[string]any for changed_cols.
func (fm *fieldModel) eval(r gen.Row, quirk bool) any {
	key := tupleKey(fm.part, r)
	st := fm.parts[key]
	if st == nil {
		st = &fieldState{colPrev: map[string]any{}}
		for _, c := range fm.calls {
			st.ms = append(st.ms, &machine{call: c})
		}
		fm.parts[key] = st
	}
	if fm.when != nil && !condHolds(fm.when, r) {
		if st.tainted {
			return unknownT{}
		}
		if st.hasLast {
			return st.last
		}
		if fm.kind == "cols" {
			return map[string]any{}
		}
		return nil
	}
	var res any
	if fm.kind == "cols" {
		out := map[string]any{}
		for _, col := range fm.cols {
			v := cell(r, col, quirk)
			if fm.ign && v == nil {
				continue
			}
			p, had := st.colPrev[col]
			if !had || !valEq(p, v) {
				out[colsPrefix(fm.idx)+col] = v
			}
			st.colPrev[col] = v
		}
		res = out
	} else {
		rs := make([]any, len(st.ms))
		for i, m := range st.ms {
			rs[i] = m.apply(r, quirk)
			if m.tainted {
				st.tainted = true
			}
		}
		switch fm.kind {
		case "plain":
			res = rs[0]
		case "col-minus":
			if a, b, ok := num2(cell(r, fm.col, false), rs[0]); ok {
				res = a - b
			}
		case "const-minus":
			if x, ok := rs[0].(float64); ok {
				res = 100 - x
			}
		case "coalesce":
			res = rs[0]
			if res == nil {
				res = float64(-1)
			}
		case "case":
			res = "down"
			if x, ok := rs[0].(float64); ok && x > float64(fm.n) {
				res = "up"
			} else if !ok && rs[0] != nil {
				res = unknownT{} // non-numeric operand: not documented
			}
		case "maxmin":
			if a, b, ok := num2(rs[0], rs[1]); ok {
				res = a - b
			}
		case "prod":
			if a, b, ok := num2(rs[0], rs[1]); ok {
				res = a * b
			}
		case "sum3", "mix":
			a, b, ok := num2(rs[0], rs[1])
			c, ok2 := rs[2].(float64)
			if ok && ok2 {
				if fm.kind == "sum3" {
					res = a + b + c
				} else {
					res = a/10 - b*10 + c
				}
			}
		}
	}
	st.last, st.hasLast = res, true
	if st.tainted {
		return unknownT{}
	}
	return res
}

// whereHolds decides the WHERE from the row and the value of its analytic call.
func whereHolds(w *Where, r gen.Row, wa any) bool {
	switch w.Kind {
	case "plain":
		return condHolds(w.Cond, r)
	case "cmp":
		f, ok := wa.(float64)
		return ok && cmpNum(f, w.Op, float64(w.N))
	case "bare":
		if w.Call.Fn == "had_changed" {
			b, _ := wa.(bool)
			return b
		}
		return wa != nil // value-returning call as the whole condition: documented as "changed"
	case "eqbool":
		b, ok := wa.(bool)
		return ok && b == w.Lit
	case "and":
		f, ok := wa.(float64)
		return condHolds(w.Cond, r) && ok && cmpNum(f, w.Op, float64(w.N))
	}
	return false
}

// expectation for one input row
type expRow struct {
	counted bool           // the row is seen by the SELECT analytic fields
	pass    bool           // the row is output
	passUnk bool           // pass could not be decided from the documents
	vals    map[string]any // output column -> value (absent = NULL); unknownT = not compared
}

// model computes the expected outputs. For an analytic-free WHERE the rows that count are given by
// passed (the engine's own decision: evaluating plain predicates is not this property's subject).
func model(c Case, passed func(id int) bool, quirk bool) []expRow {
	fms := make([]*fieldModel, len(c.Fields))
	for i, f := range c.Fields {
		fms[i] = newFieldModel(f, i)
	}
	var wm *fieldModel
	if c.Where != nil && c.Where.analytic() {
		wm = newWhereModel(c.Where)
	}
	out := make([]expRow, len(c.Rows))
	for i, r := range c.Rows {
		e := expRow{counted: true, pass: true}
		switch {
		case c.Where == nil:
		case !c.Where.analytic():
			e.pass = passed(int(r["id"].I))
			e.counted = e.pass
		default:
			wa := wm.eval(r, quirk)
			if isUnknown(wa) {
				e.passUnk = true
			} else {
				e.pass = whereHolds(c.Where, r, wa)
			}
		}
		if e.counted {
			e.vals = map[string]any{}
			for fi, fm := range fms {
				v := fm.eval(r, quirk)
				if m, ok := v.(map[string]any); ok {
					for k, x := range m {
						e.vals[k] = x
					}
					continue
				}
				if fm.kind == "cols" {
					// unknown result of a multi-column item: mark all its columns
					for _, col := range fm.cols {
						e.vals[colsPrefix(fi)+col] = v
					}
					continue
				}
				e.vals[alias(fi)] = v
			}
		}
		out[i] = e
	}
	return out
}
