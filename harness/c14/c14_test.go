package c14

import (
	"fmt"
	"reflect"
	"runtime"
	"sort"
	"strings"
	"testing"
	"time"

	"github.com/rulego/streamsql"
	"pgregory.net/rapid"
	"verifharness/internal/gen"
	"verifharness/internal/pbt"
	"verifharness/internal/run"
)

const sentinelKey = "⁣zz⁣"

// ---- driving the engine -----------------------------------------------------------------------

func options(c Case) []streamsql.Option {
	opts := run.DefaultOpts()
	if c.Cap > 0 {
		opts = append(opts, streamsql.WithAnalyticMaxPartitions(c.Cap))
	}
	return opts
}

// emitSync feeds fresh copies of the rows through EmitSync and returns the non-nil results in order.
func emitSync(in *run.Inst, rows []map[string]any) (out []map[string]any, problem string) {
	for _, r := range rows {
		var o map[string]any
		var err error
		func() {
			defer func() {
				if p := recover(); p != nil {
					err = fmt.Errorf("PANIC: %v", p)
				}
			}()
			o, err = in.S.EmitSync(copyRow(r))
		}()
		if err != nil {
			return out, fmt.Sprintf("EmitSync(%v): %v", r, err)
		}
		if o != nil {
			out = append(out, run.DeepCopy(o).(map[string]any))
		}
	}
	return out, ""
}

func copyRow(r map[string]any) map[string]any {
	cp := make(map[string]any, len(r))
	for k, v := range r {
		cp[k] = v
	}
	return cp
}

func goRows(rows []gen.Row) []map[string]any {
	out := make([]map[string]any, len(rows))
	for i, r := range rows {
		out[i] = r.Go()
	}
	return out
}

func idOf(row map[string]any) int {
	f, ok := gen.ToFloat(row["id"])
	if !ok {
		return -1 << 30
	}
	return int(f)
}

// same compares two engine values (absent column == NULL, numbers by value).
func same(a, b any) bool {
	if a == nil || b == nil {
		return a == nil && b == nil
	}
	fa, ok1 := gen.ToFloat(a)
	fb, ok2 := gen.ToFloat(b)
	if ok1 || ok2 {
		return ok1 && ok2 && gen.Close(fa, fb, 1e-9)
	}
	return reflect.DeepEqual(a, b)
}

// sameRef compares an engine value with a reference value.
func sameRef(got, want any) bool {
	if isUnknown(want) {
		return true
	}
	if want == nil {
		return got == nil
	}
	if w, ok := want.(float64); ok {
		g, ok2 := gen.ToFloat(got)
		return ok2 && gen.Close(g, w, 1e-9)
	}
	return reflect.DeepEqual(got, want)
}

func keysOf(ms ...map[string]any) []string {
	set := map[string]bool{}
	for _, m := range ms {
		for k := range m {
			set[k] = true
		}
	}
	ks := make([]string, 0, len(set))
	for k := range set {
		ks = append(ks, k)
	}
	sort.Strings(ks)
	return ks
}

// diffRows lists the columns (restricted to cols when non-nil) on which two output rows differ.
func diffRows(a, b map[string]any, cols map[string]bool) []string {
	var d []string
	for _, k := range keysOf(a, b) {
		if cols != nil && !cols[k] {
			continue
		}
		if !same(a[k], b[k]) {
			d = append(d, fmt.Sprintf("%s: %#v vs %#v", k, a[k], b[k]))
		}
	}
	return d
}

func byID(rows []map[string]any) map[int]map[string]any {
	m := make(map[int]map[string]any, len(rows))
	for _, r := range rows {
		m[idOf(r)] = r
	}
	return m
}

func idsOf(rows []map[string]any) []int {
	out := make([]int, len(rows))
	for i, r := range rows {
		out[i] = idOf(r)
	}
	return out
}

// outputCols: the output columns a SELECT item writes.
func outputCols(c Case, fi int) []string {
	f := c.Fields[fi]
	if f.Kind != "cols" {
		return []string{alias(fi)}
	}
	var out []string
	for _, col := range f.Cols {
		out = append(out, colsPrefix(fi)+col)
	}
	return out
}

// ---- sentinel rows (barrier for the asynchronous path) ----------------------------------------

func satisfying(op string, n int) int {
	if op == ">" || op == ">=" {
		return n + 1
	}
	return n - 1
}

// sentinelRows builds a short tail in a partition of its own whose last row is meant to pass the
// WHERE, so that its delivery on the asynchronous path proves everything before it was processed.
// Best effort: whether the tail really passed is read off the synchronous run.
func sentinelRows(c Case) []map[string]any {
	type sv struct{ v, w int }
	var seq []sv
	same2 := func(x int) sv { return sv{x, x} }
	w := c.Where
	switch {
	case w == nil:
		seq = []sv{same2(0)}
	case w.Kind == "plain":
		seq = []sv{same2(satisfying(w.Cond.Op, w.Cond.N))}
	case w.Kind == "cmp":
		x := satisfying(w.Op, w.N)
		step := 1
		if w.Op == "<" || w.Op == "<=" {
			step = -1
		}
		switch w.Call.Fn {
		case "lag":
			for i := 0; i <= w.Call.offset(); i++ {
				seq = append(seq, same2(x))
			}
		case "changed_col":
			seq = []sv{same2(x), same2(x + step)}
		case "acc_count":
			n := 1
			if step > 0 && w.N+2 > 1 {
				n = w.N + 2
			}
			for i := 0; i < n; i++ {
				seq = append(seq, same2(1))
			}
		default:
			seq = []sv{same2(x)}
		}
	case w.Kind == "bare" || (w.Kind == "eqbool" && w.Lit):
		seq = []sv{same2(1), same2(2)}
	case w.Kind == "eqbool":
		seq = []sv{same2(1), same2(1)}
	case w.Kind == "and":
		y := satisfying(w.Op, w.N)
		z := satisfying(w.Cond.Op, w.Cond.N)
		for i := 0; i < w.Call.offset(); i++ {
			seq = append(seq, same2(y))
		}
		last := same2(y)
		if w.Cond.Col == "v" {
			last.v = z
		} else {
			last.w = z
		}
		seq = append(seq, last)
	}
	if w != nil && w.When != nil {
		x := satisfying(w.When.Op, w.When.N)
		for i := range seq {
			// keep the column the call reads; steer the other one
			if w.When.Col == "w" && w.Call.Col != "w" {
				seq[i].w = x
			} else if w.When.Col == "v" && w.Call.Col != "v" {
				seq[i].v = x
			}
		}
	}
	rows := make([]map[string]any, len(seq))
	for i, s := range seq {
		r := map[string]any{"id": -(i + 1), "v": s.v, "w": s.w, "s": fmt.Sprintf("zz%d/%d", s.v, s.w)}
		for _, k := range c.PartCols {
			r[k] = sentinelKey
		}
		rows[i] = r
	}
	return rows
}

// ---- the check --------------------------------------------------------------------------------

func short(v any) string {
	s := fmt.Sprintf("%#v", v)
	s = strings.ReplaceAll(s, "map[string]interface {}", "")
	s = strings.ReplaceAll(s, "interface {}", "")
	if len(s) > 700 {
		s = s[:700] + "…"
	}
	return s
}

func runCase(c Case) (res pbt.Result) {
	sqlFull := buildSQL(c, true, false)
	opts := options(c)
	exact := withinCap(c)
	real := goRows(c.Rows)
	tail := sentinelRows(c)
	all := append(append([]map[string]any{}, real...), tail...)
	lastSentinel := -len(tail)

	// ---- instance A: synchronous path -------------------------------------------------------
	a, err := run.Open(sqlFull, opts...)
	if err != nil {
		if strings.HasPrefix(err.Error(), "PANIC") {
			res.Add(pbt.D("execute-panic", "%v for %s", err, sqlFull))
		} else {
			res.Class("rejected-at-execute")
			res.Count("rejected:"+firstLine(err.Error()), 1)
		}
		return
	}
	outAll, problem := emitSync(a, all)
	recorded := a.Rows()
	a.Stop()
	if problem != "" {
		res.Add(pbt.D("sync-error", "%s; sql=%s", problem, sqlFull))
		return
	}
	// the sync sink sees what EmitSync returns, row for row
	if len(recorded) != len(outAll) {
		res.Add(pbt.D("sync-sink-differs", "EmitSync returned %d rows, the sync sink saw %d; sql=%s", len(outAll), len(recorded), sqlFull))
	} else {
		for i := range outAll {
			if d := diffRows(outAll[i], recorded[i], nil); len(d) > 0 {
				res.Add(pbt.D("sync-sink-differs", "result #%d: EmitSync %s, sync sink %s; sql=%s", i, short(outAll[i]), short(recorded[i]), sqlFull))
				break
			}
		}
	}
	barrierExact := len(outAll) > 0 && idOf(outAll[len(outAll)-1]) == lastSentinel
	var outA []map[string]any // outputs of the real rows
	for _, o := range outAll {
		if idOf(o) >= 0 {
			outA = append(outA, o)
		}
	}
	// an output must belong to an input row, once, in input order
	prev := -1
	for _, id := range idsOf(outA) {
		if id <= prev || id >= len(c.Rows) {
			res.Add(pbt.D("output-order", "synchronous outputs are not an ordered subsequence of the input: ids %v; sql=%s", idsOf(outA), sqlFull))
			return
		}
		prev = id
	}

	// ---- instance A': asynchronous path (path equality, oracle b) ----------------------------
	func() {
		b, err := run.Open(sqlFull, opts...)
		if err != nil {
			res.Add(pbt.D("execute-unstable", "second Execute of the same statement failed: %v; sql=%s", err, sqlFull))
			return
		}
		defer b.Stop()
		for i, r := range all {
			b.Emit(copyRow(r))
			if i < len(c.Pace) {
				switch c.Pace[i] {
				case 1:
					runtime.Gosched()
				case 2:
					time.Sleep(100 * time.Microsecond)
				}
			}
		}
		if barrierExact {
			b.WaitFor(pbt.Wait(8*time.Second), func(ds []run.Delivery) bool {
				for i := len(ds) - 1; i >= 0; i-- {
					for _, r := range ds[i].Rows {
						if idOf(r) == lastSentinel {
							return true
						}
					}
				}
				return false
			})
			res.Class("barrier:exact")
		} else {
			b.WaitRows(pbt.Wait(8*time.Second), len(outAll))
			b.Settle(3 * time.Millisecond)
			res.Class("barrier:count+settle")
		}
		got := b.Rows()
		if !reflect.DeepEqual(idsOf(got), idsOf(outAll)) {
			res.Add(pbt.D("path-rowset", "EmitSync produced ids %v, Emit+sync sink produced %v; sql=%s rows=%s", idsOf(outAll), idsOf(got), sqlFull, short(all)))
			return
		}
		for i := range got {
			if d := diffRows(outAll[i], got[i], nil); len(d) > 0 {
				res.Add(pbt.D("path-value", "input id %d: EmitSync vs Emit+sync sink differ on %v; sql=%s rows=%s", idOf(got[i]), d, sqlFull, short(all)))
				return
			}
		}
	}()

	classes(c, &res, exact)
	if !exact {
		// the property excludes partition counts above the cap: crash-freedom and path equality only
		return
	}
	passA := map[int]bool{}
	for _, id := range idsOf(outA) {
		passA[id] = true
	}
	aByID := byID(outA)

	// ---- oracle c: which rows count ----------------------------------------------------------
	if c.Where != nil {
		sqlB := buildSQL(c, false, true)
		func() {
			b, err := run.Open(sqlB, opts...)
			if err != nil {
				res.Class("rejected-at-execute")
				res.Count("rejected(no-where):"+firstLine(err.Error()), 1)
				return
			}
			defer b.Stop()
			var feed []map[string]any
			for i, r := range real {
				if c.Where.analytic() || passA[i] {
					feed = append(feed, r)
				}
			}
			outB, problem := emitSync(b, feed)
			if problem != "" {
				res.Add(pbt.D("sync-error", "%s; sql=%s", problem, sqlB))
				return
			}
			if len(outB) != len(feed) {
				res.Add(pbt.D("select-dropped-row", "statement without WHERE returned %d results for %d rows; sql=%s", len(outB), len(feed), sqlB))
				return
			}
			bByID := byID(outB)
			kind, what := "counted-rows-plain", "feeding only the rows that pass the analytic-free WHERE"
			if c.Where.analytic() {
				kind, what = "counted-rows-analytic", "the same SELECT without the analytic WHERE on all rows"
			}
			for _, id := range idsOf(outA) {
				bo := copyRow(bByID[id])
				delete(bo, waAlias)
				if d := diffRows(aByID[id], bo, nil); len(d) > 0 {
					res.Add(pbt.D(kind, "input id %d: with WHERE vs %s differ on %v; sql=%s rows=%s", id, what, d, sqlFull, short(real)))
					break
				}
			}
			if c.Where.analytic() {
				// the WHERE's own call advances on every row: its value as a SELECT item decides who passes
				for i, r := range c.Rows {
					want := whereHolds(c.Where, r, normalise(bByID[i][waAlias]))
					if want != passA[i] {
						res.Add(pbt.D("where-analytic-rowset", "input id %d: output=%v, but the WHERE's call evaluated on every row gives %#v => pass=%v; sql=%s rows=%s",
							i, passA[i], bByID[i][waAlias], want, sqlFull, short(real)))
						break
					}
				}
			}
		}()
	}

	// ---- oracle a: partition isolation -------------------------------------------------------
	for _, set := range partSets(c) {
		if len(set) == 0 {
			continue
		}
		groups := map[string][]int{}
		var order []string
		for i, r := range c.Rows {
			k := tupleKey(set, r)
			if _, ok := groups[k]; !ok {
				order = append(order, k)
			}
			groups[k] = append(groups[k], i)
		}
		if len(groups) < 2 {
			continue
		}
		// columns that are complete inside one group: items partitioned by a superset of this set
		cols := map[string]bool{}
		for fi, f := range c.Fields {
			if isSubset(set, f.Part) {
				for _, col := range outputCols(c, fi) {
					cols[col] = true
				}
			}
		}
		rowsetComparable := c.Where == nil || !c.Where.analytic() || isSubset(set, c.Where.Part)
		if len(cols) == 0 && !rowsetComparable {
			continue
		}
		for _, k := range order {
			idxs := groups[k]
			failed := false
			func() {
				g, err := run.Open(sqlFull, opts...)
				if err != nil {
					res.Add(pbt.D("execute-unstable", "another Execute of the same statement failed: %v; sql=%s", err, sqlFull))
					failed = true
					return
				}
				defer g.Stop()
				feed := make([]map[string]any, len(idxs))
				for j, i := range idxs {
					feed[j] = real[i]
				}
				outG, problem := emitSync(g, feed)
				if problem != "" {
					res.Add(pbt.D("sync-error", "%s; sql=%s", problem, sqlFull))
					failed = true
					return
				}
				gByID := byID(outG)
				if rowsetComparable {
					var wantIDs []int
					for _, i := range idxs {
						if passA[i] {
							wantIDs = append(wantIDs, i)
						}
					}
					if !reflect.DeepEqual(wantIDs, idsOf(outG)) && !(len(wantIDs) == 0 && len(outG) == 0) {
						res.Add(pbt.D("isolation-rowset", "partition %v=%q: interleaved stream outputs ids %v, partition alone outputs %v; sql=%s rows=%s",
							set, k, wantIDs, idsOf(outG), sqlFull, short(real)))
						failed = true
						return
					}
				}
				for _, i := range idxs {
					ao, ok1 := aByID[i]
					gout, ok2 := gByID[i]
					if !ok1 || !ok2 {
						continue
					}
					if d := diffRows(ao, gout, cols); len(d) > 0 {
						res.Add(pbt.D("isolation-value", "partition %v=%q input id %d: interleaved vs partition alone differ on %v; sql=%s rows=%s",
							set, k, i, d, sqlFull, short(real)))
						failed = true
						return
					}
				}
			}()
			if failed {
				break
			}
		}
	}

	// ---- secondary oracle: reference state machines -------------------------------------------
	passed := func(id int) bool { return passA[id] }
	exp := model(c, passed, false)
	var quirkExp []expRow
	usesMissing := missingArgument(c)
	if usesMissing {
		quirkExp = model(c, passed, true)
	}
	attribute := func(i int, check func(e expRow) bool) string {
		if usesMissing && check(quirkExp[i]) {
			return "missing-arg-as-name"
		}
		return ""
	}
	for i := range c.Rows {
		e := exp[i]
		if c.Where != nil && c.Where.analytic() && !e.passUnk && e.pass != passA[i] {
			kind := attribute(i, func(q expRow) bool { return q.passUnk || q.pass == passA[i] })
			if kind == "" {
				kind = "ref-rowset"
			}
			res.Add(pbt.D(kind, "input id %d: output=%v but the reference decides pass=%v; sql=%s rows=%s", i, passA[i], e.pass, sqlFull, short(real)))
			break
		}
		if !passA[i] || !e.counted {
			continue
		}
		got := aByID[i]
		bad := ""
		for _, k := range keysOf(got, e.vals) {
			if k == "id" {
				continue
			}
			if !sameRef(got[k], e.vals[k]) {
				bad = k
				break
			}
		}
		if bad == "" {
			continue
		}
		kind := attribute(i, func(q expRow) bool { return q.vals != nil && sameRef(got[bad], q.vals[bad]) })
		if _, isStr := got[bad].(string); kind == "" && isStr && e.vals[bad] == nil && plusChainCol(c, bad) {
			kind = "plus-wrapper-null-concat"
		}
		if kind == "" {
			kind = "ref-value"
		}
		res.Add(pbt.D(kind, "input id %d column %s: engine %#v, reference %#v; sql=%s rows=%s", i, bad, got[bad], e.vals[bad], sqlFull, short(real)))
		break
	}

	res.NonTrivial = nonTrivial(c, passA)
	return
}

// normalise maps an engine value to the reference's value domain.
func normalise(v any) any {
	if f, ok := gen.ToFloat(v); ok {
		return f
	}
	return v
}

func firstLine(s string) string {
	if i := strings.IndexByte(s, '\n'); i >= 0 {
		s = s[:i]
	}
	if len(s) > 80 {
		s = s[:80]
	}
	return s
}

// nonTrivial: some analytic item sees >= 2 partitions interleaved, one of them carrying state over
// >= 3 counted rows with a row of another partition in between.
func nonTrivial(c Case, passA map[int]bool) bool {
	plain := c.Where != nil && !c.Where.analytic()
	for _, f := range c.Fields {
		if len(f.Part) == 0 {
			continue
		}
		var seq []string
		for i, r := range c.Rows {
			if plain && !passA[i] {
				continue
			}
			seq = append(seq, tupleKey(f.Part, r))
		}
		pos := map[string][]int{}
		for i, k := range seq {
			pos[k] = append(pos[k], i)
		}
		if len(pos) < 2 {
			continue
		}
		for _, p := range pos {
			if len(p) >= 3 && p[2]-p[0] > 2 {
				return true
			}
		}
	}
	return false
}

func classes(c Case, res *pbt.Result, exact bool) {
	fns := map[string]bool{}
	for _, f := range c.Fields {
		for _, cl := range f.Calls {
			fns[cl.Fn] = true
			if cl.Start != nil {
				res.Class("acc-start")
			}
			if cl.Reset != nil {
				res.Class("acc-reset")
			}
		}
		if f.Kind == "cols" {
			fns["changed_cols"] = true
		} else if f.Kind != "plain" {
			res.Class("wrapper")
		}
		if f.When != nil {
			res.Class("when")
		}
	}
	for fn := range fns {
		res.Class("fn:" + fn)
	}
	switch {
	case c.Where == nil:
		res.Class("where:none")
	case c.Where.analytic():
		res.Class("where:analytic")
	default:
		res.Class("where:plain")
	}
	res.Class(fmt.Sprintf("partcols:%d", len(c.PartCols)))
	if len(partSets(c)) > 1 {
		res.Class("several-partition-sets")
	}
	live := maxLive(c)
	switch {
	case c.Cap == 0:
		res.Class("cap:unset")
	case !exact:
		res.Class("cap:exceeded")
	case c.Cap == live:
		res.Class("cap:exactly-at-limit")
	default:
		res.Class("cap:within")
	}
	if live >= 3 {
		res.Class("partitions>=3")
	}
	if missingArgument(c) {
		res.Class("missing-argument-column")
	}
	if len(c.Pace) > 0 {
		res.Class("async-paced")
	}
}

// plusChainCol: the output column belongs to a '+'-only wrapper some of whose calls can be NULL.
func plusChainCol(c Case, col string) bool {
	for fi, f := range c.Fields {
		if alias(fi) == col && plusChainNullable(f) {
			return true
		}
	}
	return false
}

func plusChainNullable(f Field) bool {
	if f.Kind != "sum3" {
		return false
	}
	for _, cl := range f.Calls {
		if cl.Fn == "acc_max" || cl.Fn == "acc_min" || cl.Fn == "acc_avg" {
			return true
		}
	}
	return false
}

// features: shapes of confirmed defects.
//
//	missing-value:   a row lacks a column that an analytic call reads as an argument.
//	plus-chain-null: a wrapper that is a pure '+' chain over calls that can return NULL.
func features(c Case) []string {
	var out []string
	for _, f := range c.Fields {
		if plusChainNullable(f) {
			out = append(out, "plus-chain-null")
			break
		}
	}
	if missingArgument(c) {
		out = append(out, "missing-value")
	}
	return out
}

func missingArgument(c Case) bool {
	used := map[string]bool{}
	addCall := func(cl Call) {
		used[cl.Col] = true
		if cl.Col2 != "" {
			used[cl.Col2] = true
		}
		if cl.DefKind == 2 {
			used[cl.DefCol] = true
		}
	}
	for _, f := range c.Fields {
		for _, cl := range f.Calls {
			addCall(cl)
		}
		for _, col := range f.Cols {
			used[col] = true
		}
	}
	if c.Where != nil && c.Where.Call != nil {
		addCall(*c.Where.Call)
	}
	for _, r := range c.Rows {
		for col := range used {
			if v, ok := r[col]; !ok || v.IsMissing() {
				return true
			}
		}
	}
	return false
}

var spec = pbt.Spec[Case]{
	ID: "C14",
	Rule: "generated: 0-2 partition columns (one scalar kind per column, or strings+ints mixed; hostile strings, NULL, missing), 1-6 partition tuples interleaved at random over 0-40 rows; " +
		"value columns with repeats, ints/int64/floats mixed, NULL, missing; 1-3 SELECT items (function names in lower or upper case) out of lag(v[,k[,def[,ignoreNull]]]), latest(v[,def]), had_changed(flag,v[,w]), changed_col(flag,v), " +
		"changed_cols(prefix,flag,cols...), acc_sum/count/avg/min/max(v[,start[,reset]]), wrappers (col - call, 100 - call, coalesce, CASE, acc_max-acc_min, sums/products of acc_*), OVER (PARTITION BY subset [WHEN cond]); " +
		"WHERE none / analytic-free / containing an analytic call (cmp, bare, = true/false, plain AND lag); WithAnalyticMaxPartitions unset, above, exactly at, and below the live partition count. " +
		"oracles: partition isolation (partition alone == inside the interleaved stream), path equality (EmitSync == Emit+sync sink == sync sink during EmitSync), which rows count " +
		"(plain WHERE: only passing rows fed to the WHERE-less statement; analytic WHERE: WHERE-less statement on all rows, and the WHERE call as SELECT item decides the row set), " +
		"reference state machines from the function comments. above the cap: crash-freedom and path equality only. " +
		"non-trivial = within the cap, some item sees >=2 partitions with one partition's first three counted rows interleaved with another partition's rows; distinct = hash of the case JSON",
	Assumptions: []string{
		"input never dropped: WithOverflowStrategy(block,0)",
		"every instance receives fresh copies of the rows (the engine writes into its input map; that is C20's subject)",
		"NULL and a missing partition column are the same partition; int and string keys are different partitions (documented by TestAnalytic_PartitionKeyTypeSafe)",
		"asynchronous barrier: a sentinel tail in its own partition whose last row passed on the synchronous path; otherwise expected count + 3 ms settle",
		"which rows pass an analytic-free WHERE is taken from the engine (predicate evaluation is C06's subject)",
		"acc_*(v,start,reset): a row on which start and reset both hold is not pinned down by the comments; the reference stops comparing that item's partition from there",
		"reference details taken from the repository's tests/comments: WHEN false before any result gives NULL; acc_sum/acc_count of nothing are 0, acc_avg/min/max NULL; lag with ignoreNull=false stores and returns NULLs; a column default of lag is read from the current row; coalesce/CASE wrappers see NULL (ELSE branch), arithmetic wrappers propagate NULL",
		"a missing value column is NULL for the reference (the engine's deviation is finding F-ANALYTIC-MISSING-ARG)",
	},
	Gen:      genCase,
	Run:      runCase,
	Features: features,
}

func TestProp(t *testing.T)    { pbt.RunProp(t, spec) }
func TestReplay(t *testing.T)  { pbt.RunReplay(t, spec) }
func TestWitness(t *testing.T) { pbt.RunWitnesses(t, spec) }

var _ = rapid.Check
