package c14

import (
	"fmt"
	"strconv"
	"strings"

	"pgregory.net/rapid"
	"verifharness/internal/gen"
	"verifharness/internal/pbt"
)

// ---- case -------------------------------------------------------------------------------------

// Cond is a row-local comparison "col op N" (col is a numeric data column).
type Cond struct {
	Col string `json:"col"`
	Op  string `json:"op"` // > >= < <=
	N   int    `json:"n"`
}

func (c Cond) SQL() string { return fmt.Sprintf("%s %s %d", c.Col, c.Op, c.N) }

// Call is one analytic call in one of the argument forms the engine's code/tests document.
type Call struct {
	Fn      string `json:"fn"`                // lag latest had_changed changed_col acc_sum acc_count acc_avg acc_min acc_max
	Col     string `json:"col"`               // value column (v, w numeric; s string)
	Col2    string `json:"col2,omitempty"`    // had_changed: second compared column
	Offset  int    `json:"offset,omitempty"`  // lag: 0 = argument omitted (=1)
	DefKind int    `json:"defkind,omitempty"` // lag/latest default: 0 none, 1 integer literal DefN, 2 column DefCol (lag only)
	DefN    int    `json:"defn,omitempty"`
	DefCol  string `json:"defcol,omitempty"`
	Ign     int    `json:"ign,omitempty"`   // lag: 0 omitted, 1 true, 2 false; had_changed/changed_col: 1 true, 2 false
	Start   *Cond  `json:"start,omitempty"` // acc_*: start condition
	Reset   *Cond  `json:"reset,omitempty"` // acc_*: reset condition (needs Start)
	Up      bool   `json:"up,omitempty"`    // function name written in upper case (names are case-insensitive)
}

func (c Call) SQL() string {
	s := c.sqlLower()
	if c.Up {
		if i := strings.Index(s, "("); i > 0 {
			s = strings.ToUpper(s[:i]) + s[i:]
		}
	}
	return s
}

func (c Call) sqlLower() string {
	switch c.Fn {
	case "lag":
		s := "lag(" + c.Col
		if c.Offset > 0 || c.DefKind > 0 {
			off := c.Offset
			if off == 0 {
				off = 1
			}
			s += ", " + strconv.Itoa(off)
		}
		switch c.DefKind {
		case 1:
			s += ", " + strconv.Itoa(c.DefN)
		case 2:
			s += ", " + c.DefCol
		}
		if c.DefKind > 0 && c.Ign > 0 {
			s += ", " + strconv.FormatBool(c.Ign == 1)
		}
		return s + ")"
	case "latest":
		if c.DefKind == 1 {
			return fmt.Sprintf("latest(%s, %d)", c.Col, c.DefN)
		}
		return "latest(" + c.Col + ")"
	case "had_changed":
		s := fmt.Sprintf("had_changed(%t, %s", c.Ign == 1, c.Col)
		if c.Col2 != "" {
			s += ", " + c.Col2
		}
		return s + ")"
	case "changed_col":
		return fmt.Sprintf("changed_col(%t, %s)", c.Ign == 1, c.Col)
	}
	s := c.Fn + "(" + c.Col
	if c.Start != nil {
		s += ", " + c.Start.SQL()
		if c.Reset != nil {
			s += ", " + c.Reset.SQL()
		}
	}
	return s + ")"
}

func (c Call) offset() int {
	if c.Offset > 0 {
		return c.Offset
	}
	return 1
}

// Field is one SELECT item: a single analytic call, a wrapper expression around one or more calls,
// or the multi-column changed_cols.
type Field struct {
	// plain | col-minus | const-minus | coalesce | case | maxmin | sum3 | prod | mix | cols
	Kind  string   `json:"kind"`
	Calls []Call   `json:"calls,omitempty"`
	Col   string   `json:"col,omitempty"` // col-minus: the column on the left
	N     int      `json:"n,omitempty"`   // case: threshold
	Part  []string `json:"part,omitempty"`
	When  *Cond    `json:"when,omitempty"`
	Ign   bool     `json:"ign,omitempty"`  // cols: ignoreNull
	Cols  []string `json:"cols,omitempty"` // cols: compared columns
}

func overSQL(part []string, when *Cond) string {
	if len(part) == 0 && when == nil {
		return ""
	}
	var parts []string
	if len(part) > 0 {
		parts = append(parts, "PARTITION BY "+strings.Join(part, ", "))
	}
	if when != nil {
		parts = append(parts, "WHEN "+when.SQL())
	}
	return " OVER (" + strings.Join(parts, " ") + ")"
}

func (f Field) exprSQL(idx int) string {
	c := func(i int) string { return f.Calls[i].SQL() }
	switch f.Kind {
	case "plain":
		return c(0)
	case "col-minus":
		return f.Col + " - " + c(0)
	case "const-minus":
		return "100 - " + c(0)
	case "coalesce":
		return "coalesce(" + c(0) + ", -1)"
	case "case":
		return fmt.Sprintf("CASE WHEN %s > %d THEN 'up' ELSE 'down' END", c(0), f.N)
	case "maxmin":
		return c(0) + " - " + c(1)
	case "sum3":
		return c(0) + " + " + c(1) + " + " + c(2)
	case "prod":
		return c(0) + " * " + c(1)
	case "mix":
		return c(0) + "/10 - " + c(1) + "*10 + " + c(2)
	case "cols":
		return fmt.Sprintf("changed_cols(\"%s\", %t, %s)", colsPrefix(idx), f.Ign, strings.Join(f.Cols, ", "))
	}
	panic("unknown field kind " + f.Kind)
}

func colsPrefix(idx int) string { return fmt.Sprintf("c%d_", idx) }
func alias(idx int) string      { return fmt.Sprintf("r%d", idx) }

func (f Field) SQL(idx int) string {
	s := f.exprSQL(idx) + overSQL(f.Part, f.When)
	if f.Kind != "cols" {
		s += " AS " + alias(idx)
	}
	return s
}

// Where is the WHERE clause: nil = none.
type Where struct {
	// plain: Cond | cmp: call op N | bare: call | eqbool: had_changed = true/false | and: Cond AND lag op N
	Kind string   `json:"kind"`
	Cond *Cond    `json:"cond,omitempty"`
	Call *Call    `json:"call,omitempty"`
	Part []string `json:"part,omitempty"`
	When *Cond    `json:"when,omitempty"`
	Op   string   `json:"op,omitempty"`
	N    int      `json:"n,omitempty"`
	Eq   string   `json:"eq,omitempty"` // "=" or "=="
	Lit  bool     `json:"lit,omitempty"`
}

func (w Where) analytic() bool { return w.Kind != "plain" }

func (w Where) callSQL() string { return w.Call.SQL() + overSQL(w.Part, w.When) }

func (w Where) SQL() string {
	switch w.Kind {
	case "plain":
		return w.Cond.SQL()
	case "cmp":
		return fmt.Sprintf("%s %s %d", w.callSQL(), w.Op, w.N)
	case "bare":
		return w.callSQL()
	case "eqbool":
		return fmt.Sprintf("%s %s %t", w.callSQL(), w.Eq, w.Lit)
	case "and":
		return fmt.Sprintf("%s AND %s %s %d", w.Cond.SQL(), w.callSQL(), w.Op, w.N)
	}
	panic("unknown where kind " + w.Kind)
}

// Case is one generated history: statement + option + interleaved rows.
type Case struct {
	PartCols []string  `json:"part_cols"` // partition columns present in the data (k1, k2)
	Fields   []Field   `json:"fields"`
	Where    *Where    `json:"where,omitempty"`
	Cap      int       `json:"cap"`  // WithAnalyticMaxPartitions; 0 = option not set
	Rows     []gen.Row `json:"rows"` // id, k1, k2, v, w, s
	Pace     []int     `json:"pace,omitempty"` // asynchronous producer: per row 0 none, 1 Gosched, 2 100µs pause
}

const waAlias = "wa"

// buildSQL renders the statement. withWhere=false drops the WHERE; extra=true adds the WHERE's
// analytic call as SELECT item "wa" (used by the which-rows-count oracle).
func buildSQL(c Case, withWhere, extra bool) string {
	items := []string{"id"}
	for i, f := range c.Fields {
		items = append(items, f.SQL(i))
	}
	if extra && c.Where != nil && c.Where.analytic() {
		items = append(items, c.Where.callSQL()+" AS "+waAlias)
	}
	q := "SELECT " + strings.Join(items, ", ") + " FROM stream"
	if withWhere && c.Where != nil {
		q += " WHERE " + c.Where.SQL()
	}
	return q
}

// ---- generator --------------------------------------------------------------------------------

var ops = []string{">", ">=", "<", "<="}

func genCond(t *rapid.T, label string) *Cond {
	return &Cond{
		Col: rapid.SampledFrom([]string{"v", "v", "w"}).Draw(t, label+"col"),
		Op:  rapid.SampledFrom(ops).Draw(t, label+"op"),
		N:   rapid.IntRange(-2, 4).Draw(t, label+"n"),
	}
}

func numCol(t *rapid.T, label string) string {
	return rapid.SampledFrom([]string{"v", "v", "v", "w"}).Draw(t, label)
}

func anyCol(t *rapid.T, label string) string {
	return rapid.SampledFrom([]string{"v", "v", "v", "w", "s"}).Draw(t, label)
}

var accFns = []string{"acc_sum", "acc_count", "acc_avg", "acc_min", "acc_max"}

// genCall draws a call. numeric: the result must be a number (or NULL) so it can sit in arithmetic.
func genCall(t *rapid.T, label string, fns []string, numeric bool) Call {
	c := Call{Fn: rapid.SampledFrom(fns).Draw(t, label+"fn")}
	c.Up = rapid.IntRange(0, 4).Draw(t, label+"up") == 0
	if numeric {
		c.Col = numCol(t, label+"col")
	} else {
		c.Col = anyCol(t, label+"col")
	}
	switch c.Fn {
	case "lag":
		form := rapid.IntRange(0, 9).Draw(t, label+"form")
		// 0-2 lag(v) | 3-4 lag(v,k) | 5-6 lag(v,k,def) | 7-9 lag(v,k,def,ign)
		if form >= 3 {
			c.Offset = rapid.IntRange(1, 3).Draw(t, label+"off")
		}
		if form >= 5 {
			if c.Col != "s" && rapid.IntRange(0, 3).Draw(t, label+"defcol") == 0 {
				c.DefKind, c.DefCol = 2, numCol(t, label+"dcol")
			} else {
				c.DefKind, c.DefN = 1, rapid.IntRange(-9, 9).Draw(t, label+"def")
			}
		}
		if form >= 7 {
			c.Ign = rapid.IntRange(1, 2).Draw(t, label+"ign")
		}
	case "latest":
		if rapid.Bool().Draw(t, label+"hasdef") {
			c.DefKind, c.DefN = 1, rapid.IntRange(-9, 9).Draw(t, label+"def")
		}
	case "had_changed":
		c.Ign = rapid.IntRange(1, 2).Draw(t, label+"ign")
		if rapid.IntRange(0, 2).Draw(t, label+"two") == 0 {
			c.Col2 = rapid.SampledFrom([]string{"v", "w", "s"}).Draw(t, label+"col2")
			if c.Col2 == c.Col {
				c.Col2 = "w"
				if c.Col == "w" {
					c.Col2 = "v"
				}
			}
		}
	case "changed_col":
		c.Ign = rapid.IntRange(1, 2).Draw(t, label+"ign")
	default: // acc_*
		if c.Fn != "acc_count" && c.Col == "s" && rapid.IntRange(0, 3).Draw(t, label+"keep_s") != 0 {
			c.Col = "v" // acc_sum(s) is legal (strings are skipped) but dull
		}
		form := rapid.IntRange(0, 9).Draw(t, label+"form")
		if form >= 5 {
			c.Start = genCond(t, label+"st")
		}
		if form >= 7 {
			c.Reset = genCond(t, label+"rs")
			if rapid.IntRange(0, 2).Draw(t, label+"disjoint") != 0 {
				// the documented shape: start above a threshold, reset below a lower one
				c.Start.Op, c.Reset.Op, c.Reset.Col = ">", "<", c.Start.Col
				if c.Reset.N > c.Start.N {
					c.Reset.N = c.Start.N
				}
			}
		}
	}
	return c
}

func accCall(fn, col string, start *Cond) Call { return Call{Fn: fn, Col: col, Start: start} }

func genField(t *rapid.T, idx int) Field {
	label := fmt.Sprintf("f%d_", idx)
	k := rapid.IntRange(0, 99).Draw(t, label+"kind")
	var f Field
	numericFns := []string{"lag", "lag", "latest", "acc_sum", "acc_count", "acc_avg", "acc_min", "acc_max"}
	allFns := []string{"lag", "lag", "lag", "latest", "latest", "had_changed", "had_changed", "changed_col", "changed_col",
		"acc_sum", "acc_count", "acc_avg", "acc_min", "acc_max"}
	switch {
	case k < 26 || k >= 74:
		f = Field{Kind: "plain", Calls: []Call{genCall(t, label, allFns, false)}}
	case k < 36:
		f = Field{Kind: "col-minus", Col: numCol(t, label+"left"), Calls: []Call{genCall(t, label, numericFns, true)}}
	case k < 40:
		f = Field{Kind: "const-minus", Calls: []Call{genCall(t, label, numericFns, true)}}
	case k < 45:
		f = Field{Kind: "coalesce", Calls: []Call{genCall(t, label, []string{"lag", "latest", "acc_avg", "acc_max"}, true)}}
	case k < 49:
		f = Field{Kind: "case", N: rapid.IntRange(-1, 3).Draw(t, label+"thr"), Calls: []Call{genCall(t, label, numericFns, true)}}
	case k < 66:
		col := numCol(t, label+"acccol")
		var start *Cond
		if rapid.IntRange(0, 3).Draw(t, label+"accstart") == 0 {
			start = genCond(t, label+"st")
		}
		switch {
		case k < 55:
			f = Field{Kind: "maxmin", Calls: []Call{accCall("acc_max", col, start), accCall("acc_min", col, start)}}
		case k < 59:
			f = Field{Kind: "sum3", Calls: []Call{accCall("acc_max", col, start), accCall("acc_min", col, start), accCall("acc_sum", col, nil)}}
			if pbt.Open("C14", "plus-chain-null") {
				// keep the '+' chain, over calls that never return NULL
				f.Calls = []Call{accCall("acc_sum", col, start), accCall("acc_count", col, start), accCall("acc_sum", "w", nil)}
			}
		case k < 62:
			f = Field{Kind: "prod", Calls: []Call{accCall("acc_max", col, nil), accCall("acc_min", col, start)}}
		default:
			f = Field{Kind: "mix", Calls: []Call{accCall("acc_max", col, nil), accCall("acc_min", col, nil), accCall("acc_sum", col, start)}}
		}
	default:
		f = Field{Kind: "cols", Ign: rapid.Bool().Draw(t, label+"ign")}
		f.Cols = rapid.SampledFrom([][]string{{"v"}, {"v", "w"}, {"w", "s"}, {"v", "w", "s"}}).Draw(t, label+"cols")
	}
	if rapid.IntRange(0, 3).Draw(t, label+"when") == 0 {
		f.When = genCond(t, label+"wh")
	}
	return f
}

func subset(t *rapid.T, label string, cols []string) []string {
	if len(cols) == 0 {
		return nil
	}
	x := rapid.IntRange(0, 9).Draw(t, label)
	switch {
	case x == 0:
		return nil // no PARTITION BY at all
	case x < 4 && len(cols) == 2:
		return []string{cols[0]}
	case x < 6 && len(cols) == 2:
		return []string{cols[1]}
	}
	return append([]string(nil), cols...)
}

func genWhere(t *rapid.T) *Where {
	k := rapid.IntRange(0, 99).Draw(t, "where")
	switch {
	case k < 2 || k >= 84:
		return nil
	case k < 22:
		return &Where{Kind: "plain", Cond: genCond(t, "wh_")}
	case k < 46:
		fns := []string{"lag", "lag", "latest", "changed_col", "acc_count", "acc_sum", "acc_max"}
		call := genCall(t, "wh_", fns, true)
		return &Where{Kind: "cmp", Call: &call, Op: rapid.SampledFrom(ops).Draw(t, "wh_op"), N: rapid.IntRange(-1, 4).Draw(t, "wh_n")}
	case k < 58:
		call := genCall(t, "wh_", []string{"had_changed", "changed_col"}, false)
		return &Where{Kind: "bare", Call: &call}
	case k < 68:
		call := genCall(t, "wh_", []string{"had_changed"}, false)
		return &Where{Kind: "eqbool", Call: &call, Eq: rapid.SampledFrom([]string{"=", "=="}).Draw(t, "wh_eq"), Lit: rapid.IntRange(0, 3).Draw(t, "wh_lit") != 0}
	default:
		call := genCall(t, "wh_", []string{"lag"}, true)
		return &Where{Kind: "and", Cond: genCond(t, "wh_c_"), Call: &call, Op: rapid.SampledFrom(ops).Draw(t, "wh_op"), N: rapid.IntRange(-1, 4).Draw(t, "wh_n")}
	}
}

// partition key values: one scalar kind per column (3 = strings and ints mixed: "1" and 1 are
// documented to be different partitions).
func keyVal(t *rapid.T, kind int, label string) gen.Val {
	x := rapid.IntRange(0, 13).Draw(t, label+"sel")
	if x == 0 {
		return gen.Nil()
	}
	if x == 1 {
		return gen.Missing()
	}
	switch kind {
	case 0:
		return gen.Str(rapid.SampledFrom(gen.HostileStrings).Draw(t, label+"s"))
	case 1:
		return gen.Int(int64(rapid.IntRange(-1, 4).Draw(t, label+"i")))
	case 2:
		return gen.Float(float64(rapid.IntRange(-2, 5).Draw(t, label+"f")) / 2)
	default:
		if rapid.Bool().Draw(t, label+"mix") {
			return gen.Int(int64(rapid.IntRange(0, 2).Draw(t, label+"i")))
		}
		return gen.Str(rapid.SampledFrom([]string{"0", "1", "2", "int|1", "3:int", ""}).Draw(t, label+"s"))
	}
}

func dataVal(t *rapid.T, label string, allowMissing bool) gen.Val {
	x := rapid.IntRange(0, 19).Draw(t, label+"sel")
	switch {
	case x < 2:
		return gen.Nil()
	case x < 4:
		if allowMissing {
			return gen.Missing()
		}
		return gen.Nil()
	case x < 11:
		return gen.Int(int64(rapid.IntRange(-3, 5).Draw(t, label+"i")))
	case x < 13:
		return gen.Int64(int64(rapid.IntRange(-3, 5).Draw(t, label+"i64")))
	case x < 18:
		return gen.Float(float64(rapid.IntRange(-6, 10).Draw(t, label+"q")) / 2)
	case x < 19:
		return gen.Int(int64(rapid.IntRange(-1000000, 1000000).Draw(t, label+"big")))
	default:
		return gen.Float(rapid.Float64Range(-1e3, 1e3).Draw(t, label+"f"))
	}
}

func strVal(t *rapid.T, label string, allowMissing bool) gen.Val {
	x := rapid.IntRange(0, 9).Draw(t, label+"sel")
	switch {
	case x == 0:
		return gen.Nil()
	case x == 1:
		if allowMissing {
			return gen.Missing()
		}
		return gen.Nil()
	}
	return gen.Str(rapid.SampledFrom([]string{"A", "B", "B", "", "x y", "v"}).Draw(t, label+"s"))
}

func genCase(t *rapid.T) Case {
	var c Case
	npc := rapid.SampledFrom([]int{0, 1, 1, 1, 1, 1, 2, 2, 2, 2}).Draw(t, "npartcols")
	kinds := make([]int, npc)
	for i := 0; i < npc; i++ {
		c.PartCols = append(c.PartCols, fmt.Sprintf("k%d", i+1))
		kinds[i] = rapid.IntRange(0, 3).Draw(t, "keykind")
	}
	nf := rapid.SampledFrom([]int{1, 1, 1, 2, 2, 3}).Draw(t, "nfields")
	uniform := rapid.IntRange(0, 9).Draw(t, "uniformpart") < 7
	for i := 0; i < nf; i++ {
		f := genField(t, i)
		if uniform {
			f.Part = append([]string(nil), c.PartCols...)
		} else {
			f.Part = subset(t, fmt.Sprintf("f%d_part", i), c.PartCols)
		}
		c.Fields = append(c.Fields, f)
	}
	c.Where = genWhere(t)
	if c.Where != nil && c.Where.analytic() {
		if uniform {
			c.Where.Part = append([]string(nil), c.PartCols...)
		} else {
			c.Where.Part = subset(t, "wh_part", c.PartCols)
		}
		if rapid.IntRange(0, 5).Draw(t, "wh_when") == 0 {
			c.Where.When = genCond(t, "wh_when_")
		}
	}
	// pool of partition tuples, rows pick from it at random (=> arbitrary interleaving)
	npool := 1
	if npc > 0 {
		npool = rapid.SampledFrom([]int{1, 2, 3, 2, 3, 4, 5, 6}).Draw(t, "npartitions")
	}
	pool := make([][]gen.Val, npool)
	for i := range pool {
		pool[i] = make([]gen.Val, npc)
		for j := 0; j < npc; j++ {
			pool[i][j] = keyVal(t, kinds[j], fmt.Sprintf("p%d_%d", i, j))
		}
	}
	// two float partition values that differ only beyond float32 precision / in the last bits (or two large ints next
	// to each other) are two partitions
	for j := 0; j < npc; j++ {
		if (kinds[j] == 2 || kinds[j] == 1) && npool >= 2 && rapid.IntRange(0, 2).Draw(t, "nearpair") == 0 {
			if kinds[j] == 2 {
				pr := rapid.SampledFrom([][2]float64{{40000001, 40000002}, {16777216, 16777217}, {0.1, 0.10000000001}, {0.3, 0.30000000000000004}, {1700000000000, 1700000000001}, {1e15, 1e15 + 1}}).Draw(t, "nearf")
				pool[0][j], pool[1][j] = gen.Float(pr[0]), gen.Float(pr[1])
			} else {
				pr := rapid.SampledFrom([][2]int64{{9007199254740992, 9007199254740993}, {1790403587000000001, 1790403587000000002}, {40000001, 40000002}}).Draw(t, "neari")
				pool[0][j], pool[1][j] = gen.Int64(pr[0]), gen.Int64(pr[1])
			}
			for x := 0; x < npc; x++ {
				if x != j {
					pool[1][x] = pool[0][x]
				}
			}
			break
		}
	}
	allowMissing := !pbt.Open("C14", "missing-value")
	n := rapid.SampledFrom([]int{0, 6, 12, 6}).Draw(t, "nrows_base") + rapid.IntRange(0, 28).Draw(t, "nrows")
	for i := 0; i < n; i++ {
		r := gen.Row{"id": gen.Int(int64(i))}
		tu := pool[rapid.IntRange(0, npool-1).Draw(t, "pick")]
		for j, k := range c.PartCols {
			r[k] = tu[j]
		}
		r["v"] = dataVal(t, "v", allowMissing)
		r["w"] = dataVal(t, "w", allowMissing)
		r["s"] = strVal(t, "s", allowMissing)
		c.Rows = append(c.Rows, r)
	}
	if rapid.IntRange(0, 5).Draw(t, "paced") == 5 {
		for range c.Rows {
			c.Pace = append(c.Pace, rapid.SampledFrom([]int{0, 1, 1, 0, 1, 0, 2}).Draw(t, "pace"))
		}
	}
	// cap: unset | comfortably / exactly within | below the live partition count
	live := maxLive(c)
	switch x := rapid.IntRange(0, 19).Draw(t, "capmode"); {
	case x < 9:
		c.Cap = 0
	case x < 12:
		c.Cap = live // exactly at the limit
		if c.Cap == 0 {
			c.Cap = 1
		}
	case x < 16:
		c.Cap = live + rapid.IntRange(1, 3).Draw(t, "capslack")
	default:
		if live >= 2 {
			c.Cap = rapid.IntRange(1, live-1).Draw(t, "capbelow")
		} else {
			c.Cap = 1
		}
	}
	return c
}

// ---- partitions -------------------------------------------------------------------------------

// tupleKey is the harness's own typed encoding of a partition tuple (NULL and missing coincide).
func tupleKey(cols []string, r gen.Row) string {
	var sb strings.Builder
	for _, k := range cols {
		v := r[k]
		switch {
		case v.IsNull():
			sb.WriteString("N;")
		case v.K == "str":
			fmt.Fprintf(&sb, "s%d:%s;", len(v.S), v.S)
		case v.K == "int" || v.K == "int64":
			fmt.Fprintf(&sb, "%s:%d;", v.K, v.I) // exact: neighbours above 2^53 are different partitions
		default:
			f, _ := v.Num()
			fmt.Fprintf(&sb, "%s:%v;", v.K, f)
		}
	}
	return sb.String()
}

// partSets lists the distinct partition-column sets used by the statement (fields and WHERE call).
func partSets(c Case) [][]string {
	var out [][]string
	seen := map[string]bool{}
	add := func(p []string) {
		k := strings.Join(p, ",")
		if !seen[k] {
			seen[k] = true
			out = append(out, p)
		}
	}
	for _, f := range c.Fields {
		add(f.Part)
	}
	if c.Where != nil && c.Where.analytic() {
		add(c.Where.Part)
	}
	return out
}

func distinct(cols []string, rows []gen.Row) int {
	if len(cols) == 0 {
		return 0
	}
	m := map[string]bool{}
	for _, r := range rows {
		m[tupleKey(cols, r)] = true
	}
	return len(m)
}

// maxLive: the largest number of live partitions any analytic field of the statement sees.
func maxLive(c Case) int {
	m := 0
	for _, p := range partSets(c) {
		if d := distinct(p, c.Rows); d > m {
			m = d
		}
	}
	return m
}

// withinCap: the property's precondition "number of live partitions stays within the configured cap".
func withinCap(c Case) bool {
	limit := c.Cap
	if limit <= 0 {
		limit = 10000
	}
	return maxLive(c) <= limit
}

func isSubset(a, b []string) bool {
	for _, x := range a {
		ok := false
		for _, y := range b {
			if x == y {
				ok = true
			}
		}
		if !ok {
			return false
		}
	}
	return true
}
