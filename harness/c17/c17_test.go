package c17

import (
	"fmt"
	"math"
	"math/big"
	"sort"
	"strconv"
	"strings"
	"testing"
	"time"

	"pgregory.net/rapid"
	"verifharness/internal/gen"
	"verifharness/internal/pbt"
	"verifharness/internal/run"
)

type Atom struct {
	Fn    string  `json:"fn"` // count, sum, avg, min, max
	Op    string  `json:"op"`
	Lit   float64 `json:"lit"`
	Spell int     `json:"spell"`         // spelling variant of the call
	Col   string  `json:"col,omitempty"` // input column: "" = v; "V" and "u" are other columns (V differs from v only in case); count over a column counts its non-NULL values
}

func (a Atom) col() string {
	if a.Col == "" {
		return "v"
	}
	return a.Col
}

type Case struct {
	Atoms    []Atom    `json:"atoms"`
	Joins    []string  `json:"joins"`            // between atoms: "AND"/"OR"
	Selected []string  `json:"selected"`         // aggregates in the SELECT list (besides ids)
	Keys     []string  `json:"keys"`             // group columns
	Rows     []gen.Row `json:"rows"`             // id, v, key columns
	NoIDs    bool      `json:"no_ids,omitempty"` // the query selects no collect(id): rows whose aggregated inputs are all NULL feed no selected aggregate
}

var aggFns = []string{"count", "sum", "avg", "min", "max"}

func genCase(t *rapid.T) Case {
	var c Case
	na := rapid.IntRange(1, 3).Draw(t, "natoms")
	opsPool := []string{">=", ">", "<", "<=", "=="}
	if !pbt.Open("C17", "neq") {
		opsPool = append(opsPool, "!=")
	}
	for i := 0; i < na; i++ {
		a := Atom{Fn: rapid.SampledFrom(aggFns).Draw(t, "fn"), Spell: rapid.IntRange(0, 3).Draw(t, "spell")}
		a.Op = rapid.SampledFrom(opsPool).Draw(t, "op")
		if rapid.IntRange(0, 3).Draw(t, "othercol") == 0 {
			a.Col = rapid.SampledFrom([]string{"V", "u"}).Draw(t, "col")
		}
		if a.Fn == "count" {
			a.Lit = float64(rapid.IntRange(1, 4).Draw(t, "k"))
			if (a.Op == "<" || a.Op == "<=") && !(a.Col != "" && rapid.Bool().Draw(t, "countbelow")) {
				// count(*) < k holds at once for every row; over a column (count of its non-NULL values) it is kept half
				// of the time: such a predicate already holds on a group that has seen no usable value
				a.Op = ">="
			}
		} else {
			a.Lit = float64(rapid.IntRange(-4, 12).Draw(t, "lit"))
			if rapid.Bool().Draw(t, "half") {
				a.Lit += 0.5
			}
		}
		c.Atoms = append(c.Atoms, a)
		if i > 0 {
			c.Joins = append(c.Joins, rapid.SampledFrom([]string{"AND", "OR"}).Draw(t, "join"))
		}
	}
	for _, f := range aggFns {
		if rapid.Bool().Draw(t, "sel"+f) {
			c.Selected = append(c.Selected, f)
		}
	}
	c.NoIDs = rapid.IntRange(0, 3).Draw(t, "noids") == 0
	for _, a := range c.Atoms {
		if a.Fn == "count" && a.Col != "" && (a.Op == "<" || a.Op == "<=") && rapid.Bool().Draw(t, "feedless") {
			// a predicate that holds on an empty group: let some rows feed no aggregate at all (no collect(id), no
			// count(*) in the SELECT list; v and the counted column NULL in the same row happens by itself)
			c.NoIDs = true
			var sel []string
			for _, f := range c.Selected {
				if f != "count" {
					sel = append(sel, f)
				}
			}
			c.Selected = sel
			break
		}
	}
	if c.NoIDs && len(c.Selected) == 0 {
		c.Selected = []string{"sum"}
	}
	nk := rapid.IntRange(0, 2).Draw(t, "nkeys")
	kinds := make([]int, nk)
	for i := 0; i < nk; i++ {
		c.Keys = append(c.Keys, fmt.Sprintf("k%d", i+1))
		kinds[i] = rapid.IntRange(0, 1).Draw(t, "kind")
	}
	npool := 1
	if nk > 0 {
		npool = rapid.IntRange(1, 4).Draw(t, "npool")
	}
	pool := make([][]gen.Val, npool)
	for i := range pool {
		pool[i] = make([]gen.Val, nk)
		for j := 0; j < nk; j++ {
			x := rapid.IntRange(0, 9).Draw(t, "ksel")
			switch {
			case x == 0:
				pool[i][j] = gen.Nil()
			case kinds[j] == 0:
				pool[i][j] = gen.Str(rapid.SampledFrom(gen.HostileStrings).Draw(t, "ks"))
			default:
				pool[i][j] = gen.Int(int64(rapid.IntRange(0, 3).Draw(t, "ki")))
			}
		}
	}
	n := rapid.IntRange(1, 40).Draw(t, "n")
	for i := 0; i < n; i++ {
		r := gen.Row{"id": gen.Int(int64(i))}
		vk := rapid.IntRange(0, 9).Draw(t, "vk")
		if vk < 2 && hasOr(c) && pbt.Open("C17", "or-with-null-agg") {
			vk = 5 // excluded by construction: a NULL aggregate next to OR (open finding)
		}
		switch vk {
		case 0:
			r["v"] = gen.Nil()
		case 1:
			r["v"] = gen.Missing()
		default:
			r["v"] = gen.SmallNum().Draw(t, "v")
			if f, _ := r["v"].Num(); f > 1000 || f < -1000 {
				r["v"] = gen.Int(int64(rapid.IntRange(-5, 12).Draw(t, "v2")))
			}
		}
		for _, a := range c.Atoms {
			if a.Col == "" {
				continue
			}
			if _, done := r[a.Col]; done {
				continue
			}
			if rapid.IntRange(0, 7).Draw(t, "ck") == 0 && !(hasOr(c) && pbt.Open("C17", "or-with-null-agg")) {
				r[a.Col] = gen.Nil()
			} else {
				r[a.Col] = gen.Int(int64(rapid.IntRange(-5, 12).Draw(t, "cv")))
			}
		}
		tu := pool[rapid.IntRange(0, npool-1).Draw(t, "pick")]
		for j, k := range c.Keys {
			r[k] = tu[j]
		}
		c.Rows = append(c.Rows, r)
	}
	return c
}

func (a Atom) call() string {
	arg := a.col()
	if a.Fn == "count" && a.Col == "" {
		arg = "*"
	}
	switch a.Spell {
	case 1:
		return strings.ToUpper(a.Fn) + "(" + arg + ")"
	case 2:
		return a.Fn + "( " + arg + " )"
	case 3:
		return strings.ToUpper(a.Fn[:1]) + a.Fn[1:] + "(" + arg + ")"
	}
	return a.Fn + "(" + arg + ")"
}

func predText(c Case) string {
	var sb strings.Builder
	for i, a := range c.Atoms {
		if i > 0 {
			sb.WriteString(" " + c.Joins[i-1] + " ")
		}
		sb.WriteString(a.call() + " " + a.Op + " " + strconv.FormatFloat(a.Lit, 'f', -1, 64))
	}
	return sb.String()
}

func sqlOf(c Case) string {
	sel := append([]string{}, c.Keys...)
	if !c.NoIDs {
		sel = append(sel, "collect(id) AS ids")
	}
	for _, f := range c.Selected {
		arg := "v"
		if f == "count" {
			arg = "*"
		}
		sel = append(sel, fmt.Sprintf("%s(%s) AS a_%s", f, arg, f))
	}
	q := "SELECT " + strings.Join(sel, ", ") + " FROM stream GROUP BY "
	for _, k := range c.Keys {
		q += k + ", "
	}
	return q + "GLOBAL WINDOW TRIGGER WHEN " + predText(c)
}

type aggState struct{ rows []gen.Row }

// value returns (value, isNull)
func (s *aggState) value(fn, col string) (float64, bool) {
	if fn == "count" && col == "*" {
		return float64(len(s.rows)), false
	}
	var xs []float64
	for _, r := range s.rows {
		if f, ok := r[col].Num(); ok {
			xs = append(xs, f)
		}
	}
	if fn == "count" {
		return float64(len(xs)), false
	}
	if len(xs) == 0 {
		return 0, true
	}
	switch fn {
	case "sum", "avg":
		// arrival order, as a running aggregate sees the rows
		t := 0.0
		for _, x := range xs {
			t += x
		}
		if fn == "avg" {
			t /= float64(len(xs))
		}
		return t, false
	}
	sort.Float64s(xs)
	switch fn {
	case "min":
		return xs[0], false
	default:
		return xs[len(xs)-1], false
	}
}

// orderSensitive reports whether the verdict of "sum/avg(v) op lit" over these rows depends on the order of the
// floating-point additions (arrival, ascending, descending or exact): the property does not fix one, so such a
// comparison has no defined truth value and the case gives no verdict.
func (s *aggState) orderSensitive(fn, col, op string, lit float64) bool {
	if fn != "sum" && fn != "avg" {
		return false
	}
	var xs []float64
	for _, r := range s.rows {
		if f, ok := r[col].Num(); ok {
			xs = append(xs, f)
		}
	}
	if len(xs) < 2 {
		return false
	}
	fin := func(t float64) bool {
		if fn == "avg" {
			t /= float64(len(xs))
		}
		return cmp(t, op, lit)
	}
	arrival := 0.0
	for _, x := range xs {
		arrival += x
	}
	ys := append([]float64(nil), xs...)
	sort.Float64s(ys)
	asc, desc := 0.0, 0.0
	for i := range ys {
		asc += ys[i]
		desc += ys[len(ys)-1-i]
	}
	exact := new(big.Float).SetPrec(2200)
	for _, x := range xs {
		if math.IsInf(x, 0) || math.IsNaN(x) {
			return true
		}
		exact.Add(exact, new(big.Float).SetPrec(2200).SetFloat64(x))
	}
	ex, _ := exact.Float64()
	want := fin(arrival)
	return fin(asc) != want || fin(desc) != want || fin(ex) != want
}

func cmp(a float64, op string, b float64) bool {
	switch op {
	case ">=":
		return a >= b
	case ">":
		return a > b
	case "<":
		return a < b
	case "<=":
		return a <= b
	case "==":
		return a == b
	default:
		return a != b
	}
}

// evalPred: SQL semantics collapsed to "true or not": a NULL aggregate makes its comparison not true;
// AND binds tighter than OR. usedNullInOr reports whether a NULL atom sat next to an OR.
func evalPred(c Case, s *aggState) (bool, bool) {
	vals := make([]bool, len(c.Atoms))
	nullAtom := false
	for i, a := range c.Atoms {
		col := a.col()
		if a.Fn == "count" && a.Col == "" {
			col = "*"
		}
		v, null := s.value(a.Fn, col)
		if null {
			nullAtom = true
			vals[i] = false
		} else {
			vals[i] = cmp(v, a.Op, a.Lit)
		}
	}
	// OR of AND-groups
	result := false
	cur := vals[0]
	hasOr := false
	for i := 1; i < len(vals); i++ {
		if c.Joins[i-1] == "AND" {
			cur = cur && vals[i]
		} else {
			hasOr = true
			result = result || cur
			cur = vals[i]
		}
	}
	result = result || cur
	return result, nullAtom && hasOr
}

func tupleKey(keys []string, r gen.Row) string {
	var sb strings.Builder
	for _, k := range keys {
		v := r[k]
		if v.IsNull() {
			sb.WriteString("N;")
		} else if f, ok := v.Num(); ok {
			fmt.Fprintf(&sb, "n%v;", f)
		} else {
			fmt.Fprintf(&sb, "s%d:%s;", len(v.S), v.S)
		}
	}
	return sb.String()
}

type firing struct {
	key  string
	rows []gen.Row
}

func runCase(c Case) (res pbt.Result) {
	in, err := run.Open(sqlOf(c))
	if err != nil {
		res.Add(pbt.D("execute-error", "%v for %s", err, sqlOf(c)))
		return
	}
	defer in.Stop()
	// model
	states := map[string]*aggState{}
	var want []firing
	nullOr := false
	firedPerGroup := map[string]int{}
	for _, r := range c.Rows {
		k := tupleKey(c.Keys, r)
		s := states[k]
		if s == nil {
			s = &aggState{}
			states[k] = s
		}
		s.rows = append(s.rows, r)
		for _, a := range c.Atoms {
			if s.orderSensitive(a.Fn, a.col(), a.Op, a.Lit) {
				res.Class("no-verdict:float-order")
				return
			}
		}
		fire, no := evalPred(c, s)
		if no {
			nullOr = true
		}
		if fire {
			want = append(want, firing{key: k, rows: s.rows})
			firedPerGroup[k]++
			states[k] = &aggState{}
		}
	}
	for _, r := range c.Rows {
		in.Emit(r.Go())
	}
	okw := in.WaitRows(pbt.Wait(4*time.Second), len(want))
	if okw {
		in.Settle(3 * time.Millisecond)
	}
	got := in.Rows()
	for i := 0; i < len(got) || i < len(want); i++ {
		if i >= len(got) {
			ids := []int64{}
			for _, r := range want[i].rows {
				ids = append(ids, r["id"].I)
			}
			res.Add(pbt.D("missed-fire", "TRIGGER WHEN %s: firing #%d (group %q rows %v) never produced a result", predText(c), i+1, want[i].key, ids))
			break
		}
		l, _ := got[i]["ids"].([]any)
		var gids []int64
		for _, e := range l {
			f, _ := gen.ToFloat(e)
			gids = append(gids, int64(f))
		}
		if i >= len(want) {
			res.Add(pbt.D("extra-fire", "TRIGGER WHEN %s: unexpected result #%d with ids %v (%v)", predText(c), i+1, gids, got[i]))
			break
		}
		var wids []int64
		for _, r := range want[i].rows {
			wids = append(wids, r["id"].I)
		}
		if !c.NoIDs && fmt.Sprint(gids) != fmt.Sprint(wids) {
			res.Add(pbt.D("wrong-rows", "TRIGGER WHEN %s: result #%d aggregates ids %v, want %v (group %q)", predText(c), i+1, gids, wids, want[i].key))
			break
		}
		st := &aggState{rows: want[i].rows}
		for _, f := range c.Selected {
			scol := "v"
			if f == "count" {
				scol = "*"
			}
			w, null := st.value(f, scol)
			g := got[i]["a_"+f]
			gf, gok := gen.ToFloat(g)
			if null {
				if g != nil {
					res.Add(pbt.D("wrong-agg", "result #%d: %s=%v over no usable input, want NULL", i+1, f, g))
				}
			} else if !gok || !gen.Close(gf, w, 1e-9) {
				res.Add(pbt.D("wrong-agg", "result #%d: %s=%v want %v over ids %v", i+1, f, g, w, wids))
			}
		}
		for _, k := range c.Keys {
			wv := want[i].rows[0][k]
			g := got[i][k]
			okk := false
			if wv.IsNull() {
				okk = g == nil
			} else if f, isn := wv.Num(); isn {
				gf, gok := gen.ToFloat(g)
				okk = gok && gf == f
			} else {
				okk = g == wv.S
			}
			if !okk {
				res.Add(pbt.D("wrong-key-col", "result #%d: %s=%#v want %s", i+1, k, g, wv))
			}
		}
		// hidden helper columns must not appear
		for col := range got[i] {
			if strings.HasPrefix(col, "__") {
				res.Add(pbt.D("hidden-column", "result #%d exposes helper column %q", i+1, col))
			}
		}
	}
	unselected := false
	sel := map[string]bool{}
	for _, f := range c.Selected {
		sel[f] = true
	}
	hasOr := false
	for _, a := range c.Atoms {
		if !sel[a.Fn] || a.Col != "" {
			unselected = true
		}
	}
	for _, j := range c.Joins {
		if j == "OR" {
			hasOr = true
		}
	}
	multi := false
	for _, n := range firedPerGroup {
		if n >= 2 {
			multi = true
		}
	}
	if unselected {
		res.Class("unselected-agg")
	}
	if hasOr {
		res.Class("or")
	}
	if multi {
		res.Class("refire")
	}
	if nullOr {
		res.Class("null-agg-beside-or")
	}
	if len(want) == 0 {
		res.Class("never-fires")
	}
	if c.NoIDs {
		res.Class("no-collect-id")
	}
	res.NonTrivial = len(states) >= 2 && (unselected || hasOr) && multi
	return
}

func hasOr(c Case) bool {
	for _, j := range c.Joins {
		if j == "OR" {
			return true
		}
	}
	return false
}

func features(c Case) []string {
	var f []string
	if hasOr(c) {
		for _, r := range c.Rows {
			null := r["v"].IsNull()
			for _, a := range c.Atoms {
				if a.Col != "" && r[a.Col].IsNull() {
					null = true
				}
			}
			if null {
				f = append(f, "or-with-null-agg")
				break
			}
		}
	}
	for _, a := range c.Atoms {
		if a.Op == "!=" {
			f = append(f, "neq")
			break
		}
	}
	return f
}

var spec = pbt.Spec[Case]{
	ID:          "C17",
	Rule:        "generated: GLOBAL WINDOW TRIGGER WHEN predicates of 1-3 comparisons of count(*)/count/sum/avg/min/max over v or, one time in four, over another column (V, which differs from v only in case, or u) with literals joined by AND/OR (varied spelling), a random subset of those aggregates in the SELECT list (so predicates reference selected and unselected aggregates), 0-2 group columns over separator-bearing strings/ints/NULL, 1-40 rows with NULL/missing inputs. oracle: per-group running model - after each row evaluate the predicate on the rows since the group last fired (NULL aggregate => comparison not true), fire exactly there with aggregates over precisely those rows and the group columns, reset; results in firing order. non-trivial = >=2 groups, a predicate over an unselected aggregate or with OR, and a group firing twice; distinct by case hash",
	Assumptions: []string{"input never dropped (block strategy)", "the window goroutine is sequential, so result order = firing order", "AND binds tighter than OR"},
	Gen:         genCase,
	Run:         runCase,
	Features:    features,
}

func TestProp(t *testing.T)    { pbt.RunProp(t, spec) }
func TestReplay(t *testing.T)  { pbt.RunReplay(t, spec) }
func TestWitness(t *testing.T) { pbt.RunWitnesses(t, spec) }
