package c04

import (
	"fmt"
	"math"
	"sort"
	"strings"
	"testing"
	"time"

	"pgregory.net/rapid"
	"verifharness/internal/et"
	"verifharness/internal/gen"
	"verifharness/internal/pbt"
	"verifharness/internal/run"
)

type Case struct {
	Window   string    `json:"window"` // tumbling, counting, session, global
	N        int       `json:"n"`      // counting / global threshold
	Keys     []string  `json:"keys"`
	Upper    bool      `json:"upper"`               // first key column is grouped as upper(k1)
	NearPair bool      `json:"near_pair,omitempty"` // two float keys differing only beyond float32 precision were planted
	NearInt  bool      `json:"near_int,omitempty"`  // ... or two integer keys beyond 2^53 that are equal as float64
	Aliased  []bool    `json:"aliased,omitempty"` // per key column: selected as "k AS o_k" (the tuple is reported under the selected name)
	KeyFn    string    `json:"key_fn,omitempty"`    // other scalar function around the first key column: lower, length (strings), abs (ints), floor (floats); several raw values share one function value
	Rows     []gen.Row `json:"rows"`                // id + key columns
}

func genKeyVal(t *rapid.T, kind int) gen.Val {
	x := rapid.IntRange(0, 11).Draw(t, "ksel")
	if x == 0 {
		return gen.Nil()
	}
	if x == 1 {
		return gen.Missing()
	}
	switch kind {
	case 0:
		return gen.Str(rapid.SampledFrom(gen.HostileStrings).Draw(t, "ks"))
	case 1:
		if rapid.IntRange(0, 5).Draw(t, "bigint") == 0 {
			return gen.Int64(rapid.SampledFrom([]int64{1 << 53, 1<<53 + 1, 1<<53 + 2, math.MaxInt64, math.MaxInt64 - 1, math.MinInt64, -(1<<53 + 1), 4294967296, 4294967297}).Draw(t, "kbi"))
		}
		return gen.Int(int64(rapid.IntRange(-1, 3).Draw(t, "ki")))
	default:
		if rapid.IntRange(0, 5).Draw(t, "bigfloat") == 0 {
			return gen.Float(rapid.SampledFrom([]float64{1e19, 2e19, -1e19, 9.3e18, 1e300, 2e300, 1e-300, 2e-300, 1e6, 1000001, 16777217, 0.1, 0.30000000000000004, 0.3}).Draw(t, "kbf"))
		}
		return gen.Float(float64(rapid.IntRange(-2, 4).Draw(t, "kf")) / 2)
	}
}

func genCase(t *rapid.T) Case {
	c := Case{Window: rapid.SampledFrom([]string{"tumbling", "counting", "session", "global"}).Draw(t, "window")}
	c.N = rapid.IntRange(1, 4).Draw(t, "N")
	nk := rapid.IntRange(0, 3).Draw(t, "nkeys")
	if c.Window == "session" && nk == 0 {
		nk = 1 // an event-time session only fires through another key's event (flush row)
	}
	kinds := make([]int, nk)
	for i := 0; i < nk; i++ {
		c.Keys = append(c.Keys, fmt.Sprintf("k%d", i+1))
		kinds[i] = rapid.IntRange(0, 2).Draw(t, "kind")
		if rapid.IntRange(0, 2).Draw(t, "preferStr") > 0 {
			kinds[i] = 0
		}
	}
	if nk > 0 && kinds[0] == 0 && rapid.IntRange(0, 4).Draw(t, "upper") == 0 {
		c.Upper = true
	}
	if nk > 0 && rapid.IntRange(0, 2).Draw(t, "aliases") == 0 {
		c.Aliased = make([]bool, nk)
		for i := range c.Aliased {
			c.Aliased[i] = rapid.Bool().Draw(t, "aliased")
		}
	}
	if nk > 0 && !c.Upper && rapid.IntRange(0, 5).Draw(t, "keyfn") == 0 {
		c.KeyFn = [][]string{{"lower", "length"}, {"abs"}, {"floor"}}[kinds[0]][rapid.IntRange(0, 1).Draw(t, "whichfn")%len([][]string{{"lower", "length"}, {"abs"}, {"floor"}}[kinds[0]])]
	}
	npool := 1
	if nk > 0 {
		npool = rapid.IntRange(1, 6).Draw(t, "npool")
	}
	pool := make([][]gen.Val, npool)
	for i := range pool {
		pool[i] = make([]gen.Val, nk)
		for j := 0; j < nk; j++ {
			pool[i][j] = genKeyVal(t, kinds[j])
			if c.Upper && j == 0 && pool[i][j].IsNull() {
				pool[i][j] = gen.Str("a") // upper(NULL) is not fixed by the property
			}
			if c.KeyFn != "" && j == 0 {
				// f(NULL) is not fixed by the property; small values, so that abs/floor are exact and several raw values share one function value
				switch kinds[0] {
				case 0:
					pool[i][j] = gen.Str(rapid.SampledFrom([]string{"a", "A", "b", "B", "ab", "Ab", "a|b", "A|B", "", "|", ","}).Draw(t, "fks"))
				case 1:
					pool[i][j] = gen.Int(int64(rapid.IntRange(-3, 3).Draw(t, "fki")))
				default:
					pool[i][j] = gen.Float(float64(rapid.IntRange(-6, 6).Draw(t, "fkf")) / 4)
				}
			}
		}
	}
	if nk >= 2 && kinds[0] == 0 && kinds[1] == 0 && npool >= 2 && !c.Upper && c.KeyFn == "" && rapid.IntRange(0, 2).Draw(t, "plant") == 0 {
		cp := gen.CollidingPair().Draw(t, "collide")
		copy(pool[0], cp[0])
		copy(pool[1], cp[1])
		if nk == 3 {
			pool[1][2] = pool[0][2]
		}
	}
	// two float keys that differ only beyond float32 precision / in the last bits, in the same batch
	for j := 0; j < nk; j++ {
		if kinds[j] == 2 && npool >= 2 && !(j == 0 && c.KeyFn != "") && rapid.IntRange(0, 2).Draw(t, "nearpair") == 0 {
			pr := rapid.SampledFrom([][2]float64{{16777216, 16777217}, {0.3, 0.30000000000000004}, {0.1234567891, 0.1234567892}, {1e15, 1e15 + 1},
				{1700000000000, 1700000000001}, {float64(float32(0.1)), 0.1}, {1e-7, 1.0000001e-7}, {123456.789, 123456.7890001}, {4503599627370497, 4503599627370498}}).Draw(t, "near")
			pool[0][j], pool[1][j] = gen.Float(pr[0]), gen.Float(pr[1])
			for x := 0; x < nk; x++ {
				if x != j {
					pool[1][x] = pool[0][x] // the pair differs in this column only
				}
			}
			c.NearPair = true
			break
		}
	}
	// two integer keys beyond 2^53 that a float64 cannot tell apart (neighbouring 64-bit ids), in the same batch
	for j := 0; j < nk && !c.NearPair; j++ {
		if kinds[j] == 1 && npool >= 2 && !(j == 0 && c.KeyFn != "") && rapid.IntRange(0, 2).Draw(t, "nearint") == 0 {
			pr := rapid.SampledFrom([][2]int64{{9007199254740992, 9007199254740993}, {9223372036854775807, 9223372036854775806}, {1 << 62, 1<<62 + 1},
				{1790411870203205502, 1790411870203205503}, {-9007199254740993, -9007199254740992}, {-9223372036854775808, -9223372036854775807}, {1 << 60, 1<<60 + 100}}).Draw(t, "nearintpair")
			pool[0][j], pool[1][j] = gen.Int(pr[0]), gen.Int(pr[1])
			for x := 0; x < nk; x++ {
				if x != j {
					pool[1][x] = pool[0][x]
				}
			}
			c.NearPair = true
			c.NearInt = true
			break
		}
	}
	n := rapid.IntRange(1, 40).Draw(t, "n")
	for i := 0; i < n; i++ {
		r := gen.Row{"id": gen.Int(int64(i))}
		tu := pool[rapid.IntRange(0, npool-1).Draw(t, "pick")]
		for j, k := range c.Keys {
			r[k] = tu[j]
		}
		c.Rows = append(c.Rows, r)
	}
	return c
}

func groupExprs(c Case) []string {
	var g []string
	for i, k := range c.Keys {
		if i == 0 && c.Upper {
			g = append(g, "upper("+k+")")
		} else if i == 0 && c.KeyFn != "" {
			g = append(g, c.KeyFn+"("+k+")")
		} else {
			g = append(g, k)
		}
	}
	return g
}

// outName is the name under which key column i is selected.
func (c Case) outName(i int) string {
	if i < len(c.Aliased) && c.Aliased[i] {
		return "o_" + c.Keys[i]
	}
	return c.Keys[i]
}

func sqlOf(c Case) string {
	var sel []string
	for i, k := range c.Keys {
		if i == 0 && c.Upper {
			sel = append(sel, "upper("+k+") AS "+c.outName(i))
		} else if i == 0 && c.KeyFn != "" {
			sel = append(sel, c.KeyFn+"("+k+") AS "+c.outName(i))
		} else if c.outName(i) != k {
			sel = append(sel, k+" AS "+c.outName(i))
		} else {
			sel = append(sel, k)
		}
	}
	sel = append(sel, "collect(id) AS ids", "count(*) AS c")
	q := "SELECT " + strings.Join(sel, ", ") + " FROM stream GROUP BY "
	for _, g := range groupExprs(c) {
		q += g + ", "
	}
	switch c.Window {
	case "tumbling":
		q += "TumblingWindow('10s') " + et.With("ms", 0, 0)
	case "counting":
		q += fmt.Sprintf("CountingWindow(%d)", c.N)
	case "session":
		q += "SessionWindow('5s') " + et.With("ms", 0, 0)
	default:
		q += fmt.Sprintf("GLOBAL WINDOW TRIGGER WHEN count(*) >= %d", c.N)
	}
	return q
}

// typed tuple key: NULL != "", missing == NULL, numbers by value
func tupleOf(c Case, r gen.Row) (string, []gen.Val) {
	var sb strings.Builder
	vals := make([]gen.Val, len(c.Keys))
	for i, k := range c.Keys {
		v := r[k]
		if i == 0 && c.Upper && v.K == "str" {
			v = gen.Str(strings.ToUpper(v.S))
		}
		if i == 0 && c.KeyFn != "" {
			switch c.KeyFn {
			case "lower":
				v = gen.Str(strings.ToLower(v.S))
			case "length":
				v = gen.Float(float64(len([]rune(v.S))))
			case "abs":
				v = gen.Float(math.Abs(float64(v.I)))
			case "floor":
				v = gen.Float(math.Floor(v.Float()))
			}
		}
		vals[i] = v
		if v.IsNull() {
			sb.WriteString("N;")
		} else if v.K == "int" || v.K == "int64" {
			fmt.Fprintf(&sb, "i%d;", v.I) // exact (one scalar type per column)
		} else if f, ok := v.Num(); ok {
			fmt.Fprintf(&sb, "f%x;", math.Float64bits(f))
		} else {
			fmt.Fprintf(&sb, "s%d:%s;", len(v.S), v.S)
		}
	}
	return sb.String(), vals
}

func naiveJoin(vals []gen.Val, sep string) string {
	parts := make([]string, len(vals))
	for i, v := range vals {
		switch {
		case v.IsNull():
			parts[i] = ""
		case v.K == "str":
			parts[i] = v.S
		default:
			parts[i] = fmt.Sprint(v.Go())
		}
	}
	return strings.Join(parts, sep)
}

func runCase(c Case) (res pbt.Result) {
	in, err := run.Open(sqlOf(c))
	if err != nil {
		res.Add(pbt.D("execute-error", "%v for %s", err, sqlOf(c)))
		return
	}
	defer in.Stop()
	// expected ids per tuple (only rows that must fire)
	tupleIDs := map[string][]int64{}
	tupleVals := map[string][]gen.Val{}
	owner := map[int64]string{}
	var order []string
	for _, r := range c.Rows {
		k, vals := tupleOf(c, r)
		if _, ok := tupleIDs[k]; !ok {
			order = append(order, k)
		}
		tupleIDs[k] = append(tupleIDs[k], r["id"].I)
		tupleVals[k] = vals
		owner[r["id"].I] = k
	}
	mustFire := map[int64]bool{}
	for k, ids := range tupleIDs {
		n := len(ids)
		if c.Window == "counting" || c.Window == "global" {
			n = n / c.N * c.N
		}
		for _, id := range ids[:n] {
			mustFire[id] = true
		}
		_ = k
	}
	// feed
	for i, r := range c.Rows {
		m := r.Go()
		if c.Window == "tumbling" || c.Window == "session" {
			m["ts"] = et.Base + int64(i) // all in one interval / gap-free
		}
		in.Emit(m)
	}
	if c.Window == "tumbling" || c.Window == "session" {
		f := map[string]any{"id": -1, "ts": et.Base + 60_000}
		for _, k := range c.Keys {
			f[k] = "⁣flush⁣"
		}
		in.Emit(f)
	}
	in.WaitFor(pbt.Wait(4*time.Second), func(ds []run.Delivery) bool {
		seen := map[int64]bool{}
		for _, d := range ds {
			for _, r := range d.Rows {
				l, _ := r["ids"].([]any)
				for _, e := range l {
					f, _ := gen.ToFloat(e)
					seen[int64(f)] = true
				}
			}
		}
		for id := range mustFire {
			if !seen[id] {
				return false
			}
		}
		return true
	})
	in.Settle(2 * time.Millisecond)
	got := map[string][]int64{}
	for _, d := range in.Deliveries() {
		inBatch := map[string]bool{}
		for _, r := range d.Rows {
			l, _ := r["ids"].([]any)
			if len(l) == 0 {
				res.Add(pbt.D("bad-row", "row without ids: %v", r))
				continue
			}
			var ids []int64
			for _, e := range l {
				f, _ := gen.ToFloat(e)
				ids = append(ids, int64(f))
			}
			if ids[0] < 0 {
				continue
			}
			k := owner[ids[0]]
			for _, id := range ids {
				if owner[id] != k {
					res.Add(pbt.D("groups-merged", "one result row aggregates ids %v of different key tuples %q and %q (%s window)", ids, k, owner[id], c.Window))
					break
				}
			}
			if inBatch[k] {
				res.Add(pbt.D("group-split", "tuple %q has two result rows in one batch (%s window): %v", k, c.Window, d.Rows))
			}
			inBatch[k] = true
			got[k] = append(got[k], ids...)
			if cnt, _ := gen.ToFloat(r["c"]); int(cnt) != len(ids) {
				res.Add(pbt.D("wrong-count", "count(*)=%v but %d ids", r["c"], len(ids)))
			}
			for i := range c.Keys {
				kc := c.outName(i)
				wv := tupleVals[k][i]
				g, present := r[kc]
				if !present {
					res.Add(pbt.D("wrong-key-col", "tuple %q: the result row has no column %s (selected name of %s); row %v (%s window)", k, kc, c.Keys[i], r, c.Window))
					continue
				}
				ok := false
				if wv.IsNull() {
					ok = g == nil
				} else if wv.K == "int" || wv.K == "int64" {
					switch x := g.(type) {
					case int:
						ok = int64(x) == wv.I
					case int64:
						ok = x == wv.I
					default:
						gf, gok := gen.ToFloat(g)
						ok = gok && gf == float64(wv.I) && wv.I < 1<<53 && wv.I > -(1<<53)
					}
				} else if f, isn := wv.Num(); isn {
					gf, gok := gen.ToFloat(g)
					ok = gok && gf == f
				} else {
					ok = g == wv.S
				}
				if !ok {
					res.Add(pbt.D("wrong-key-col", "tuple %q: column %s reported as %#v want %s (%s window)", k, kc, g, wv, c.Window))
				}
			}
		}
	}
	for _, k := range order {
		var want []int64
		for _, id := range tupleIDs[k] {
			if mustFire[id] {
				want = append(want, id)
			}
		}
		g := append([]int64{}, got[k]...)
		sort.Slice(g, func(i, j int) bool { return g[i] < g[j] })
		if fmt.Sprint(g) != fmt.Sprint(want) {
			if len(want) == 0 && len(g) == 0 {
				continue
			}
			res.Add(pbt.D("wrong-partition", "tuple %q (%s window): rows aggregated %v, want %v", k, c.Window, g, want))
		}
	}
	// classes
	sepVal, nullGroup := false, false
	for _, k := range order {
		for _, v := range tupleVals[k] {
			if v.IsNull() {
				nullGroup = true
			}
			if v.K == "str" && strings.ContainsAny(v.S, "|,\x1f\x00") {
				sepVal = true
			}
		}
	}
	colliding := false
	for _, sep := range []string{"|", "\x1f", ","} {
		seen := map[string]string{}
		for _, k := range order {
			j := naiveJoin(tupleVals[k], sep)
			if o, ok := seen[j]; ok && o != k {
				colliding = true
			}
			seen[j] = k
		}
	}
	res.Class("window:" + c.Window)
	if colliding {
		res.Class("colliding-pair")
	}
	if nullGroup {
		res.Class("null-group")
	}
	if c.Upper || c.KeyFn != "" {
		res.Class("function-key")
	}
	if c.KeyFn != "" {
		res.Class("function-key:" + c.KeyFn)
	}
	if c.NearInt {
		res.Class("near-int-pair")
	} else if c.NearPair {
		res.Class("near-float-pair")
	}
	res.NonTrivial = (len(c.Keys) >= 2 && sepVal) || nullGroup || colliding
	return
}

var spec = pbt.Spec[Case]{
	ID:          "C04",
	Rule:        "generated: 0-3 grouping columns (one scalar type each: strings from a pool built to collide under naive joins, small ints, floats incl. planted pairs that differ only beyond float32 precision or in the last bits; NULL and missing; optionally upper(k1), lower(k1), length(k1), abs(k1) or floor(k1) as function key, the last three mapping several raw values to one key), rows drawn from a pool of 1-6 key tuples and interleaved, run through an event-time tumbling window (one interval + flush), a counting window, an event-time session window (gap-free + flush) and a global window. oracle: typed reference partition (NULL != '', missing == NULL): every result row aggregates ids of one tuple only, at most one row per tuple per batch, reports the tuple under the selected names (plain or `k AS o_k` per column), and the union per tuple equals that tuple's rows that had to fire. non-trivial = >=2 columns with a separator-bearing value, or a NULL group, or two tuples whose '|', ',' or \\x1f joins coincide; distinct by case hash",
	Assumptions: []string{"input never dropped (block strategy)", "one scalar type per grouping column (1 vs '1' is outside the property)", "f(NULL) is not generated for function keys"},
	Gen:         genCase,
	Run:         runCase,
}

func TestProp(t *testing.T)    { pbt.RunProp(t, spec) }
func TestReplay(t *testing.T)  { pbt.RunReplay(t, spec) }
func TestWitness(t *testing.T) { pbt.RunWitnesses(t, spec) }
