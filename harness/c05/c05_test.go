package c05

import (
	"fmt"
	"github.com/rulego/streamsql"
	"github.com/rulego/streamsql/types"
	"runtime"
	"sort"
	"strconv"
	"strings"
	"sync"
	"sync/atomic"
	"testing"
	"time"

	"pgregory.net/rapid"
	"verifharness/internal/gen"
	"verifharness/internal/pbt"
	"verifharness/internal/run"
)

// Case: one non-aggregate query and a history of rows.
type Case struct {
	Items    []Item    `json:"items"`
	Where    *Pred     `json:"where,omitempty"`
	Rows     []gen.Row `json:"rows"`
	Pauses   []int     `json:"pauses,omitempty"` // producer schedule of the Emit-driven instance (per row)
	Solo     []int     `json:"solo,omitempty"`   // history positions replayed alone on a fresh instance
	Load     int       `json:"load,omitempty"`   // > 0: ordering-under-load run with this many rows
	Conc     int       `json:"conc,omitempty"`   // > 0: this many goroutines call EmitSync concurrently (plus one Emit producer) on one instance
	Throttle bool      `json:"throttle,omitempty"`
	Expand   bool      `json:"expand,omitempty"`    // load run: expand overflow strategy with a tiny input buffer (channel migrations)
	SlowChan bool      `json:"slow_chan,omitempty"` // load run: the channel consumer stalls now and then, so the 100-slot channel overflows
}

// ---- schema ------------------------------------------------------------------------------------
//
// flat: id (int, unique, always present), a (int), b (float64), c (int/int64/float64 per row),
// score (int; the name contains "OR"), s, t, brand (strings; "brand" contains "AND"), f (bool),
// w (exotic numeric widths, pass-through only), n (always NULL), zz (never present).
// nested: d = {a:{b:num, s:str}, x:str, l:[num, str, {k:num}]}, arr = [num, num, str, {k:str}, [num,num]],
// m = {k:str, k2:num}. Any component may be NULL or absent, lists may be shorter.

var numPaths = []string{"a", "b", "c", "score", "id", "d.a.b", "d.l[0]", "d.l[2].k", "arr[0]", "arr[1]", "arr[4][0]", "arr[4][1]", "m['k2']", "m[\"k2\"]", "d.l[2]['k']"}
var strPaths = []string{"s", "t", "brand", "d.x", "d.a.s", "d.l[1]", "arr[2]", "arr[3].k", "arr[3]['k']", "m['k']", "m[\"k\"]"}
var otherPaths = []string{"f", "n", "zz", "w", "d", "d.a", "d.l", "arr", "arr[3]", "arr[4]", "m", "arr[-1]", "arr[-2]", "d.l[-1]", "arr[-1][0]", "d.l[-1].k",
	"d.q", "d.a.q.r", "arr[9]", "arr[-9]", "m['nokey']", "a.x", "s[0]", "zz.y", "zz[0]", "n.x", "d.l[5]", "d.x.y", "arr[0][0]"}

var strPool = []string{"x", "y", "hi", "a b", "", "5"}

func numVal(t *rapid.T, kind string, label string) gen.Val {
	switch kind {
	case "int":
		return gen.Int(int64(rapid.IntRange(-3, 8).Draw(t, label)))
	case "float":
		return gen.Float(float64(rapid.IntRange(-8, 24).Draw(t, label)) / 4)
	default:
		switch rapid.IntRange(0, 7).Draw(t, label+"k") {
		case 0:
			return gen.Int(int64(rapid.IntRange(-3, 8).Draw(t, label)))
		case 1:
			return gen.Int64(int64(rapid.IntRange(-3, 8).Draw(t, label)))
		case 2:
			// other Go widths, and unsigned values that do not fit an int64
			switch rapid.IntRange(3, 5).Draw(t, label+"w") {
			case 3:
				return gen.Val{K: "uint32", U: uint64(rapid.IntRange(0, 8).Draw(t, label+"u"))}
			case 4:
				return gen.Val{K: "int8", I: int64(rapid.IntRange(-3, 8).Draw(t, label))}
			default:
				return gen.Val{K: "float32", F: strconv.FormatFloat(float64(rapid.IntRange(-8, 24).Draw(t, label))/4, 'g', -1, 64)}
			}
		default:
			return gen.Float(float64(rapid.IntRange(-8, 24).Draw(t, label)) / 4)
		}
	}
}

func strVal(t *rapid.T, label string) gen.Val {
	pool := strPool
	if label == "arr2" && pbt.Open("C05", "negative-index-numeric-string") {
		// known finding: arr[-1] / arr[-2] turn a numeric-looking string element into a number
		pool = []string{"x", "y", "hi", "a b", ""}
	}
	return gen.Str(rapid.SampledFrom(pool).Draw(t, label))
}

// hole: 0 value, 1 NULL, 2 missing
func hole(t *rapid.T, label string, full bool) int {
	if full {
		return 0
	}
	x := rapid.IntRange(0, 9).Draw(t, label)
	if x == 0 {
		return 1
	}
	if x == 1 {
		return 2
	}
	return 0
}

func holed(t *rapid.T, label string, full bool, mk func() gen.Val) gen.Val {
	switch hole(t, label+"h", full) {
	case 1:
		return gen.Nil()
	case 2:
		return gen.Missing()
	}
	return mk()
}

// listOf truncates a list with some probability (absent tail); elements that drew "missing" become NULL.
func listOf(t *rapid.T, label string, full bool, elems ...gen.Val) gen.Val {
	n := len(elems)
	if !full && rapid.IntRange(0, 4).Draw(t, label+"trunc") == 0 {
		n = rapid.IntRange(0, len(elems)).Draw(t, label+"len")
	}
	out := make([]gen.Val, n)
	for i := 0; i < n; i++ {
		out[i] = elems[i]
		if out[i].IsMissing() {
			out[i] = gen.Nil()
		}
	}
	return gen.List(out...)
}

func genTop(t *rapid.T, col string, full bool) gen.Val {
	switch col {
	case "a", "score":
		return holed(t, col, full, func() gen.Val { return numVal(t, "int", col) })
	case "b":
		return holed(t, col, full, func() gen.Val { return numVal(t, "float", col) })
	case "c":
		return holed(t, col, full, func() gen.Val { return numVal(t, "mixed", col) })
	case "s", "t", "brand":
		return holed(t, col, full, func() gen.Val { return strVal(t, col) })
	case "f":
		return holed(t, col, full, func() gen.Val { return gen.Bool(rapid.Bool().Draw(t, "f")) })
	case "w":
		return holed(t, col, full, func() gen.Val {
			switch rapid.IntRange(0, 4).Draw(t, "wk") {
			case 0:
				return gen.Val{K: "int8", I: int64(rapid.IntRange(-100, 100).Draw(t, "w"))}
			case 1:
				return gen.Val{K: "uint16", U: uint64(rapid.IntRange(0, 60000).Draw(t, "w"))}
			case 2:
				return gen.Val{K: "float32", F: strconv.FormatFloat(float64(rapid.IntRange(-8, 24).Draw(t, "w"))/4, 'g', -1, 64)}
			case 3:
				return gen.Val{K: "uint64", U: uint64(rapid.IntRange(0, 1000000).Draw(t, "w"))}
			default:
				return gen.Int64(int64(rapid.IntRange(-1000000, 1000000).Draw(t, "w")))
			}
		})
	case "n":
		return gen.Nil()
	case "d":
		return holed(t, "d", full, func() gen.Val {
			da := holed(t, "d.a", full, func() gen.Val {
				return gen.Map(map[string]gen.Val{
					"b": holed(t, "d.a.b", full, func() gen.Val { return numVal(t, "mixed", "d.a.b") }),
					"s": holed(t, "d.a.s", full, func() gen.Val { return strVal(t, "d.a.s") }),
				})
			})
			dl := holed(t, "d.l", full, func() gen.Val {
				return listOf(t, "d.l", full,
					holed(t, "d.l0", full, func() gen.Val { return numVal(t, "int", "d.l0") }),
					holed(t, "d.l1", full, func() gen.Val { return strVal(t, "d.l1") }),
					holed(t, "d.l2", full, func() gen.Val {
						return gen.Map(map[string]gen.Val{"k": holed(t, "d.l2k", full, func() gen.Val { return numVal(t, "float", "d.l2k") })})
					}))
			})
			return gen.Map(map[string]gen.Val{"a": da, "x": holed(t, "d.x", full, func() gen.Val { return strVal(t, "d.x") }), "l": dl})
		})
	case "arr":
		return holed(t, "arr", full, func() gen.Val {
			return listOf(t, "arr", full,
				holed(t, "arr0", full, func() gen.Val { return numVal(t, "int", "arr0") }),
				holed(t, "arr1", full, func() gen.Val { return numVal(t, "float", "arr1") }),
				holed(t, "arr2", full, func() gen.Val { return strVal(t, "arr2") }),
				holed(t, "arr3", full, func() gen.Val {
					return gen.Map(map[string]gen.Val{"k": holed(t, "arr3k", full, func() gen.Val { return strVal(t, "arr3k") })})
				}),
				holed(t, "arr4", full, func() gen.Val {
					return listOf(t, "arr4", full,
						holed(t, "arr40", full, func() gen.Val { return numVal(t, "int", "arr40") }),
						holed(t, "arr41", full, func() gen.Val { return numVal(t, "mixed", "arr41") }))
				}))
		})
	case "m":
		return holed(t, "m", full, func() gen.Val {
			return gen.Map(map[string]gen.Val{
				"k":  holed(t, "m.k", full, func() gen.Val { return strVal(t, "m.k") }),
				"k2": holed(t, "m.k2", full, func() gen.Val { return numVal(t, "mixed", "m.k2") }),
			})
		})
	}
	panic("unknown column " + col)
}

var topCols = []string{"a", "b", "c", "score", "s", "t", "brand", "f", "w", "n", "d", "arr", "m"}

// genRow draws one row; solid paths always resolve to a typed non-NULL value (by construction: the
// top-level column of a solid path is drawn without holes).
func genRow(t *rapid.T, id int, solid map[string]bool) gen.Row {
	r := gen.Row{"id": gen.Int(int64(id))}
	for _, col := range topCols {
		v := genTop(t, col, solid[col])
		if v.IsMissing() {
			continue
		}
		r[col] = v
	}
	// big: an unsigned value beyond int64 (never referenced by WHERE: comparing such a value is a recorded finding)
	switch x := rapid.IntRange(0, 7).Draw(t, "big"); {
	case x < 3:
		r["big"] = gen.Val{K: "uint64", U: 1<<63 + uint64(rapid.IntRange(0, 4096).Draw(t, "bigu"))}
	case x < 5:
		r["big"] = gen.Val{K: "uint64", U: ^uint64(0) - uint64(rapid.IntRange(0, 4096).Draw(t, "bigu"))}
	case x < 6:
		r["big"] = gen.Val{K: "uint", U: 1<<63 + uint64(rapid.IntRange(0, 4096).Draw(t, "bigu"))}
	case x < 7:
		r["big"] = gen.Nil()
	}
	return r
}

// ---- query generator ---------------------------------------------------------------------------

func dottedNeg(p string) bool { return strings.Contains(p, ".") && strings.Contains(p, "[-") }

// negThenIndex: a negative index followed by another index step (arr[-1][0]).
func negThenIndex(p Path) (prefix Path, ok bool) {
	for i, s := range p {
		if s.T == "i" && s.I < 0 && i+1 < len(p) && p[i+1].T == "i" {
			return p[:i+1], true
		}
	}
	return nil, false
}

// otherPool: the open findings dotted-negative-index and negative-index-into-string remove
// d.l[-1], d.l[-1].k and arr[-1][0] from the pool.
func otherPool() []string {
	var out []string
	for _, p := range otherPaths {
		if dottedNeg(p) && pbt.Open("C05", "dotted-negative-index") {
			continue
		}
		if _, ni := negThenIndex(parsePath(p)); ni && pbt.Open("C05", "negative-index-into-string") {
			continue
		}
		out = append(out, p)
	}
	return out
}

func pick(t *rapid.T, pool []string, label string) string {
	return rapid.SampledFrom(pool).Draw(t, label)
}

func genOperandPath(t *rapid.T) Path {
	if rapid.IntRange(0, 5).Draw(t, "bigoperand") == 0 {
		return parsePath("big") // unsigned values that do not fit an int64: only ever an arithmetic operand
	}
	return parsePath(pick(t, numPaths, "numpath"))
}

var arithLits = []string{"1", "2", "3", "10", "0.5", "2.5", "4"}

func genArith(t *rapid.T) *Arith {
	n := 2
	if rapid.IntRange(0, 2).Draw(t, "three") == 0 {
		n = 3
	}
	a := &Arith{}
	if n == 3 {
		a.Paren = rapid.IntRange(0, 2).Draw(t, "paren")
	}
	for i := 0; i < n-1; i++ {
		a.Ops = append(a.Ops, pick(t, []string{"+", "-", "*", "/"}, "aop"))
	}
	if a.Paren == 2 && a.Ops[0] == "/" {
		a.Ops[0] = "*" // the divisor is always a non-zero literal
	}
	for i := 0; i < n; i++ {
		mustLit := i > 0 && a.Ops[i-1] == "/"
		if a.Paren == 2 && i == 1 && a.Ops[0] == "/" {
			mustLit = true
		}
		if mustLit || (i > 0 && rapid.IntRange(0, 2).Draw(t, "litarg") == 0) {
			a.Args = append(a.Args, Operand{Num: pick(t, arithLits, "alit")})
		} else {
			a.Args = append(a.Args, Operand{Path: genOperandPath(t)})
		}
	}
	if a.usesBig() && pbt.Open("C05", "unsigned-beyond-int64-exprlang") {
		// known finding: an item with parentheses, brackets, quotes or a nested path goes to expr-lang, whose integer
		// arithmetic wraps such values; keep the item one the engine's own evaluator handles
		a.Paren = 0
		for i, o := range a.Args {
			if len(o.Path) > 0 && !flatPath(o.Path) {
				a.Args[i] = Operand{Num: "2"}
			}
		}
	}
	return a
}

// flatPath: a plain top-level column.
func flatPath(p Path) bool { return len(p) == 1 && !strings.ContainsAny(p.String(), ".[") }

// allFlat: every column operand is a plain top-level column.
func (a *Arith) allFlat() bool {
	for _, o := range a.Args {
		if len(o.Path) > 0 && !flatPath(o.Path) {
			return false
		}
	}
	return true
}

// usesBig: some operand is the column big (unsigned values beyond int64).
func (a *Arith) usesBig() bool {
	for _, o := range a.Args {
		if len(o.Path) == 1 && o.Path[0].N == "big" {
			return true
		}
	}
	return false
}

// hugeUnsigned: a uint / uint64 value that does not fit an int64.
func hugeUnsigned(v gen.Val) bool {
	return (v.K == "uint64" || v.K == "uint") && v.U > 1<<63-1
}

var aliasPool = []string{"x1", "x2", "x3", "x4", "x5", "x6", "x7", "x8", "res_1", "Out", "val"}
var colAliasPool = []string{"a", "b", "s", "t", "f", "n", "zz", "score", "d", "arr"} // an alias may reuse a column name

func genItems(t *rapid.T, forceID bool) []Item {
	var items []Item
	used := map[string]bool{}
	star := rapid.IntRange(0, 5).Draw(t, "star") == 0
	if star {
		items = append(items, Item{Kind: "star"})
		if rapid.IntRange(0, 1).Draw(t, "staronly") == 0 {
			return items
		}
	}
	n := rapid.IntRange(1, 6).Draw(t, "nitems")
	if forceID && !star {
		items = append(items, Item{Kind: "col", Path: parsePath("id")})
		used["id"] = true
	}
	for i := 0; i < n; i++ {
		var it Item
		k := rapid.IntRange(0, 21).Draw(t, "ikind")
		switch {
		case k < 9:
			it.Kind = "col"
			switch rapid.IntRange(0, 3).Draw(t, "pool") {
			case 0:
				it.Path = parsePath(pick(t, numPaths, "p"))
			case 1:
				it.Path = parsePath(pick(t, strPaths, "p"))
			default:
				it.Path = parsePath(pick(t, otherPool(), "p"))
			}
			if star && pbt.Open("C05", "star-with-plain-column") {
				// known finding: a plain column next to * is not projected; draw an expression instead
				it = Item{Kind: "arith", Ar: genArith(t)}
			}
		case k < 12:
			it.Kind = "str"
			it.Q = pick(t, []string{"'", "'", "\""}, "q")
			it.Lit = pick(t, []string{"lit", "hello world", "x:y", "p,q", "1.5", "d.a", "", "FROM", "a AS b", "v[0]"}, "slit")
		case k < 14:
			it.Kind = "num"
			pool := []string{"5", "0", "12", "2.5", "0.5", "-5", "-2.5", "-1"}
			if pbt.Open("C05", "bare-number-literal") {
				pool = []string{"-5", "-2.5", "-1", "-12", "-0.5"}
			}
			it.Lit = pick(t, pool, "nlit")
		case k == 14:
			// opaque expressions whose value is only required to be independent of the history: text concatenation over
			// flat columns that some rows lack, or a parenthesised equality of a column whose values change kind from
			// row to row (int, float, int64, text, NULL, absent)
			it.Kind = "concat"
			if rapid.Bool().Draw(t, "opaquecmp") {
				col := pick(t, []string{"a", "b", "c", "score", "w", "s"}, "cmpcol")
				it.Lit = "(" + col + " " + pick(t, []string{"==", "!="}, "cmpop") + " " + pick(t, []string{"5", "2", "0", "2.5", "'x'", "b"}, "cmplit") + ")"
				break
			}
			a, b := pick(t, []string{"s", "t", "brand"}, "ca"), pick(t, []string{"s", "t", "brand", "zz"}, "cb")
			it.Lit = a + " + " + pick(t, []string{"' '", "'-'", "''", "\"_\""}, "csep") + " + " + b
		case k >= 20:
			// a two-argument function over a nested path whose last segment is also the name of a top-level column
			// (d.a.b / b, d.a.s / s, d.b / b): the argument is the path, never the top-level column
			it.Kind = "ifnull"
			it.Path = parsePath(pick(t, []string{"d.a.b", "d.a.s", "d.b", "d.s", "d.x", "d.q", "d.a.q.r", "a.x", "zz.y", "d.l[0]", "b", "s"}, "ifnullpath"))
			it.Lit = pick(t, []string{"7", "-1", "0.5"}, "ifnulllit")
		default:
			it.Kind = "arith"
			it.Ar = genArith(t)
		}
		// alias
		needAlias := it.Kind == "num" || it.Kind == "arith" || it.Kind == "concat" || it.Kind == "ifnull" || star
		if it.Kind == "str" && (it.Lit == "" || rapid.IntRange(0, 3).Draw(t, "stralias") != 0) {
			needAlias = true
		}
		if it.Kind == "str" && !needAlias && strings.Contains(it.Lit, ":") && pbt.Open("C05", "unaliased-literal-colon") {
			needAlias = true
		}
		if it.Kind == "col" && rapid.IntRange(0, 1).Draw(t, "colalias") == 0 {
			needAlias = true
		}
		if !needAlias && used[it.outName()] {
			needAlias = true
		}
		if needAlias {
			it.Kw = pick(t, []string{"AS", "AS", "as"}, "kw")
			pool := aliasPool
			if !star && rapid.IntRange(0, 5).Draw(t, "colnamealias") == 0 {
				pool = colAliasPool
			}
			it.Alias = pick(t, pool, "alias")
			for j := 0; used[it.Alias]; j++ {
				it.Alias = fmt.Sprintf("y%d", j)
			}
			if rapid.IntRange(0, 9).Draw(t, "tick") == 0 && !(exprLike(it) && pbt.Open("C05", "backtick-alias-on-expression")) {
				it.Tick = true // known finding: on expression items the backticks stay in the key
			}
		}
		used[it.outName()] = true
		items = append(items, it)
	}
	// an unaliased column item must not equal an alias chosen later
	seen := map[string]int{}
	for _, it := range items {
		if it.Kind != "star" {
			seen[it.outName()]++
		}
	}
	for i := range items {
		if items[i].Kind != "star" && seen[items[i].outName()] > 1 && items[i].Alias == "" {
			seen[items[i].outName()]--
			items[i].Alias = fmt.Sprintf("z%d", i)
			items[i].Kw = "AS"
		}
	}
	return items
}

func numLit(t *rapid.T) string {
	if rapid.IntRange(0, 2).Draw(t, "litfloat") == 0 {
		return strconv.FormatFloat(float64(rapid.IntRange(-8, 24).Draw(t, "wl"))/4, 'f', -1, 64)
	}
	return strconv.Itoa(rapid.IntRange(-3, 8).Draw(t, "wl"))
}

func genLeaf(t *rapid.T) Pred {
	l := Pred{Op: "cmp"}
	nested := rapid.IntRange(0, 3).Draw(t, "wnested") == 0
	if rapid.IntRange(0, 3).Draw(t, "wstr") == 0 {
		l.IsStr = true
		pool := []string{"s", "t", "brand"}
		if nested {
			pool = strPaths[3:]
		}
		l.Path = parsePath(pick(t, pool, "wpath"))
		l.Cmp = pick(t, []string{"==", "="}, "wop")
		l.Lit = pick(t, strPool, "wslit")
		if l.Lit == "5" && strings.HasPrefix(l.Path.String(), "arr[2]") && pbt.Open("C05", "negative-index-numeric-string") {
			l.Lit = "hi" // the barrier row would carry "5" as a list element
		}
	} else {
		pool := []string{"a", "b", "c", "score", "a", "b"}
		if nested {
			pool = numPaths[5:]
		}
		l.Path = parsePath(pick(t, pool, "wpath"))
		l.Cmp = pick(t, []string{">", ">=", "<", "<=", "==", "="}, "wop")
		l.Lit = numLit(t)
	}
	l.Par = rapid.IntRange(0, 7).Draw(t, "wpar") == 0
	return l
}

func genWhere(t *rapid.T) *Pred {
	switch k := rapid.IntRange(0, 9).Draw(t, "wkind"); {
	case k == 0:
		return nil
	case k < 5:
		l := genLeaf(t)
		return &l
	default:
		op := pick(t, []string{"and", "or"}, "wjoin")
		p := Pred{Op: op}
		n := rapid.IntRange(2, 3).Draw(t, "wn")
		for i := 0; i < n; i++ {
			if rapid.IntRange(0, 3).Draw(t, "wsub") == 0 {
				other := "and"
				if op == "and" {
					other = "or"
				}
				p.Kids = append(p.Kids, Pred{Op: other, Kids: []Pred{genLeaf(t), genLeaf(t)}})
			} else {
				p.Kids = append(p.Kids, genLeaf(t))
			}
		}
		return &p
	}
}

func topOf(p Path) string { return p[0].N }

func genCase(t *rapid.T) Case {
	var c Case
	if x := rapid.IntRange(0, 59).Draw(t, "load"); x == 41 || x == 23 { // rapid favours the ends of a range: take inner values
		c.Load = rapid.IntRange(1500, 2500).Draw(t, "loadn")
		switch rapid.IntRange(0, 2).Draw(t, "loadmode") {
		case 1:
			c.Throttle = true
		case 2:
			c.SlowChan = true
		}
		c.Expand = rapid.Bool().Draw(t, "loadexpand")
	}
	if x := rapid.IntRange(0, 23).Draw(t, "conc"); c.Load == 0 && (x == 7 || x == 13) {
		c.Conc = rapid.IntRange(2, 4).Draw(t, "concn")
	}
	c.Items = genItems(t, c.Load > 0)
	c.Where = genWhere(t)
	// columns that must be present and typed in every row
	solid := map[string]bool{}
	if c.Where != nil && c.Where.hasOr() && pbt.Open("C05", "unknown-aborts-or") {
		// known finding: an UNKNOWN comparison evaluated before a TRUE operand of OR rejects the row.
		// Keep every compared path typed and present when the predicate contains OR.
		// (Equality on a flat column does not raise and may stay NULL/absent.)
		c.Where.leaves(func(l Pred) {
			if l.Path.nested() || (l.Cmp != "==" && l.Cmp != "=") {
				solid[topOf(l.Path)] = true
			}
		})
	}
	n := rapid.IntRange(1, 30).Draw(t, "nrows")
	if rapid.IntRange(0, 3).Draw(t, "short") == 0 {
		n = rapid.IntRange(1, 4).Draw(t, "nrows2")
	}
	for i := 0; i < n; i++ {
		c.Rows = append(c.Rows, genRow(t, i, solid))
		p := 0
		switch x := rapid.IntRange(0, 99).Draw(t, "pause"); {
		case x < 85:
			p = 0
		case x < 93:
			p = 1
		case x < 98:
			p = 2
		default:
			p = 3
		}
		c.Pauses = append(c.Pauses, p)
	}
	ns := rapid.IntRange(1, 3).Draw(t, "nsolo")
	for i := 0; i < ns; i++ {
		c.Solo = append(c.Solo, rapid.IntRange(0, n-1).Draw(t, "solo"))
	}
	return c
}

// ---- running -----------------------------------------------------------------------------------

func sqlOf(c Case) string {
	parts := make([]string, len(c.Items))
	for i, it := range c.Items {
		parts[i] = it.text()
	}
	q := "SELECT " + strings.Join(parts, ", ") + " FROM stream"
	if c.Where != nil {
		q += " WHERE " + c.Where.String()
	}
	return q
}

// barrierRow finds a row the reference accepts (and which holds no UNKNOWN comparison): a history
// row if one passes, otherwise a synthesised assignment of the compared paths; nil if none exists.
func barrierRow(c Case) gen.Row {
	ok := func(r gen.Row) bool {
		v, ab := evalAbort(c.Where, r)
		return evalSQL(c.Where, r) == tvTrue && v && !ab
	}
	if c.Where == nil {
		return gen.Row{"id": gen.Int(-1)}
	}
	var leaves []Pred
	c.Where.leaves(func(l Pred) { leaves = append(leaves, l) })
	type cand struct {
		p    Path
		vals []gen.Val
	}
	idx := map[string]int{}
	var cs []cand
	for _, l := range leaves {
		key := l.Path.String()
		i, seen := idx[key]
		if !seen {
			i = len(cs)
			idx[key] = i
			cs = append(cs, cand{p: l.Path})
		}
		if l.IsStr {
			cs[i].vals = append(cs[i].vals, gen.Str(l.Lit), gen.Str(l.Lit+"_other"))
		} else {
			f, _ := strconv.ParseFloat(l.Lit, 64)
			cs[i].vals = append(cs[i].vals, gen.Float(f-1), gen.Float(f), gen.Float(f+1))
		}
	}
	total := 1
	for _, x := range cs {
		total *= len(x.vals)
		if total > 200000 {
			return nil
		}
	}
	for n := 0; n < total; n++ {
		r := gen.Row{"id": gen.Int(-1)}
		k := n
		for _, x := range cs {
			setPath(r, x.p, x.vals[k%len(x.vals)])
			k /= len(x.vals)
		}
		if ok(r) {
			return r
		}
	}
	return nil
}

type asyncOut struct {
	sink    []string // canonical rows seen by the sync sink, in order
	ch      []string // canonical rows received from ToChannel(), in order
	maxLag  int64    // max over deliveries of (results handed to the channel) - (results received)
	dropped int64    // output_dropped_count
	arrived bool     // the expected number of sync-sink rows arrived before the deadline
	slow    int64    // invocations of the slow async sink
	err     error
}

// driveAsync feeds rows through Emit on a fresh instance and collects the sync-sink and channel
// sequences. wantRows is the number of results that must reach the sync sink (from the EmitSync
// instance); hasBarrier tells whether the last row is a barrier that the reference accepts.
func driveAsync(q string, rows []map[string]any, pauses []int, wantRows int, hasBarrier bool, slowSink, throttle, slowChan bool, expand ...bool) asyncOut {
	var out asyncOut
	var opts []streamsql.Option
	if len(expand) > 0 && expand[0] {
		// expand strategy, tiny input buffer, ceiling above the load: the channel is migrated many times, nothing is dropped
		pc := types.DefaultPerformanceConfig()
		pc.BufferConfig.DataChannelSize = 8
		pc.BufferConfig.MaxBufferSize = 1 << 20
		pc.OverflowConfig.Strategy = "expand"
		pc.OverflowConfig.ExpansionConfig = types.ExpansionConfig{GrowthFactor: 1.2, MinIncrement: 8, TriggerThreshold: 0.5, ExpansionTimeout: 5 * time.Second}
		opts = []streamsql.Option{streamsql.WithCustomPerformance(pc)}
	}
	in, err := run.Open(q, opts...)
	if err != nil {
		out.err = err
		return out
	}
	var received, handed atomic.Int64
	var maxLag atomic.Int64
	quit := make(chan struct{})
	var chRows []string
	var wg sync.WaitGroup
	ch := in.S.ToChannel()
	wg.Add(1)
	go func() {
		defer wg.Done()
		for {
			select {
			case batch := <-ch:
				for _, r := range batch {
					chRows = append(chRows, canonRow(r))
				}
				if n := received.Add(int64(len(batch))); slowChan && (n == 60 || n == 500 || n == 1100) {
					time.Sleep(40 * time.Millisecond) // a slow consumer: the engine may drop, but must keep the order
				}
			case <-quit:
				// take what is already buffered, then leave
				for {
					select {
					case batch := <-ch:
						for _, r := range batch {
							chRows = append(chRows, canonRow(r))
						}
						received.Add(int64(len(batch)))
					default:
						return
					}
				}
			}
		}
	}()
	// second sync sink: runs inline after the result was offered to the channel; measures the
	// consumer's lag and (optionally) holds the pipeline while the consumer is far behind, so that
	// the 100-slot result channel can never be full.
	in.S.AddSyncSink(func(rs []map[string]any) {
		h := handed.Add(int64(len(rs)))
		lag := h - received.Load()
		for {
			old := maxLag.Load()
			if lag <= old || maxLag.CompareAndSwap(old, lag) {
				break
			}
		}
		if throttle {
			end := time.Now().Add(5 * time.Second)
			for h-received.Load() > 40 && time.Now().Before(end) {
				runtime.Gosched()
			}
		}
	})
	var slow atomic.Int64
	if slowSink {
		in.S.AddSink(func(rs []map[string]any) {
			time.Sleep(100 * time.Microsecond)
			slow.Add(1)
		})
	}
	for i, r := range rows {
		in.Emit(r)
		if i < len(pauses) {
			switch pauses[i] {
			case 1:
				runtime.Gosched()
			case 2:
				time.Sleep(50 * time.Microsecond)
			case 3:
				time.Sleep(time.Millisecond)
			}
		}
	}
	if hasBarrier {
		out.arrived = in.WaitRows(pbt.Wait(10*time.Second), wantRows)
	} else {
		// no row can pass the predicate: nothing to wait for; let the input drain, then Stop joins
		// the processing goroutine (a late extra result could only be missed, never invented)
		end := time.Now().Add(pbt.Wait(5 * time.Second))
		for time.Now().Before(end) {
			st := in.S.GetStats()
			if st["data_chan_len"] == 0 {
				break
			}
			time.Sleep(200 * time.Microsecond)
		}
		time.Sleep(2 * time.Millisecond)
		out.arrived = true
	}
	if out.arrived {
		// everything the sync sink saw was offered to the channel before; give the consumer time to take it
		end := time.Now().Add(pbt.Wait(5 * time.Second))
		for received.Load() < handed.Load() && len(ch) > 0 && time.Now().Before(end) {
			runtime.Gosched()
		}
	}
	out.dropped = in.S.GetStats()["output_dropped_count"]
	in.Stop()
	close(quit)
	wg.Wait()
	for _, r := range in.Rows() {
		out.sink = append(out.sink, canonRow(r))
	}
	out.ch = chRows
	out.maxLag = maxLag.Load()
	out.slow = slow.Load()
	return out
}

func firstDiff(a, b []string) int {
	n := len(a)
	if len(b) < n {
		n = len(b)
	}
	for i := 0; i < n; i++ {
		if a[i] != b[i] {
			return i
		}
	}
	if len(a) != len(b) {
		return n
	}
	return -1
}

func at(a []string, i int) string {
	if i < len(a) {
		return a[i]
	}
	return "<end of sequence>"
}

func isSubsequence(sub, full []string) (bool, int) {
	j := 0
	for i, s := range sub {
		for j < len(full) && full[j] != s {
			j++
		}
		if j == len(full) {
			return false, i
		}
		j++
	}
	return true, -1
}

func clip(s string) string {
	if len(s) > 400 {
		return s[:400] + "…"
	}
	return s
}

func runCase(c Case) (res pbt.Result) {
	q := sqlOf(c)
	run.ResetExprCaches() // the case is the whole history the process-wide expression caches have seen
	a, err := run.Open(q)
	if err != nil {
		res.Class("rejected-at-execute")
		res.Count("rejected", 1)
		return
	}
	defer a.Stop()

	rows := append([]gen.Row{}, c.Rows...)
	bar := barrierRow(c)
	if bar != nil {
		rows = append(rows, bar)
	}

	// ---- instance A: EmitSync; oracle (a): reference filter + projection
	var retA []string
	perRow := make([]string, len(rows)) // what EmitSync answered for each row
	passing, filtered := 0, 0
	for i, r := range rows {
		got, err := a.S.EmitSync(r.Go())
		if err != nil {
			res.Add(pbt.D("emitsync-error", "%s: EmitSync(%v) returned error %v", q, r, err))
			return
		}
		want := evalSQL(c.Where, r) == tvTrue
		if i < len(c.Rows) {
			if want {
				passing++
			} else {
				filtered++
			}
		}
		if got != nil {
			retA = append(retA, canonRow(got))
		}
		perRow[i] = canonRow(got)
		switch {
		case want && got == nil:
			res.Add(pbt.D("where-dropped", "%s: row %v satisfies the WHERE predicate but EmitSync returned no result", q, r))
		case !want && got != nil:
			res.Add(pbt.D("where-passed", "%s: the WHERE predicate is not true for row %v but EmitSync returned %s", q, r, clip(canonRow(got))))
		case want:
			exp := project(c.Items, r)
			var wantKeys, gotKeys []string
			for k := range exp {
				wantKeys = append(wantKeys, k)
			}
			for k := range got {
				gotKeys = append(gotKeys, k)
			}
			sort.Strings(wantKeys)
			sort.Strings(gotKeys)
			if strings.Join(wantKeys, "\x00") != strings.Join(gotKeys, "\x00") {
				res.Add(pbt.D("keyset", "%s: row %v: result keys %q, selected output names %q", q, r, gotKeys, wantKeys))
			}
			for _, k := range wantKeys {
				gv, present := got[k]
				if !present {
					continue
				}
				if !sameVal(exp[k], gv) {
					res.Add(pbt.D("value", "%s: row %v: column %q = %s, expected %s", q, r, k, clip(canon(gv)), clip(canon(exp[k].v))))
				}
			}
		}
		if len(res.Discs) > 6 {
			break
		}
	}
	if len(res.Discs) > 0 {
		classify(c, &res, passing, filtered)
		return
	}
	var sinkA []string
	for _, r := range a.Rows() {
		sinkA = append(sinkA, canonRow(r))
	}
	if i := firstDiff(retA, sinkA); i >= 0 {
		res.Add(pbt.D("path-sync-sink", "%s: EmitSync returns and the sync sink of the same instance differ at result #%d: returned %s, sink saw %s (returns %d, sink %d)", q, i, clip(at(retA, i)), clip(at(sinkA, i)), len(retA), len(sinkA)))
	}

	// ---- oracle (b): statelessness — row r alone on a fresh instance
	for _, si := range c.Solo {
		if si >= len(c.Rows) {
			continue
		}
		run.ResetExprCaches() // "alone" = first row the process ever evaluates for this query (instance A is idle)
		f, err := run.Open(q)
		if err != nil {
			res.Add(pbt.D("execute-unstable", "%s accepted once, rejected later: %v", q, err))
			break
		}
		got, err := f.S.EmitSync(c.Rows[si].Go())
		f.Stop()
		if err != nil {
			res.Add(pbt.D("emitsync-error", "%s: EmitSync on a fresh instance returned error %v", q, err))
			continue
		}
		// what A answered for that position
		wantS := "<none>"
		k := 0
		for j := 0; j <= si; j++ {
			if evalSQL(c.Where, c.Rows[j]) == tvTrue {
				if j == si {
					wantS = at(retA, k)
				}
				k++
			}
		}
		if canonRow(got) != wantS {
			res.Add(pbt.D("stateful", "%s: row #%d %v after %d earlier rows gave %s, alone on a fresh instance %s", q, si, c.Rows[si], si, clip(wantS), clip(canonRow(got))))
		}
	}

	// ---- oracle (c): path equality — instance B driven by Emit
	goRows := make([]map[string]any, len(rows))
	for i, r := range rows {
		goRows[i] = r.Go() // fresh copy per instance
	}
	b := driveAsync(q, goRows, c.Pauses, len(retA), bar != nil, false, false, false)
	if b.err != nil {
		res.Add(pbt.D("execute-unstable", "%s accepted once, rejected later: %v", q, b.err))
	} else {
		if !b.arrived || len(b.sink) < len(retA) {
			res.Add(pbt.D("missing-delivery", "%s: EmitSync produced %d results for the history, the Emit-driven instance delivered %d to its sync sink (waited)", q, len(retA), len(b.sink)))
		}
		if i := firstDiff(retA, b.sink); i >= 0 {
			res.Add(pbt.D("path-async-sink", "%s: result #%d: EmitSync returned %s, Emit delivered %s to the sync sink (EmitSync %d results, Emit %d)", q, i, clip(at(retA, i)), clip(at(b.sink, i)), len(retA), len(b.sink)))
		}
		if i := firstDiff(b.sink, b.ch); i >= 0 {
			res.Add(pbt.D("path-channel", "%s: result #%d: sync sink saw %s, ToChannel() gave %s (sink %d results, channel %d, output_dropped=%d)", q, i, clip(at(b.sink, i)), clip(at(b.ch, i)), len(b.sink), len(b.ch), b.dropped))
		}
	}

	// ---- oracle (d): ordering under load
	if c.Load > 0 && len(res.Discs) == 0 {
		runLoad(c, q, bar, &res)
	}
	// ---- oracle (e): the result of a row does not depend on what other callers do at the same time
	if c.Conc > 0 && len(res.Discs) == 0 {
		runConc(c, q, rows, perRow, &res)
	}
	classify(c, &res, passing, filtered)
	return
}

// runConc: Conc goroutines call EmitSync for every row of the history (several rounds) while one producer feeds the
// same rows through Emit; every EmitSync answer must be the one the row got when it was evaluated alone in sequence.
func runConc(c Case, q string, rows []gen.Row, perRow []string, res *pbt.Result) {
	e, err := run.Open(q)
	if err != nil {
		res.Add(pbt.D("execute-unstable", "%s accepted once, rejected later: %v", q, err))
		return
	}
	defer e.Stop()
	var wg sync.WaitGroup
	var mu sync.Mutex
	var first string
	calls := int64(0)
	rounds := 1 + 300/(len(rows)+1)
	for g := 0; g < c.Conc; g++ {
		wg.Add(1)
		go func(g int) {
			defer wg.Done()
			defer func() {
				if p := recover(); p != nil {
					mu.Lock()
					if first == "" {
						first = fmt.Sprintf("EmitSync panicked: %v", p)
					}
					mu.Unlock()
				}
			}()
			for r := 0; r < rounds; r++ {
				for i := range rows {
					j := (i + g) % len(rows)
					got, err := e.S.EmitSync(rows[j].Go())
					atomic.AddInt64(&calls, 1)
					if s := canonRow(got); s != perRow[j] || err != nil {
						mu.Lock()
						if first == "" {
							first = fmt.Sprintf("row %v: alone EmitSync gave %s, with %d concurrent callers it gave %s (err %v)", rows[j], clip(perRow[j]), c.Conc, clip(s), err)
						}
						mu.Unlock()
						return
					}
				}
			}
		}(g)
	}
	wg.Add(1)
	go func() {
		defer wg.Done()
		for r := 0; r < rounds; r++ {
			for i := range rows {
				e.Emit(rows[i].Go())
			}
		}
	}()
	wg.Wait()
	res.Count("concurrent_emitsync_calls", calls)
	res.Class("concurrent-emitsync")
	if first != "" {
		res.Add(pbt.D("concurrent-differs", "%s: %s", q, first))
	}
}

func runLoad(c Case, q string, bar gen.Row, res *pbt.Result) {
	res.Class("load")
	mk := func() []map[string]any {
		out := make([]map[string]any, 0, c.Load+1)
		for i := 0; i < c.Load; i++ {
			r := c.Rows[i%len(c.Rows)].Go()
			r["id"] = 1000 + i
			out = append(out, r)
		}
		if bar != nil {
			r := bar.Go()
			r["id"] = 1000 + c.Load
			out = append(out, r)
		}
		return out
	}
	// expected sequence from the synchronous path (already checked against the reference on the history)
	e, err := run.Open(q)
	if err != nil {
		return
	}
	var exp []string
	for _, r := range mk() {
		got, err := e.S.EmitSync(r)
		if err == nil && got != nil {
			exp = append(exp, canonRow(got))
		}
	}
	e.Stop()
	o := driveAsync(q, mk(), nil, len(exp), bar != nil, true, c.Throttle, c.SlowChan, c.Expand)
	if c.Expand {
		res.Class("load-expand")
	}
	if o.err != nil {
		return
	}
	res.Count("load_rows", int64(c.Load))
	res.Count("load_results", int64(len(exp)))
	res.Count("load_slow_sink_calls", o.slow)
	if !o.arrived || len(o.sink) < len(exp) {
		res.Add(pbt.D("missing-delivery", "%s under load (%d rows, slow async sink): %d results expected, sync sink saw %d", q, c.Load, len(exp), len(o.sink)))
	}
	if i := firstDiff(exp, o.sink); i >= 0 {
		res.Add(pbt.D("order-load-sink", "%s under load (%d rows): sync sink deviates from emission order at result #%d: expected %s, saw %s (expected %d, saw %d)", q, c.Load, i, clip(at(exp, i)), clip(at(o.sink, i)), len(exp), len(o.sink)))
	}
	if ok, i := isSubsequence(o.ch, exp); !ok {
		res.Add(pbt.D("order-load-chan", "%s under load (%d rows): channel batch #%d = %s is out of emission order (or was never produced)", q, c.Load, i, clip(at(o.ch, i))))
	} else if o.maxLag <= 85 && len(o.ch) != len(exp) {
		// the consumer was never more than 85 results behind, so the 100-slot channel was never full
		// and nothing may have been dropped
		res.Add(pbt.D("chan-lost", "%s under load (%d rows): consumer lag never exceeded %d (capacity 100) yet the channel delivered %d of %d results (output_dropped=%d)", q, c.Load, o.maxLag, len(o.ch), len(exp), o.dropped))
	}
	if o.maxLag <= 85 {
		res.Class("load-channel-complete")
	} else {
		res.Class("load-channel-lagged")
		res.Count("load_chan_missing", int64(len(exp)-len(o.ch)))
	}
	if o.dropped > 0 {
		res.Class("load-output-dropped")
	}
}

func classify(c Case, res *pbt.Result, passing, filtered int) {
	nested, missingRef := false, false
	refs := []Path{}
	hasStar := false
	for _, it := range c.Items {
		res.Class("item-" + it.Kind)
		switch it.Kind {
		case "star":
			hasStar = true
		case "col":
			refs = append(refs, it.Path)
			if it.Alias == "" && it.Path.nested() {
				res.Class("unaliased-nested-path")
			}
		case "arith":
			for _, o := range it.Ar.Args {
				if len(o.Path) > 0 {
					refs = append(refs, o.Path)
				}
			}
		}
	}
	if c.Where != nil {
		c.Where.leaves(func(l Pred) { refs = append(refs, l.Path) })
		if c.Where.Op == "cmp" {
			res.Class("where-leaf")
		} else {
			res.Class("where-" + c.Where.Op)
		}
	} else {
		res.Class("where-none")
	}
	unknownSeen := false
	for _, p := range refs {
		if p.nested() {
			nested = true
		}
		for _, r := range c.Rows {
			if _, ok := resolve(r, p); !ok {
				missingRef = true
			}
		}
	}
	if c.Where != nil {
		for _, r := range c.Rows {
			if evalSQL(c.Where, r) == tvUnk {
				unknownSeen = true
			}
		}
	}
	if hasStar {
		for _, r := range c.Rows {
			if len(r) < len(topCols)+1 {
				missingRef = true
			}
		}
	}
	if nested {
		res.Class("nested-ref")
	}
	if missingRef {
		res.Class("missing-ref")
	}
	if unknownSeen {
		res.Class("where-unknown-row")
	}
	if passing > 0 && filtered > 0 {
		res.Class("mixed-pass-filter")
	}
	res.Count("rows", int64(len(c.Rows)))
	res.Count("results", int64(passing))
	res.NonTrivial = passing > 0 && filtered > 0 && (nested || missingRef)
}

// exprLike: the engine routes the item through its expression table (rsql/ast.go
// ParseAggregateTypeWithExpression: operators, or the letters AND / OR anywhere in the text).
func exprLike(it Item) bool {
	switch it.Kind {
	case "star":
		return false
	case "col":
		txt := it.Path.String()
		up := strings.ToUpper(txt)
		return strings.ContainsAny(txt, "+-*/<>=!&|") || strings.Contains(up, "AND") || strings.Contains(up, "OR")
	}
	return true
}

// features names the known-finding shapes a case exhibits.
func features(c Case) []string {
	var f []string
	// an unsigned value beyond int64 that reaches expr-lang: as operand of a parenthesised arithmetic item, or through
	// a WHERE comparison
	exprlang := false
	for _, it := range c.Items {
		if it.Kind == "arith" && it.Ar != nil && (it.Ar.Paren != 0 || !it.Ar.allFlat()) {
			for _, o := range it.Ar.Args {
				if len(o.Path) == 0 {
					continue
				}
				for _, r := range c.Rows {
					if v, ok := resolve(r, o.Path); ok && hugeUnsigned(v) {
						exprlang = true
					}
				}
			}
		}
	}
	if c.Where != nil {
		c.Where.leaves(func(l Pred) {
			for _, r := range c.Rows {
				if v, ok := resolve(r, l.Path); ok && hugeUnsigned(v) {
					exprlang = true
				}
			}
		})
	}
	if exprlang {
		f = append(f, "unsigned-beyond-int64-exprlang")
	}
	hasStar, hasCol := false, false
	for _, it := range c.Items {
		switch it.Kind {
		case "star":
			hasStar = true
		case "col":
			hasCol = true
			if dottedNeg(it.Path.String()) {
				for _, r := range c.Rows {
					if v, ok := resolve(r, it.Path); ok && !v.IsNull() {
						if _, isNum := v.Num(); !isNum {
							f = append(f, "dotted-negative-index")
							break
						}
					}
				}
			}
		case "num":
			if !strings.HasPrefix(it.Lit, "-") {
				f = append(f, "bare-number-literal")
			}
		}
		if it.Tick && exprLike(it) {
			f = append(f, "backtick-alias-on-expression")
		}
		switch it.Kind {
		case "str":
			if it.Alias == "" && strings.Contains(it.Lit, ":") {
				f = append(f, "unaliased-literal-colon")
			}
		}
	}
	if hasStar && hasCol {
		f = append(f, "star-with-plain-column")
	}
	for _, it := range c.Items {
		if it.Kind != "col" || !strings.Contains(it.Path.String(), "[-") {
			continue
		}
		rows := c.Rows
		if bar := barrierRow(c); bar != nil {
			rows = append(append([]gen.Row{}, rows...), bar)
		}
		if pre, ni := negThenIndex(it.Path); ni {
			for _, r := range rows {
				if v, ok := resolve(r, pre); ok && v.K == "str" {
					f = append(f, "negative-index-into-string")
					break
				}
			}
		}
		for _, r := range rows {
			if v, ok := resolve(r, it.Path); ok && v.K == "str" {
				if _, err := strconv.ParseFloat(strings.TrimSpace(v.S), 64); err == nil {
					f = append(f, "negative-index-numeric-string")
				}
			}
		}
	}
	if c.Where != nil && c.Where.hasOr() {
		rows := c.Rows
		for _, r := range rows {
			v, ab := evalAbort(c.Where, r)
			if ab && !v && evalSQL(c.Where, r) == tvTrue {
				f = append(f, "unknown-aborts-or")
				break
			}
		}
	}
	return f
}

var spec = pbt.Spec[Case]{
	ID: "C05",
	Rule: "generated: non-aggregate SELECT lists (*, flat columns, aliases incl. aliases that reuse a column name, nested paths d.a.b / arr[1] / arr[-1] / m['k'] / m[\"k\"] with and without alias, paths that cannot resolve, string literals, numeric literals with alias, 2-3 term arithmetic over numeric columns/paths with alias) and WHERE predicates (typed column or path compared with a literal by > >= < <= == = on numbers, == = on strings; AND/OR up to depth 2, optional parentheses); histories of 1-30 rows with ints/int64/floats/exotic widths/strings/bools/NULL/missing fields, nested maps and lists with NULL, absent and truncated parts. " +
		"oracles: (a) reference Kleene filter + projection: a result exists iff the predicate is TRUE, key set == selected output names, missing source -> NULL, * -> all fields; (b) a sampled row alone on a fresh instance gives the same result as after its history; (c) EmitSync returns == its sync sink == sync sink of an Emit-driven instance == ToChannel() batches, as sequences; (d) 2% of cases: 1500-2500 rows with a slow async sink: sync sink == emission order, channel an order-preserving subsequence, and complete whenever the consumer never lagged more than 85 of the 100 slots. " +
		"(e) 8% of cases: 2-4 goroutines call EmitSync for the rows of the history concurrently with an Emit producer on one instance; every answer equals the sequential one. non-trivial = history contains a passing and a filtered row and the query references a nested path or a field some row lacks; distinct by case hash",
	Assumptions: []string{
		"input never dropped: WithOverflowStrategy(block,0)",
		"a barrier row the reference accepts is appended; when the sync sink has seen as many results as EmitSync produced, the single processing goroutine has finished the history",
		"an unaliased path is named by its text (docs/NESTED_FIELD_ACCESS.md), an unaliased string literal by its content (rsql/ast.go)",
		"the result channel may drop when full by design (stream/handler_result.go): completeness of the channel is required only when it provably never filled",
	},
	Gen:      genCase,
	Run:      runCase,
	Features: features,
}

func TestProp(t *testing.T)    { pbt.RunProp(t, spec) }
func TestReplay(t *testing.T)  { pbt.RunReplay(t, spec) }
func TestWitness(t *testing.T) { pbt.RunWitnesses(t, spec) }
