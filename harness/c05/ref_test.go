package c05

import (
	"fmt"
	"sort"
	"strconv"
	"strings"

	"verifharness/internal/gen"
)

// ---- paths -------------------------------------------------------------------------------------

// Step is one component of a field path: field (first component or ".name"), index ("[i]") or
// map key ("['k']" / "[\"k\"]").
type Step struct {
	T string `json:"t"`           // "f", "i", "k"
	N string `json:"n,omitempty"` // field name / key
	I int    `json:"i,omitempty"` // index
	Q string `json:"q,omitempty"` // quote character for a key step
}

type Path []Step

func (p Path) String() string {
	var sb strings.Builder
	for i, s := range p {
		switch s.T {
		case "f":
			if i > 0 {
				sb.WriteByte('.')
			}
			sb.WriteString(s.N)
		case "i":
			fmt.Fprintf(&sb, "[%d]", s.I)
		case "k":
			q := s.Q
			if q == "" {
				q = "'"
			}
			sb.WriteString("[" + q + s.N + q + "]")
		}
	}
	return sb.String()
}

func (p Path) nested() bool { return len(p) > 1 }

// parsePath reads the compact notation used in the generator's tables: a.b, l[1], m['k'], m["k"].
func parsePath(s string) Path {
	var p Path
	i := 0
	readIdent := func() string {
		j := i
		for j < len(s) && s[j] != '.' && s[j] != '[' {
			j++
		}
		id := s[i:j]
		i = j
		return id
	}
	p = append(p, Step{T: "f", N: readIdent()})
	for i < len(s) {
		switch s[i] {
		case '.':
			i++
			p = append(p, Step{T: "f", N: readIdent()})
		case '[':
			j := strings.IndexByte(s[i:], ']') + i
			in := s[i+1 : j]
			if in[0] == '\'' || in[0] == '"' {
				p = append(p, Step{T: "k", N: in[1 : len(in)-1], Q: in[:1]})
			} else {
				n, err := strconv.Atoi(in)
				if err != nil {
					panic("bad path " + s)
				}
				p = append(p, Step{T: "i", I: n})
			}
			i = j + 1
		default:
			panic("bad path " + s)
		}
	}
	return p
}

// resolve follows the path through a row; found=false when any component is absent (missing key,
// index out of range, component applied to a value of another kind, NULL on the way).
func resolve(row gen.Row, p Path) (gen.Val, bool) {
	if len(p) == 0 || p[0].T != "f" {
		return gen.Val{}, false
	}
	cur, ok := row[p[0].N]
	if !ok || cur.IsMissing() {
		return gen.Val{}, false
	}
	for _, s := range p[1:] {
		switch s.T {
		case "f", "k":
			if cur.K != "map" {
				return gen.Val{}, false
			}
			nx, ok := cur.M[s.N]
			if !ok || nx.IsMissing() {
				return gen.Val{}, false
			}
			cur = nx
		case "i":
			if cur.K != "list" {
				return gen.Val{}, false
			}
			idx := s.I
			if idx < 0 {
				idx += len(cur.L)
			}
			if idx < 0 || idx >= len(cur.L) {
				return gen.Val{}, false
			}
			cur = cur.L[idx]
		}
	}
	return cur, true
}

// setPath writes v at the path, creating maps/lists on the way (used for barrier rows and for
// making a path "solid").
func setPath(row gen.Row, p Path, v gen.Val) {
	if len(p) == 1 {
		row[p[0].N] = v
		return
	}
	cur, ok := row[p[0].N]
	if !ok {
		cur = gen.Missing()
	}
	row[p[0].N] = setIn(cur, p[1:], v)
}

func setIn(cur gen.Val, p Path, v gen.Val) gen.Val {
	if len(p) == 0 {
		return v
	}
	s := p[0]
	switch s.T {
	case "f", "k":
		if cur.K != "map" {
			cur = gen.Map(map[string]gen.Val{})
		} else {
			m := make(map[string]gen.Val, len(cur.M)+1)
			for k, e := range cur.M {
				m[k] = e
			}
			cur = gen.Map(m)
		}
		nx, ok := cur.M[s.N]
		if !ok {
			nx = gen.Missing()
		}
		cur.M[s.N] = setIn(nx, p[1:], v)
		return cur
	default:
		idx := s.I
		var l []gen.Val
		if cur.K == "list" {
			l = append(l, cur.L...)
		}
		if idx < 0 {
			idx += len(l)
			if idx < 0 {
				idx = 0
			}
		}
		for len(l) <= idx {
			l = append(l, gen.Nil())
		}
		l[idx] = setIn(l[idx], p[1:], v)
		return gen.List(l...)
	}
}

func copyRow(r gen.Row) gen.Row {
	out := make(gen.Row, len(r))
	for k, v := range r {
		out[k] = v // Vals are treated as immutable (setIn copies on write)
	}
	return out
}

// ---- SELECT list -------------------------------------------------------------------------------

type Operand struct {
	Path Path   `json:"path,omitempty"`
	Num  string `json:"num,omitempty"` // literal text when Path is empty
}

func (o Operand) String() string {
	if len(o.Path) > 0 {
		return o.Path.String()
	}
	return o.Num
}

// Arith is X op Y or X op Y op Z with optional parentheses around the first or the last pair.
type Arith struct {
	Args  []Operand `json:"args"`
	Ops   []string  `json:"ops"`
	Paren int       `json:"paren,omitempty"` // 0 none, 1 (X op Y) op Z, 2 X op (Y op Z)
}

func (a Arith) String() string {
	s := make([]string, len(a.Args))
	for i, o := range a.Args {
		s[i] = o.String()
	}
	if len(a.Args) == 2 {
		return s[0] + " " + a.Ops[0] + " " + s[1]
	}
	switch a.Paren {
	case 1:
		return "(" + s[0] + " " + a.Ops[0] + " " + s[1] + ") " + a.Ops[1] + " " + s[2]
	case 2:
		return s[0] + " " + a.Ops[0] + " (" + s[1] + " " + a.Ops[1] + " " + s[2] + ")"
	}
	return s[0] + " " + a.Ops[0] + " " + s[1] + " " + a.Ops[1] + " " + s[2]
}

type Item struct {
	Kind  string `json:"kind"` // "star", "col", "str", "num", "arith", "concat" (Lit holds the text: s + ' ' + t), "ifnull" (if_null(Path, Lit))
	Path  Path   `json:"path,omitempty"`
	Lit   string `json:"lit,omitempty"` // string content or number text
	Q     string `json:"q,omitempty"`   // quote of a string literal
	Ar    *Arith `json:"ar,omitempty"`
	Alias string `json:"alias,omitempty"`
	Kw    string `json:"kw,omitempty"` // "AS" / "as"
	Tick  bool   `json:"tick,omitempty"`
}

func (it Item) text() string {
	var e string
	switch it.Kind {
	case "star":
		return "*"
	case "col":
		e = it.Path.String()
	case "str":
		q := it.Q
		if q == "" {
			q = "'"
		}
		e = q + it.Lit + q
	case "num":
		e = it.Lit
	case "arith":
		e = it.Ar.String()
	case "concat":
		e = it.Lit
	case "ifnull":
		e = "if_null(" + it.Path.String() + ", " + it.Lit + ")"
	}
	if it.Alias != "" {
		kw := it.Kw
		if kw == "" {
			kw = "AS"
		}
		a := it.Alias
		if it.Tick {
			a = "`" + a + "`"
		}
		e += " " + kw + " " + a
	}
	return e
}

// outName is the key the item must appear under.
func (it Item) outName() string {
	if it.Alias != "" {
		return it.Alias
	}
	switch it.Kind {
	case "col":
		return it.Path.String() // docs/NESTED_FIELD_ACCESS.md: an unaliased path keeps its full text
	case "str":
		return it.Lit // rsql/ast.go: an unaliased string literal is named by its content
	}
	return it.text()
}

// ---- WHERE -------------------------------------------------------------------------------------

type Pred struct {
	Op    string `json:"op"` // "and", "or", "cmp"
	Kids  []Pred `json:"kids,omitempty"`
	Path  Path   `json:"path,omitempty"`
	Cmp   string `json:"cmp,omitempty"` // > >= < <= == =
	Lit   string `json:"lit,omitempty"` // number text or string content
	IsStr bool   `json:"is_str,omitempty"`
	Par   bool   `json:"par,omitempty"` // leaf written in parentheses
}

func (p Pred) String() string {
	if p.Op == "cmp" {
		l := p.Lit
		if p.IsStr {
			l = "'" + p.Lit + "'"
		}
		s := p.Path.String() + " " + p.Cmp + " " + l
		if p.Par {
			s = "(" + s + ")"
		}
		return s
	}
	parts := make([]string, len(p.Kids))
	for i, k := range p.Kids {
		parts[i] = k.String()
		if k.Op != "cmp" {
			parts[i] = "(" + parts[i] + ")"
		}
	}
	return strings.Join(parts, " "+strings.ToUpper(p.Op)+" ")
}

func (p Pred) leaves(f func(l Pred)) {
	if p.Op == "cmp" {
		f(p)
		return
	}
	for _, k := range p.Kids {
		k.leaves(f)
	}
}

func (p Pred) hasOr() bool {
	if p.Op == "or" {
		return true
	}
	for _, k := range p.Kids {
		if k.hasOr() {
			return true
		}
	}
	return false
}

// three-valued result
const (
	tvFalse = 0
	tvTrue  = 1
	tvUnk   = 2
)

func cmpLeaf(l Pred, row gen.Row) int {
	v, ok := resolve(row, l.Path)
	if !ok || v.IsNull() {
		return tvUnk
	}
	b := false
	if l.IsStr {
		if v.K != "str" {
			return tvUnk // not generated: columns are typed
		}
		b = v.S == l.Lit
	} else {
		f, isNum := v.Num()
		if !isNum {
			return tvUnk
		}
		lit, _ := strconv.ParseFloat(l.Lit, 64)
		switch l.Cmp {
		case ">":
			b = f > lit
		case ">=":
			b = f >= lit
		case "<":
			b = f < lit
		case "<=":
			b = f <= lit
		default:
			b = f == lit
		}
	}
	if b {
		return tvTrue
	}
	return tvFalse
}

// evalSQL is the reference: Kleene three-valued logic, the row passes iff the result is TRUE.
func evalSQL(p *Pred, row gen.Row) int {
	if p == nil {
		return tvTrue
	}
	switch p.Op {
	case "cmp":
		return cmpLeaf(*p, row)
	case "and":
		r := tvTrue
		for i := range p.Kids {
			k := evalSQL(&p.Kids[i], row)
			if k == tvFalse {
				return tvFalse
			}
			if k == tvUnk {
				r = tvUnk
			}
		}
		return r
	default:
		r := tvFalse
		for i := range p.Kids {
			k := evalSQL(&p.Kids[i], row)
			if k == tvTrue {
				return tvTrue
			}
			if k == tvUnk {
				r = tvUnk
			}
		}
		return r
	}
}

// evalAbort models the confirmed defect "an UNKNOWN comparison aborts the whole predicate": left-to-
// right short-circuit evaluation in which reaching an UNKNOWN leaf makes the whole WHERE false.
// It is used ONLY to recognise the known-finding shape (features) and to steer the generator away
// from it; the oracle is evalSQL.
func evalAbort(p *Pred, row gen.Row) (val bool, aborted bool) {
	if p == nil {
		return true, false
	}
	switch p.Op {
	case "cmp":
		r := cmpLeaf(*p, row)
		if r == tvUnk {
			return false, true
		}
		return r == tvTrue, false
	case "and":
		for i := range p.Kids {
			v, ab := evalAbort(&p.Kids[i], row)
			if ab {
				return false, true
			}
			if !v {
				return false, false
			}
		}
		return true, false
	default:
		for i := range p.Kids {
			v, ab := evalAbort(&p.Kids[i], row)
			if ab {
				return false, true
			}
			if v {
				return true, false
			}
		}
		return false, false
	}
}

// ---- projection --------------------------------------------------------------------------------

type expVal struct {
	v      any  // Go value (gen.Val.Go()) or float64 for arithmetic
	approx bool // compare numerically with tolerance
	any    bool // the key must be present; its value is not fixed here (it must still not depend on the history)
}

func operandVal(o Operand, row gen.Row) (float64, bool) {
	if len(o.Path) == 0 {
		f, _ := strconv.ParseFloat(o.Num, 64)
		return f, true
	}
	v, ok := resolve(row, o.Path)
	if !ok || v.IsNull() {
		return 0, false
	}
	return v.Num()
}

func apply(op string, x, y float64) float64 {
	switch op {
	case "+":
		return x + y
	case "-":
		return x - y
	case "*":
		return x * y
	}
	return x / y
}

func prec(op string) int {
	if op == "*" || op == "/" {
		return 2
	}
	return 1
}

// evalArith: float64 arithmetic, NULL when any operand is NULL/missing.
func evalArith(a Arith, row gen.Row) (float64, bool) {
	vs := make([]float64, len(a.Args))
	for i, o := range a.Args {
		f, ok := operandVal(o, row)
		if !ok {
			return 0, false
		}
		vs[i] = f
	}
	if len(vs) == 2 {
		return apply(a.Ops[0], vs[0], vs[1]), true
	}
	first := a.Paren == 1 || (a.Paren == 0 && prec(a.Ops[0]) >= prec(a.Ops[1]))
	if first {
		return apply(a.Ops[1], apply(a.Ops[0], vs[0], vs[1]), vs[2]), true
	}
	return apply(a.Ops[0], vs[0], apply(a.Ops[1], vs[1], vs[2])), true
}

// project is the reference projection of one row.
func project(items []Item, row gen.Row) map[string]expVal {
	out := map[string]expVal{}
	for _, it := range items {
		if it.Kind == "star" {
			for k, v := range row {
				if !v.IsMissing() {
					out[k] = expVal{v: v.Go()}
				}
			}
		}
	}
	for _, it := range items {
		name := it.outName()
		switch it.Kind {
		case "col":
			v, ok := resolve(row, it.Path)
			if !ok {
				out[name] = expVal{v: nil}
			} else {
				out[name] = expVal{v: v.Go()}
			}
		case "str":
			out[name] = expVal{v: it.Lit}
		case "num":
			f, _ := strconv.ParseFloat(it.Lit, 64)
			out[name] = expVal{v: f, approx: true}
		case "arith":
			f, ok := evalArith(*it.Ar, row)
			if !ok {
				out[name] = expVal{v: nil}
			} else {
				out[name] = expVal{v: f, approx: true}
			}
		case "concat":
			out[name] = expVal{any: true}
		case "ifnull":
			if v, ok := resolve(row, it.Path); ok && !v.IsNull() {
				out[name] = expVal{v: v.Go()}
			} else {
				f, _ := strconv.ParseFloat(it.Lit, 64)
				out[name] = expVal{v: f, approx: true}
			}
		}
	}
	return out
}

// ---- canonical rendering of engine values ------------------------------------------------------

func canon(v any) string {
	var sb strings.Builder
	canonTo(&sb, v)
	return sb.String()
}

func canonTo(sb *strings.Builder, v any) {
	if v == nil {
		sb.WriteString("NULL")
		return
	}
	if f, ok := gen.ToFloat(v); ok {
		if f == 0 {
			f = 0 // -0 == 0
		}
		sb.WriteString("n:" + strconv.FormatFloat(f, 'g', -1, 64))
		return
	}
	switch x := v.(type) {
	case string:
		sb.WriteString("s:" + strconv.Quote(x))
	case bool:
		sb.WriteString("b:" + strconv.FormatBool(x))
	case []any:
		sb.WriteByte('[')
		for i, e := range x {
			if i > 0 {
				sb.WriteByte(',')
			}
			canonTo(sb, e)
		}
		sb.WriteByte(']')
	case map[string]any:
		ks := make([]string, 0, len(x))
		for k := range x {
			ks = append(ks, k)
		}
		sort.Strings(ks)
		sb.WriteByte('{')
		for i, k := range ks {
			if i > 0 {
				sb.WriteByte(',')
			}
			sb.WriteString(strconv.Quote(k) + "=")
			canonTo(sb, x[k])
		}
		sb.WriteByte('}')
	default:
		fmt.Fprintf(sb, "?%T:%#v", v, v)
	}
}

// canonRow renders a result row; "<none>" for no result.
func canonRow(r map[string]any) string {
	if r == nil {
		return "<none>"
	}
	return canon(r)
}

func sameVal(e expVal, got any) bool {
	if e.any {
		return true
	}
	if e.approx {
		want, _ := e.v.(float64)
		g, ok := gen.ToFloat(got)
		return ok && gen.Close(want, g, 1e-9)
	}
	return canon(e.v) == canon(got)
}
