package c05

import (
	"fmt"
	"testing"

	"verifharness/internal/run"
)

func TestProbe(t *testing.T) {
	row := func() map[string]any {
		return map[string]any{
			"a": 3, "b": 2.5, "s": "5", "score": "7", "brand": "5", "color": "1.5", "stand": []any{"2"}, "m2": map[string]any{"or": "3"},
			"d":   map[string]any{"l": []any{1, "two", map[string]any{"k": 9}}},
			"arr": []any{10, 20.5, "2.50", "5"},
		}
	}
	qs := []string{
		"SELECT brand, score, arr[-1], arr[-2] AS x, arr[2] AS y, s FROM stream",
		"SELECT brand AS b2, color, stand[-1], m2['or'] AS z FROM stream",
	}
	for _, q := range qs {
		in, err := run.Open(q)
		if err != nil {
			fmt.Printf("%-60s EXEC ERR %v\n", q, err)
			continue
		}
		out, err := in.S.EmitSync(row())
		fmt.Printf("%-60s -> %#v err=%v\n", q, out, err)
		in.Stop()
	}
}
