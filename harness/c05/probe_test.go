package c05

import (
	"fmt"
	"testing"

	"verifharness/internal/run"
)

func TestProbe(t *testing.T) {
	row := func() map[string]any {
		return map[string]any{
			"a": 3, "b": 2.5, "s": "hi", "f": true, "n": nil, "score": 7, "brand": "x",
			"d":   map[string]any{"a": map[string]any{"b": 11, "n": nil}, "x": "dx", "l": []any{1, "two", map[string]any{"k": 9}}},
			"arr": []any{10, 20.5, "z", nil, map[string]any{"k": "v"}, []any{1, 2}},
			"m":   map[string]any{"k": "mv", "k2": 5, "a b": 1},
		}
	}
	qs := []string{
		"SELECT * FROM stream",
		"SELECT a, b, s, f, n, zz FROM stream",
		"SELECT a AS x, zz AS y, s AS a FROM stream",
		"SELECT d.a.b, d.x, d.q, d.a.q.r FROM stream",
		"SELECT d.a.b AS p, arr[1] AS q, m['k'] AS r, arr[-1] AS s2, arr[9] AS t, arr[4].k AS u, arr[5][1] AS v, d.l[2].k AS w, d.l[2]['k'] AS w2 FROM stream",
		"SELECT arr[1], m['k'], m[\"k2\"], arr[4].k FROM stream",
		"SELECT 5 AS n5 FROM stream",
		"SELECT 5.5 AS n5 FROM stream",
		"SELECT -5 AS n5 FROM stream",
		"SELECT 'lit' AS l FROM stream",
		"SELECT 'lit' FROM stream",
		"SELECT \"lit2\" AS l FROM stream",
		"SELECT a + 1 AS e FROM stream",
		"SELECT a + b AS e, a * 2 AS e2, b - 1 AS e3, a / 2 AS e4 FROM stream",
		"SELECT a + 1 FROM stream",
		"SELECT a+1 FROM stream",
		"SELECT zz + 1 AS e FROM stream",
		"SELECT n + 1 AS e FROM stream",
		"SELECT d.a.b + 1 AS e FROM stream",
		"SELECT arr[0] + 1 AS e FROM stream",
		"SELECT score, brand FROM stream",
		"SELECT score AS sc, brand AS br, nor AS no FROM stream",
		"SELECT *, a AS x FROM stream",
		"SELECT a, * FROM stream",
		"SELECT a, a AS a2 FROM stream",
		"SELECT a, a FROM stream",
		"SELECT a AS x, b AS x FROM stream",
		"SELECT a FROM stream WHERE a > 2",
		"SELECT a FROM stream WHERE a > 3",
		"SELECT a FROM stream WHERE a == 3 AND s == 'hi'",
		"SELECT a FROM stream WHERE a = 3 OR b < 1",
		"SELECT a FROM stream WHERE zz > 3",
		"SELECT a FROM stream WHERE zz == 3",
		"SELECT a FROM stream WHERE n <= 3",
		"SELECT a FROM stream WHERE d.a.b > 3",
		"SELECT a FROM stream WHERE d.a.b >= 11 AND arr[0] == 10",
		"SELECT a FROM stream WHERE m['k'] == 'mv'",
		"SELECT a FROM stream WHERE (a > 2 AND b < 3) OR s == 'x'",
		"SELECT a FROM stream WHERE b >= 2.5",
		"SELECT a FROM stream WHERE a > -1",
		"SELECT s AS t FROM stream WHERE s == 'hi'",
		"SELECT f FROM stream WHERE f == true",
	}
	for _, q := range qs {
		in, err := run.Open(q)
		if err != nil {
			fmt.Printf("%-60s EXEC ERR %v\n", q, err)
			continue
		}
		out, err := in.S.EmitSync(row())
		fmt.Printf("%-60s -> %#v err=%v\n", q, out, err)
		in.Stop()
	}
}
