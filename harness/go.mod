module verifharness

go 1.23

require (
	github.com/rulego/streamsql v0.0.0
	pgregory.net/rapid v1.3.0
)

require github.com/expr-lang/expr v1.17.8

replace github.com/rulego/streamsql => /repo
