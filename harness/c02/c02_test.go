package c02

import (
	"fmt"
	"os"
	"sort"
	"strings"
	"testing"
	"time"
	"verifharness/internal/hook"

	"pgregory.net/rapid"
	"verifharness/internal/et"
	"verifharness/internal/gen"
	"verifharness/internal/pbt"
	"verifharness/internal/run"
)

type Case struct {
	Kind    string     `json:"kind"` // tumbling, sliding, session
	SizeMs  int64      `json:"size_ms"`
	SlideMs int64      `json:"slide_ms,omitempty"`
	OOOMs   int64      `json:"ooo_ms"`
	ALMs    int64      `json:"al_ms"`
	Groups  int        `json:"groups"`
	Events  []et.Event `json:"events"` // may contain garbage rows
	Pauses  []int      `json:"pauses"`
	Barrier bool       `json:"barrier"` // late-update mode: wait for due firings before each late row
	// Idle: a busy source whose timestamps do not advance must not be judged idle (IDLETIMEOUT): real-time case
	Idle     bool   `json:"idle,omitempty"`
	HookSeed uint64 `json:"hook_seed,omitempty"` // seed of the engine's build-tag-guarded perturbation points (0 = off)
	Plan     *SPlan `json:"plan,omitempty"`      // planted session late-update scenario (session_late_test.go)
}

func genIdle(t *rapid.T) Case {
	c := Case{Kind: "tumbling", SizeMs: 1000, OOOMs: 200, Groups: rapid.IntRange(0, 2).Draw(t, "igroups"), Idle: true}
	n := rapid.IntRange(65, 80).Draw(t, "in")
	base := et.Base
	c.Events = append(c.Events, et.Event{ID: 0, TS: base + 900, V: 1, G: "g1"})
	for i := 1; i < n; i++ {
		e := et.Event{ID: i, TS: base + 700 + int64(rapid.IntRange(0, 190).Draw(t, "its")), V: 1, G: "g1"}
		if c.Groups > 1 && rapid.Bool().Draw(t, "ig") {
			e.G = "g2"
		}
		c.Events = append(c.Events, e)
		c.Pauses = append(c.Pauses, 0)
	}
	return c
}

func genCase(t *rapid.T) Case {
	if rapid.IntRange(0, 99).Draw(t, "idlemode") == 57 { // an inner value: rapid favours the ends of a range
		return genIdle(t)
	}
	if rapid.IntRange(0, 9).Draw(t, "planted") == 4 && !pbt.Open("C02", "session-late-update") {
		return genSessionLate(t)
	}
	c := Case{Kind: rapid.SampledFrom([]string{"tumbling", "tumbling", "sliding", "session"}).Draw(t, "kind")}
	switch c.Kind {
	case "tumbling":
		c.SizeMs = rapid.SampledFrom([]int64{250, 1000, 2000, 5000}).Draw(t, "size")
	case "sliding":
		p := rapid.SampledFrom([][2]int64{{3000, 1000}, {3000, 2000}, {2000, 2000}, {4000, 1000}, {2000, 5000}}).Draw(t, "pair")
		c.SizeMs, c.SlideMs = p[0], p[1]
	default:
		c.SizeMs = rapid.SampledFrom([]int64{500, 1000, 2000}).Draw(t, "timeout")
	}
	c.OOOMs = rapid.SampledFrom([]int64{0, c.SizeMs / 2, 2 * c.SizeMs}).Draw(t, "ooo")
	c.ALMs = rapid.SampledFrom([]int64{0, 0, c.SizeMs / 2, 2 * c.SizeMs}).Draw(t, "al")
	if c.Kind == "session" {
		if pbt.Open("C02", "session-late-update") {
			c.ALMs = 0
		}
	}
	if c.Kind == "sliding" && c.ALMs > 0 && pbt.Open("C02", "sliding-late-update") {
		c.ALMs = 0
	}
	c.Groups = rapid.IntRange(1, 3).Draw(t, "groups")
	if c.Kind != "session" && rapid.IntRange(0, 3).Draw(t, "nogroup") == 0 {
		c.Groups = 0
	}
	scale := c.SizeMs
	if c.Kind == "sliding" {
		scale = c.SlideMs
	}
	c.Events = et.GenTimeline(t, et.TLParams{SizeMs: scale, OOOMs: c.OOOMs, UnitMs: 1, Groups: c.Groups, MaxN: 30, PreFirst: true})
	if c.Kind == "session" {
		// keep per-key gaps below the timeout while the no-split finding (C10) is open: compress the timeline
		if pbt.Open("C10", "gap-at-or-above-timeout") {
			// the whole timeline spans less than half a timeout: every key forms one session
			step := c.SizeMs / 64
			if step < 1 {
				step = 1
			}
			base := c.Events[0].TS
			for i := range c.Events {
				c.Events[i].TS = base + int64(i)*step
				if c.OOOMs > 0 && i > 0 && rapid.IntRange(0, 4).Draw(t, "sback") == 0 {
					c.Events[i].TS -= step * int64(rapid.IntRange(1, 3).Draw(t, "sbackn"))
				}
			}
			if c.OOOMs > 0 {
				c.OOOMs = c.SizeMs / 2
			}
		}
	}
	// garbage rows
	ng := rapid.IntRange(0, 3).Draw(t, "ngarbage")
	for i := 0; i < ng; i++ {
		kinds := []string{"future", "nots", "nullts", "strts"}
		if c.Kind == "session" && pbt.Open("C02", "session-far-future") {
			kinds = []string{"nots", "nullts", "strts"}
		}
		g := et.Event{ID: 1000 + i, Garbage: rapid.SampledFrom(kinds).Draw(t, "gk"), V: 1}
		if c.Groups > 0 {
			g.G = fmt.Sprintf("g%d", rapid.IntRange(1, c.Groups).Draw(t, "gg"))
		}
		pos := rapid.IntRange(0, len(c.Events)).Draw(t, "gpos")
		c.Events = append(c.Events[:pos], append([]et.Event{g}, c.Events[pos:]...)...)
	}
	mode := rapid.IntRange(0, 2).Draw(t, "feed")
	for range c.Events {
		if mode == 0 {
			c.Pauses = append(c.Pauses, 0) // burst
		} else {
			c.Pauses = append(c.Pauses, gen.Pause().Draw(t, "pause"))
		}
	}
	c.HookSeed = hookSeed(t)
	c.Barrier = c.ALMs > 0
	return c
}

func sqlOf(c Case) string {
	g := ""
	if c.Groups > 0 {
		g = "g, "
	}
	var w string
	switch c.Kind {
	case "tumbling":
		w = fmt.Sprintf("TumblingWindow('%dms')", c.SizeMs)
	case "sliding":
		w = fmt.Sprintf("SlidingWindow('%dms','%dms')", c.SizeMs, c.SlideMs)
	default:
		w = fmt.Sprintf("SessionWindow('%dms')", c.SizeMs)
	}
	return fmt.Sprintf("SELECT %scount(*) AS c, collect(id) AS ids, window_start() AS ws, window_end() AS we FROM stream GROUP BY %s%s %s", g, g, w, et.With("ms", c.OOOMs, c.ALMs))
}

type drow struct {
	g      string
	ws, we int64
	ids    []int
	wid    string
	seq    int
	start  int64
}

func parse(ds []run.Delivery, res *pbt.Result) []drow {
	var out []drow
	for _, d := range ds {
		for _, r := range d.Rows {
			ws, ok1 := et.MsOf(r["ws"])
			we, ok2 := et.MsOf(r["we"])
			ids, ok3 := et.IDs(r["ids"])
			if !ok1 || !ok2 || !ok3 {
				res.Add(pbt.D("bad-row", "row without ws/we/ids: %v", r))
				continue
			}
			g, _ := r["g"].(string)
			wid, _ := r["window_id"].(string)
			if cnt, _ := gen.ToFloat(r["c"]); int(cnt) != len(ids) {
				res.Add(pbt.D("wrong-count", "count(*)=%v but %d ids", r["c"], len(ids)))
			}
			out = append(out, drow{g: g, ws: ws, we: we, ids: ids, wid: wid, seq: d.Seq, start: d.Started})
		}
	}
	return out
}

// windowsOf returns the window starts that contain ts for tumbling/sliding.
func windowsOf(c Case, ts int64) []int64 {
	if c.Kind == "tumbling" {
		return []int64{ts / c.SizeMs * c.SizeMs}
	}
	var out []int64
	for s := ts / c.SlideMs * c.SlideMs; s > ts-c.SizeMs; s -= c.SlideMs {
		out = append(out, s)
	}
	return out
}

type runOut struct {
	rows []drow
	ok   bool
}

// feed runs the event list; in barrier mode it waits for all due firings before each late row.
func feed(c Case, evs []et.Event, pauses []int, res *pbt.Result) runOut {
	in, err := run.Open(sqlOf(c))
	if err != nil {
		res.Add(pbt.D("execute-error", "%v for %s", err, sqlOf(c)))
		return runOut{}
	}
	defer in.Stop()
	arr := et.Model(evs, c.OOOMs)
	max := et.MaxTS(evs)
	span := 2*c.SizeMs + 2*c.SlideMs + c.ALMs
	flush := et.Event{ID: -1, TS: max + c.OOOMs + span + 1, G: "__flush__"}
	all := append(append([]et.Event{}, evs...), flush)
	// due(i): accepted ids among evs[:i] whose (first) window ended at or before the watermark after evs[:i]
	dueIDs := func(upto int) map[int]bool {
		m := map[int]bool{}
		if upto == 0 {
			return m
		}
		wm := arr[upto-1].WM
		for j := 0; j < upto; j++ {
			e := evs[j]
			if e.Garbage != "" || arr[j].Late {
				continue
			}
			switch c.Kind {
			case "session":
				// a session's end depends on later rows of the key; not used for barriers
			default:
				ws := windowsOf(c, e.TS)
				if len(ws) == 0 {
					continue // slide > size: the row lies in a gap between windows and is never delivered
				}
				first := ws[len(ws)-1]
				if c.Kind == "tumbling" {
					first = ws[0]
				}
				if first+c.SizeMs <= wm {
					m[e.ID] = true
				}
			}
		}
		return m
	}
	// sliding: every interval of an accepted row that ended at or before the watermark after evs[:upto] - an interval
	// exists from the aligned start of the earliest accepted row on (the engine aligns its first window to it)
	type bpair struct {
		id int
		ws int64
	}
	duePairsAt := func(upto int) []bpair {
		if c.Kind != "sliding" || upto == 0 {
			return nil
		}
		wm := arr[upto-1].WM
		minAcc := int64(-1)
		for j := 0; j < upto; j++ {
			if evs[j].Garbage == "" && !arr[j].Late && (minAcc < 0 || evs[j].TS < minAcc) {
				minAcc = evs[j].TS
			}
		}
		if minAcc < 0 {
			return nil
		}
		s0 := minAcc / c.SlideMs * c.SlideMs
		var out []bpair
		for j := 0; j < upto; j++ {
			if evs[j].Garbage != "" || arr[j].Late {
				continue
			}
			for _, ws := range windowsOf(c, evs[j].TS) {
				if ws >= s0 && ws+c.SizeMs <= wm {
					out = append(out, bpair{evs[j].ID, ws})
				}
			}
		}
		return out
	}
	for i, e := range all {
		if c.Barrier && i < len(evs) && e.Garbage == "" && arr[i].Late {
			need := dueIDs(i)
			needPairs := duePairsAt(i)
			in.WaitFor(pbt.Wait(3*time.Second), func(ds []run.Delivery) bool {
				seen := et.SeenIDs(ds)
				for id := range need {
					if !seen[id] {
						return false
					}
				}
				if len(needPairs) > 0 {
					got := map[bpair]bool{}
					for _, d := range ds {
						for _, r := range d.Rows {
							ws, _ := et.MsOf(r["ws"])
							ids, _ := et.IDs(r["ids"])
							for _, id := range ids {
								got[bpair{id, ws}] = true
							}
						}
					}
					for _, p := range needPairs {
						if !got[p] {
							return false
						}
					}
				}
				return true
			})
		}
		in.Emit(et.Row(e, "ms", "int64", c.Groups > 0))
		if i < len(pauses) {
			et.DoPause(pauses[i])
		}
	}
	must := map[int]bool{}
	for i, e := range evs {
		if e.Garbage == "" && !arr[i].Late {
			if c.Kind == "sliding" && len(windowsOf(c, e.TS)) == 0 {
				continue // in a gap between intervals (slide > size): never reported
			}
			must[e.ID] = true
		}
	}
	// sliding: an id is due in every covering interval from the aligned start of the earliest accepted row on
	type pair struct {
		id int
		ws int64
	}
	var duePairs []pair
	if c.Kind == "sliding" {
		minAcc := int64(-1)
		for i, e := range evs {
			if e.Garbage == "" && !arr[i].Late && (minAcc < 0 || e.TS < minAcc) {
				minAcc = e.TS
			}
		}
		s0 := minAcc / c.SlideMs * c.SlideMs
		for i, e := range evs {
			if e.Garbage != "" || arr[i].Late {
				continue
			}
			for _, ws := range windowsOf(c, e.TS) {
				if ws >= s0 && ws+c.SizeMs <= flush.TS-c.OOOMs {
					duePairs = append(duePairs, pair{e.ID, ws})
				}
			}
		}
	}
	in.WaitFor(pbt.Wait(4*time.Second), func(ds []run.Delivery) bool {
		seen := et.SeenIDs(ds)
		for id := range must {
			if !seen[id] {
				return false
			}
		}
		if len(duePairs) > 0 {
			got := map[pair]bool{}
			for _, d := range ds {
				for _, r := range d.Rows {
					ws, _ := et.MsOf(r["ws"])
					ids, _ := et.IDs(r["ids"])
					for _, id := range ids {
						got[pair{id, ws}] = true
					}
				}
			}
			for _, p := range duePairs {
				if !got[p] {
					return false
				}
			}
		}
		return true
	})
	in.Settle(2 * time.Millisecond)
	ds := in.Deliveries()
	rows := parse(ds, res)
	// (a) no early firing
	for _, r := range rows {
		ok := false
		for i := 0; i < int(r.start) && i < len(all); i++ {
			if all[i].Garbage == "" && all[i].TS >= r.we+c.OOOMs {
				ok = true
				break
			}
		}
		if !ok {
			res.Add(pbt.D("early-firing", "%s window ending %d delivered after %d emits, none (far-future rows not counting) with ts >= %d", c.Kind, r.we, r.start, r.we+c.OOOMs))
		}
	}
	return runOut{rows: rows, ok: true}
}

func canonAccepted(c Case, rows []drow, late map[int]bool) string {
	// first delivery per (group, window) restricted to accepted ids
	seen := map[string]bool{}
	var parts []string
	for _, r := range rows {
		k := fmt.Sprintf("%s@%d", r.g, r.ws)
		if c.Kind == "session" {
			k = fmt.Sprintf("%s@%v", r.g, r.ids)
		}
		if seen[k] {
			continue
		}
		seen[k] = true
		var ids []int
		for _, id := range r.ids {
			if !late[id] {
				ids = append(ids, id)
			}
		}
		sort.Ints(ids)
		if len(ids) == 0 {
			continue
		}
		if c.Kind == "session" {
			parts = append(parts, fmt.Sprintf("%s%v", r.g, ids))
		} else {
			parts = append(parts, fmt.Sprintf("%s[%d,%d)%v", r.g, r.ws, r.we, ids))
		}
	}
	sort.Strings(parts)
	// a re-delivery that only adds late rows has the same accepted contents: compare as a set
	uniq := parts[:0]
	for i, p := range parts {
		if i == 0 || p != parts[i-1] {
			uniq = append(uniq, p)
		}
	}
	return strings.Join(uniq, " ")
}

// runIdle: IDLETIMEOUT 1.5 s, rows every ~30 ms for about 2 s whose timestamps never exceed the first one: the source
// is busy, so no window may fire (no row reaches window_end + OOO, and the idle timeout never elapses). Wall-clock
// facts are used conservatively: a delivery counts only if every gap between consecutive emits before it was
// below a third of the idle timeout.
func runIdle(c Case) (res pbt.Result) {
	g := ""
	if c.Groups > 0 {
		g = "g, "
	}
	q := fmt.Sprintf("SELECT %scount(*) AS c, collect(id) AS ids, window_start() AS ws, window_end() AS we FROM stream GROUP BY %sTumblingWindow('%dms') WITH (TIMESTAMP='ts', TIMEUNIT='ms', MAXOUTOFORDERNESS='%dms', IDLETIMEOUT='1500ms')", g, g, c.SizeMs, c.OOOMs)
	in, err := run.Open(q)
	if err != nil {
		res.Add(pbt.D("execute-error", "%v for %s", err, q))
		return
	}
	defer in.Stop()
	var emits []time.Time
	for _, e := range c.Events {
		in.Emit(et.Row(e, "ms", "int64", c.Groups > 0))
		emits = append(emits, time.Now())
		time.Sleep(30 * time.Millisecond)
	}
	end := time.Now()
	for _, d := range in.Deliveries() {
		if d.At.After(end) {
			continue
		}
		maxGap := time.Duration(0)
		last := emits[0]
		for _, e := range emits[1:] {
			if e.After(d.At) {
				break
			}
			if gp := e.Sub(last); gp > maxGap {
				maxGap = gp
			}
			last = e
		}
		if gp := d.At.Sub(last); gp > maxGap {
			maxGap = gp
		}
		if maxGap < 500*time.Millisecond {
			res.Add(pbt.D("early-firing-idle", "a window was delivered %v after the first row while rows kept arriving (largest gap between rows %v, IDLETIMEOUT 1.5 s) and no row had reached window_end + MAXOUTOFORDERNESS: %v", d.At.Sub(emits[0]).Round(time.Millisecond), maxGap.Round(time.Millisecond), d.Rows))
		} else {
			res.Class("idle-inconclusive")
		}
	}
	res.Class("idle-busy-source")
	res.NonTrivial = true
	return
}

func runCase(c Case) (res pbt.Result) {
	hook.Configure(c.HookSeed)
	defer func() {
		for site, n := range hook.Sites() {
			res.Count("hook:"+site, n)
		}
		hook.Configure(0)
	}()
	if c.Idle {
		return runIdle(c)
	}
	if c.Plan != nil {
		return runSessionLate(c)
	}
	out := feed(c, c.Events, c.Pauses, &res)
	if !out.ok {
		return
	}
	arr := et.Model(c.Events, c.OOOMs)
	if os.Getenv("VERIF_DEBUG") != "" {
		for _, r := range out.rows {
			fmt.Printf("DEBUG delivery seq=%d after %d emits: g=%q [%d,%d) wid=%s ids=%v\n", r.seq, r.start, r.g, r.ws, r.we, r.wid, r.ids)
		}
		for i, e := range c.Events {
			fmt.Printf("DEBUG event #%d id=%d ts=%d g=%s garbage=%q late=%v wm=%d\n", i, e.ID, e.TS, e.G, e.Garbage, arr[i].Late, arr[i].WM)
		}
	}
	byID := map[int]et.Event{}
	late := map[int]bool{}
	idx := map[int]int{}
	hasGarbage, hasLate := false, false
	for i, e := range c.Events {
		byID[e.ID] = e
		idx[e.ID] = i
		if e.Garbage != "" {
			hasGarbage = true
			continue
		}
		if arr[i].Late {
			late[e.ID] = true
			hasLate = true
		}
	}
	// membership: ids belong to the row's group and interval; garbage never appears
	firstSeen := map[string]int{} // window key -> index of first delivery
	perWin := map[string][]drow{}
	where := map[int][]drow{}
	for _, r := range out.rows {
		for _, id := range r.ids {
			e, ok := byID[id]
			if !ok {
				res.Add(pbt.D("unknown-id", "id %d in a result was never emitted (or is the flush row)", id))
				continue
			}
			if e.Garbage != "" {
				res.Add(pbt.D("garbage-in-result", "row id %d without a usable timestamp (%s) appears in window [%d,%d)", id, e.Garbage, r.ws, r.we))
				continue
			}
			if c.Groups > 0 && e.G != r.g {
				res.Add(pbt.D("wrong-group", "id %d of group %q reported in group %q", id, e.G, r.g))
			}
			if c.Kind != "session" && (e.TS < r.ws || e.TS >= r.we) {
				res.Add(pbt.D("wrong-interval", "id %d ts=%d reported in [%d,%d)", id, e.TS, r.ws, r.we))
			}
			where[id] = append(where[id], r)
		}
		k := r.g + "|" + r.wid
		if _, ok := firstSeen[k]; !ok {
			firstSeen[k] = len(perWin[k])
		}
		perWin[k] = append(perWin[k], r)
	}
	// (b) no on-time loss
	finalWM := et.MaxTS(c.Events) + 2*c.SizeMs + 2*c.SlideMs + c.ALMs + 1
	for i, e := range c.Events {
		if e.Garbage != "" || arr[i].Late {
			continue
		}
		if c.Kind == "sliding" && len(windowsOf(c, e.TS)) == 0 {
			continue // slide > size: the row lies in a gap between intervals
		}
		if len(where[e.ID]) == 0 {
			res.Add(pbt.D("on-time-lost", "%s: id %d ts=%d (not late on arrival: max so far %d, ooo %d) is in no result although the final watermark %d passed its window", c.Kind, e.ID, e.TS, arr[i].MaxAfter, c.OOOMs, finalWM))
		}
	}
	// re-deliveries: allowed only with ALLOWEDLATENESS > 0; contents must grow monotonically
	for k, rs := range perWin {
		if len(rs) > 1 && c.ALMs == 0 {
			res.Add(pbt.D("redelivery-without-allowance", "window %s delivered %d times with ALLOWEDLATENESS 0", k, len(rs)))
		}
		for i := 1; i < len(rs); i++ {
			prev := map[int]bool{}
			for _, id := range rs[i-1].ids {
				prev[id] = true
			}
			cur := map[int]bool{}
			for _, id := range rs[i].ids {
				cur[id] = true
			}
			for id := range prev {
				if !cur[id] {
					res.Add(pbt.D("redelivery-lost-row", "window %s: re-delivery %v dropped id %d of the previous contents %v", k, rs[i].ids, id, rs[i-1].ids))
				}
			}
			for id := range cur {
				if !prev[id] && !late[id] {
					res.Add(pbt.D("redelivery-extra-row", "window %s: re-delivery added id %d which was not late on arrival", k, id))
				}
			}
		}
	}
	// a re-delivered window (all groups together) must contain more than before
	byWid := map[string]map[int]map[int]bool{} // window_id -> delivery seq -> ids
	for _, r := range out.rows {
		wk := r.wid
		if c.Kind == "session" {
			wk = r.g + "|" + r.wid // sessions are per key; two keys may share start and end
		}
		if byWid[wk] == nil {
			byWid[wk] = map[int]map[int]bool{}
		}
		if byWid[wk][r.seq] == nil {
			byWid[wk][r.seq] = map[int]bool{}
		}
		for _, id := range r.ids {
			byWid[wk][r.seq][id] = true
		}
	}
	for wid, m := range byWid {
		var seqs []int
		for sq := range m {
			seqs = append(seqs, sq)
		}
		sort.Ints(seqs)
		for i := 1; i < len(seqs); i++ {
			if len(m[seqs[i]]) <= len(m[seqs[i-1]]) {
				res.Add(pbt.D("redelivery-same", "window %s re-delivered without any additional row (%d ids, then %d)", wid, len(m[seqs[i-1]]), len(m[seqs[i]])))
			}
		}
	}
	// (c) late updates in barrier mode (tumbling and sliding): zones derived from the model
	if c.Barrier && c.Kind != "session" {
		checkLateUpdates(c, arr, out.rows, &res)
	}
	// (d) garbage rows change nothing: same accepted contents without them
	if hasGarbage && len(res.Discs) == 0 {
		var clean []et.Event
		var cp []int
		for i, e := range c.Events {
			if e.Garbage == "" {
				clean = append(clean, e)
				cp = append(cp, c.Pauses[i])
			}
		}
		var r2 pbt.Result
		o2 := feed(c, clean, cp, &r2)
		if o2.ok {
			a, b := canonAccepted(c, out.rows, late), canonAccepted(c, o2.rows, late)
			if a != b {
				res.Add(pbt.D("garbage-changes-result", "%s: results differ with and without the far-future/unplaceable rows:\n    with:    %s\n    without: %s", c.Kind, a, b))
			}
		}
		res.Class("garbage-twin")
	}
	burst := true
	for _, p := range c.Pauses {
		if p != 0 {
			burst = false
		}
	}
	wins := map[string]bool{}
	for _, r := range out.rows {
		wins[r.wid] = true
	}
	res.Class("kind:" + c.Kind)
	if hasLate {
		res.Class("late-row")
	}
	if hasGarbage {
		res.Class("garbage-row")
	}
	if c.ALMs > 0 {
		res.Class("allowed-lateness")
	}
	if burst && len(c.Events) >= 10 {
		res.Class("burst>=10")
	}
	res.NonTrivial = hasLate || hasGarbage || (burst && len(c.Events) >= 10 && len(wins) >= 2)
	return
}

// checkLateUpdates: for each late-on-arrival row L and each window W containing it that had fired before L
// arrived: must-update if wm < W.end+AL and ts(L) >= wm-AL; must-not if wm >= W.end+AL (the watermark moves
// inside the ingesting call, so the window is closed for L on arrival whatever the trigger goroutine has done);
// otherwise (window open, row older than wm-AL) either.
func checkLateUpdates(c Case, arr []et.Arrival, rows []drow, res *pbt.Result) {
	evs := c.Events
	for i, L := range evs {
		if L.Garbage != "" || !arr[i].Late {
			continue
		}
		wm := arr[i].WM
		for _, ws := range windowsOf(c, L.TS) {
			we := ws + c.SizeMs
			// did W fire before L arrived (barrier mode: every due window had been delivered)?
			firedBefore := false
			for j := 0; j < i; j++ {
				e := evs[j]
				if e.Garbage == "" && !arr[j].Late && e.G == L.G && e.TS >= ws && e.TS < we && we <= arr[i].WM {
					// for sliding windows the first interval is bounded by s0; only count intervals the engine emits
					firedBefore = true
				}
			}
			if !firedBefore {
				continue
			}
			delivered := 0
			withL := 0
			for _, r := range rows {
				if r.g == L.G && r.ws == ws {
					delivered++
					for _, id := range r.ids {
						if id == L.ID {
							withL++
						}
					}
				}
			}
			if delivered == 0 {
				continue // e.g. a sliding interval before s0
			}
			open := wm < we+c.ALMs
			if open && L.TS >= wm-c.ALMs {
				if withL == 0 {
					res.Add(pbt.D("late-update-missing", "%s: late id %d ts=%d arrived at watermark %d into fired window [%d,%d) still inside the allowance (%d ms): no re-delivery contains it", c.Kind, L.ID, L.TS, wm, ws, we, c.ALMs))
				}
				continue
			}
			if !open && withL > 0 {
				// The watermark moves inside the ingesting call, so on arrival of L it already stood at wm >= we + AL:
				// the window is closed for L whether or not the trigger goroutine has removed its bookkeeping yet.
				res.Add(pbt.D("late-update-after-allowance", "%s: late id %d ts=%d arrived at watermark %d, at or after window [%d,%d) + allowance %d, yet a result contains it", c.Kind, L.ID, L.TS, wm, ws, we, c.ALMs))
				continue
			}
		}
	}
}

func features(c Case) []string {
	var f []string
	if c.Kind == "session" {
		for _, e := range c.Events {
			if e.Garbage == "future" {
				f = append(f, "session-far-future")
				break
			}
		}
		if c.ALMs > 0 {
			f = append(f, "session-late-update")
		}
	}
	if c.Kind == "sliding" && c.ALMs > 0 {
		f = append(f, "sliding-late-update")
	}
	if c.Kind == "tumbling" && c.ALMs > 0 && c.HookSeed != 0 && c.Plan == nil && !c.Idle {
		// a late row while the trigger goroutine is held up between extracting a window and handing it over
		arr := et.Model(c.Events, c.OOOMs)
		for i, e := range c.Events {
			if e.Garbage == "" && arr[i].Late {
				f = append(f, "perturbed-late-update")
				break
			}
		}
	}
	return f
}

var spec = pbt.Spec[Case]{
	ID:          "C02",
	Rule:        "generated: event-time tumbling, sliding and session windows with MAXOUTOFORDERNESS and ALLOWEDLATENESS in {0, size/2, 2*size}, 0-3 groups, jittered timelines with rows of graded lateness, bursts without pauses, far-future (year 2100) rows and rows without a usable timestamp (missing, NULL, non-numeric string); with ALLOWEDLATENESS > 0 rows are fed in barrier mode (all due firings delivered before each late row). oracle (invariants over the delivery history, each delivery stamped with the number of Emit calls begun): no early firing; every not-late-on-arrival row reported; garbage rows in no result and results equal with and without them (metamorphic twin run); a window is re-delivered only with an allowance, under the same window_id, with contents = previous + late rows; late row into a fired window still inside the allowance => re-delivery containing it; arriving when the watermark has reached window end + allowance => not contained. non-trivial = a late row, a garbage row, or a burst >= 10 rows with >= 2 windows; distinct by case hash",
	Assumptions: []string{"lateness of an update is judged by window end + allowance (Flink semantics); in the sliver where the window is still open but the row is older than watermark - allowance either outcome is accepted", "rows late on arrival may be counted or not"},
	Gen:         genCase,
	Run:         runCase,
	Features:    features,
}

func TestProp(t *testing.T)    { pbt.RunProp(t, spec) }
func TestReplay(t *testing.T)  { pbt.RunReplay(t, spec) }
func TestWitness(t *testing.T) { pbt.RunWitnesses(t, spec) }

// hookSeed: two cases in three run with schedule perturbation at the engine's verif-tagged points.
func hookSeed(t *rapid.T) uint64 {
	if rapid.IntRange(0, 2).Draw(t, "hookon") == 0 {
		return 0
	}
	return uint64(rapid.IntRange(1, 1<<30).Draw(t, "hookseed"))
}
