package c02

import (
	"fmt"
	"sort"
	"time"

	"pgregory.net/rapid"
	"verifharness/internal/et"
	"verifharness/internal/pbt"
	"verifharness/internal/run"
)

// Planted scenario for session windows with ALLOWEDLATENESS: one key forms 2-3 sessions (gaps above the timeout),
// a row of another key pushes the watermark past the last session's end so that all of them fire, then late rows
// of the first key arrive whose timestamps lie strictly inside one of the fired sessions (so no session is
// extended or merged). Zones: ts >= watermark - AL (then the session is necessarily still inside the allowance)
// => a re-delivery under the session's window_id holding the previous rows plus the late one; ts < watermark - AL
// and the session's end + AL <= watermark => the row changes nothing; ts < watermark - AL while the session is still
// inside the allowance => either (the two clauses of the property disagree there, as for tumbling windows), but if
// it is taken it must be a re-delivery of that session with contents previous + late.

type SLate struct {
	Session int   `json:"session"` // index of the targeted session
	TS      int64 `json:"ts"`
	ID      int   `json:"id"`
}

type SPlan struct {
	Sessions [][]et.Event `json:"sessions"` // key g1, in order
	Twin     bool         `json:"twin,omitempty"` // the key g10 (g1 is a prefix of it) has sessions over the same stretches of time
	Pusher   et.Event     `json:"pusher"`   // key g2
	Late     []SLate      `json:"late"`
}

func genSessionLate(t *rapid.T) Case {
	c := Case{Kind: "session", Groups: 3, Barrier: true}
	c.SizeMs = rapid.SampledFrom([]int64{500, 1000, 2000}).Draw(t, "timeout")
	T := c.SizeMs
	c.OOOMs = rapid.SampledFrom([]int64{0, T / 2, 2 * T}).Draw(t, "ooo")
	c.ALMs = T * int64(rapid.IntRange(1, 8).Draw(t, "alk"))
	p := &SPlan{}
	ns := rapid.IntRange(2, 3).Draw(t, "nsessions")
	cur := et.Base + rapid.Int64Range(0, 3*T).Draw(t, "start")
	id := 0
	for s := 0; s < ns; s++ {
		n := rapid.IntRange(1, 3).Draw(t, "n")
		var evs []et.Event
		for i := 0; i < n; i++ {
			if i > 0 {
				cur += rapid.Int64Range(0, T-1).Draw(t, "in")
			}
			evs = append(evs, et.Event{ID: id, TS: cur, G: "g1", V: 1})
			id++
		}
		p.Sessions = append(p.Sessions, evs)
		// gap to the next session: above the timeout, from barely to clearly
		cur += T + rapid.SampledFrom([]int64{1, 2, T / 4, T / 2, T, 3 * T}).Draw(t, "gap")
	}
	p.Twin = rapid.Bool().Draw(t, "twin")
	lastEnd := p.Sessions[ns-1][len(p.Sessions[ns-1])-1].TS + T
	p.Pusher = et.Event{ID: id, TS: lastEnd + c.OOOMs + rapid.Int64Range(0, T).Draw(t, "extra"), G: "zz", V: 1}
	id++
	wm := p.Pusher.TS - c.OOOMs
	nl := rapid.IntRange(1, 3).Draw(t, "nlate")
	for i := 0; i < nl; i++ {
		s := rapid.IntRange(0, ns-1).Draw(t, "target")
		evs := p.Sessions[s]
		lo, hi := evs[0].TS, evs[len(evs)-1].TS
		ts := rapid.Int64Range(lo, hi).Draw(t, "lts")
		// aim at the allowance boundary when it falls inside the session
		if b := wm - c.ALMs; b >= lo && b <= hi && rapid.Bool().Draw(t, "atbound") {
			ts = b - int64(rapid.IntRange(0, 1).Draw(t, "below"))
			if ts < lo {
				ts = lo
			}
		}
		p.Late = append(p.Late, SLate{Session: s, TS: ts, ID: id})
		id++
	}
	c.Plan = p
	c.HookSeed = hookSeed(t)
	return c
}

func runSessionLate(c Case) (res pbt.Result) {
	p := c.Plan
	T := c.SizeMs
	in, err := run.Open(sqlOf(c))
	if err != nil {
		res.Add(pbt.D("execute-error", "%v", err))
		return
	}
	defer in.Stop()
	emit := func(e et.Event) { in.Emit(et.Row(e, "ms", "int64", true)) }
	twinID := 500000
	for _, s := range p.Sessions {
		for _, e := range s {
			emit(e)
			if p.Twin {
				emit(et.Event{ID: twinID + e.ID, TS: e.TS, G: "g10", V: 1}) // same timestamp: a later one would make the next row of g1 late
			}
		}
	}
	emit(p.Pusher)
	ns := len(p.Sessions)
	g1rows := func(ds []run.Delivery) []drow {
		var r2 pbt.Result
		var out []drow
		for _, r := range parse(ds, &r2) {
			if r.g == "g1" {
				out = append(out, r)
			}
		}
		return out
	}
	if !in.WaitFor(pbt.Wait(4*time.Second), func(ds []run.Delivery) bool { return len(g1rows(ds)) >= ns }) {
		res.Add(pbt.D("not-fired", "session timeout %dms ooo %dms: %d sessions of g1 ended before watermark %d, but only %d were delivered", T, c.OOOMs, ns, p.Pusher.TS-c.OOOMs, len(g1rows(in.Deliveries()))))
		return
	}
	first := g1rows(in.Deliveries())
	sort.Slice(first, func(i, j int) bool { return first[i].ws < first[j].ws })
	if len(first) != ns {
		res.Add(pbt.D("session-count", "expected %d sessions of g1, got %d: %v", ns, len(first), first))
		return
	}
	for i, s := range p.Sessions {
		if first[i].ws != s[0].TS || first[i].we != s[len(s)-1].TS+T || len(first[i].ids) != len(s) {
			res.Add(pbt.D("session-shape", "session %d of g1: got [%d,%d) ids %v, want [%d,%d) with %d rows", i, first[i].ws, first[i].we, first[i].ids, s[0].TS, s[len(s)-1].TS+T, len(s)))
			return
		}
	}
	wm := p.Pusher.TS - c.OOOMs
	// contents per session as the model sees them
	model := make([]map[int]bool, ns)
	for i, s := range p.Sessions {
		model[i] = map[int]bool{}
		for _, e := range s {
			model[i][e.ID] = true
		}
	}
	inside, outside, eithers := 0, 0, 0
	optional := map[int]bool{}
	for _, L := range p.Late {
		emit(et.Event{ID: L.ID, TS: L.TS, G: "g1", V: 1})
		want := L.TS >= wm-c.ALMs
		either := !want && wm < first[L.Session].we+c.ALMs
		if either {
			eithers++
			if in.WaitFor(pbt.Wait(40*time.Millisecond), func(ds []run.Delivery) bool {
				for _, r := range g1rows(ds) {
					for _, id := range r.ids {
						if id == L.ID {
							return true
						}
					}
				}
				return false
			}) {
				want = true
			} else {
				optional[L.ID] = true // may still turn up later: not held against the session's contents
				continue
			}
		}
		has := func(ds []run.Delivery) bool {
			for _, r := range g1rows(ds) {
				for _, id := range r.ids {
					if id == L.ID {
						return true
					}
				}
			}
			return false
		}
		if want {
			inside++
			if !in.WaitFor(pbt.Wait(3*time.Second), has) {
				res.Add(pbt.D("late-update-missing", "session (timeout %dms, ooo %dms, allowance %dms): late id %d ts=%d arrived at watermark %d into fired session %d [%d,%d) of g1, %d ms inside the allowance; no re-delivery contains it (sessions of g1: %d)", T, c.OOOMs, c.ALMs, L.ID, L.TS, wm, L.Session, first[L.Session].ws, first[L.Session].we, L.TS-(wm-c.ALMs), ns))
				return
			}
			model[L.Session][L.ID] = true
			// the newest delivery under that window_id holds exactly the model contents
			var lastRow *drow
			rows := g1rows(in.Deliveries())
			for i := range rows {
				if rows[i].wid == first[L.Session].wid {
					lastRow = &rows[i]
				}
			}
			if lastRow == nil {
				res.Add(pbt.D("redelivery-other-id", "late id %d was delivered, but not under window_id %q of its session", L.ID, first[L.Session].wid))
				return
			}
			got := map[int]bool{}
			for _, id := range lastRow.ids {
				if !optional[id] {
					got[id] = true
				}
			}
			if fmt.Sprint(sortedKeys(got)) != fmt.Sprint(sortedKeys(model[L.Session])) {
				res.Add(pbt.D("redelivery-contents", "session %d of g1 re-delivered with ids %v, want previous + late = %v", L.Session, sortedKeys(got), sortedKeys(model[L.Session])))
				return
			}
			if lastRow.ws != first[L.Session].ws || lastRow.we != first[L.Session].we {
				res.Add(pbt.D("redelivery-interval", "session %d of g1 re-delivered as [%d,%d), was [%d,%d) and the late row lies inside it", L.Session, lastRow.ws, lastRow.we, first[L.Session].ws, first[L.Session].we))
			}
		} else {
			outside++
			in.Settle(5 * time.Millisecond)
			if has(in.Deliveries()) {
				res.Add(pbt.D("late-beyond-allowance-counted", "late id %d ts=%d is older than watermark %d - allowance %d, yet a result contains it", L.ID, L.TS, wm, c.ALMs))
				return
			}
		}
	}
	in.Settle(3 * time.Millisecond)
	// the other sessions stayed as they were
	rows := g1rows(in.Deliveries())
	latest := map[string]drow{}
	for _, r := range rows {
		latest[r.wid] = r
	}
	for i := range p.Sessions {
		r, ok := latest[first[i].wid]
		if !ok {
			continue
		}
		got := map[int]bool{}
		for _, id := range r.ids {
			if !optional[id] {
				got[id] = true
			}
		}
		if fmt.Sprint(sortedKeys(got)) != fmt.Sprint(sortedKeys(model[i])) {
			res.Add(pbt.D("redelivery-contents", "session %d of g1 finally holds ids %v, want %v", i, sortedKeys(got), sortedKeys(model[i])))
		}
	}
	if len(latest) != ns {
		res.Add(pbt.D("session-count", "late rows strictly inside fired sessions created or removed sessions: %d window ids for %d sessions", len(latest), ns))
	}
	if p.Twin {
		// the sessions of g10 lie over the same stretches of time; late rows of g1 are none of their business
		var r2 pbt.Result
		per := map[string]int{}
		for _, r := range parse(in.Deliveries(), &r2) {
			if r.g != "g10" {
				continue
			}
			per[r.wid]++
			for _, id := range r.ids {
				if id < twinID {
					res.Add(pbt.D("late-row-in-foreign-session", "a session of g10 [%d,%d) contains id %d, a row of g1", r.ws, r.we, id))
				}
			}
		}
		for wid, n := range per {
			if n > 1 {
				res.Add(pbt.D("foreign-session-redelivered", "session %s of g10 was delivered %d times although only g1 received late rows", wid, n))
			}
		}
		res.Class("planted:prefix-related-keys")
	}
	res.Class("kind:session")
	res.Class("planted:session-late")
	if inside > 0 {
		res.Class("late-inside-allowance")
	}
	if outside > 0 {
		res.Class("late-beyond-allowance")
	}
	if eithers > 0 {
		res.Class("late-old-row-open-session")
	}
	older := false
	for _, L := range p.Late {
		if L.Session < ns-1 && L.TS >= wm-c.ALMs {
			older = true
		}
	}
	if older {
		res.Class("late-into-older-session")
	}
	res.NonTrivial = inside > 0
	return
}

func sortedKeys(m map[int]bool) []int {
	var ks []int
	for k := range m {
		ks = append(ks, k)
	}
	sort.Ints(ks)
	return ks
}
