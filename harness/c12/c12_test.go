package c12

import (
	"fmt"
	"math"
	"strconv"
	"strings"
	"testing"
	"time"

	"github.com/rulego/streamsql"
	"github.com/rulego/streamsql/condition"
	"pgregory.net/rapid"
	"verifharness/internal/gen"
	"verifharness/internal/pbt"
	"verifharness/internal/run"
)

type Cmp struct {
	Col string `json:"col"`
	Op  string `json:"op"`
	Lit string `json:"lit"` // as written (number or quoted string)
	Sp  [3]int `json:"sp"`  // spaces before col, around op
}

type Case struct {
	Parts []Cmp     `json:"parts"`
	Join  string    `json:"join"` // "&&" or "||" (for len(Parts) > 1)
	Rows  []gen.Row `json:"rows"`
	SQL   bool      `json:"sql"` // also run through SQL WHERE / HAVING
}

var ops = []string{"==", "!=", ">", ">=", "<", "<="}
var cols = []string{"a", "b", "c"}

var numLits = []string{"0", "1", "5", "-1", "-5", "2.5", "-2.5", "0.1", "100", "3", "9007199254740992", "9007199254740993", "-9007199254740993", "9223372036854775807", "1.0", "255", "256", "4294967295", "0.30000000000000004"}
var strLits = []string{"'a'", "'b'", "''", "'5'", "'A'", "'ab'", "'a b'", "'true'", "'é'"}

// literals whose text and value differ for the general engine (escapes), or that contain the characters the
// shortcut splitters look for
var escLits = []string{`'a\\b'`, `'a\nb'`, `'a\tb'`, `'\\'`, `'a"b'`, `'a && b'`, `'a || b'`, `' a'`, `'a '`, `'\u0061'`, `'\x61'`, `'a\\'`, `'(a)'`, `'a == 1'`, `'a\b'`, `'\q'`}
var escVals = []string{`a\\b`, `a\b`, `a\nb`, "a\nb", `a\tb`, "a\tb", `\`, `\\`, `a"b`, "a && b", "a || b", " a", "a ", `\u0061`, `\x61`, `a\`, `a\\`, "(a)", "a == 1", "a\bb", "a", `\q`, "q"}

func genCmp(t *rapid.T) Cmp {
	c := Cmp{Col: rapid.SampledFrom(cols).Draw(t, "col"), Op: rapid.SampledFrom(ops).Draw(t, "op")}
	if rapid.IntRange(0, 3).Draw(t, "litkind") == 0 {
		c.Lit = rapid.SampledFrom(strLits).Draw(t, "slit")
		if rapid.IntRange(0, 2).Draw(t, "esc") == 0 {
			c.Lit = rapid.SampledFrom(escLits).Draw(t, "elit")
		}
	} else {
		lits := numLits
		if pbt.Open("C12", "beyond-2^53") {
			lits = []string{"0", "1", "5", "-1", "-5", "2.5", "-2.5", "0.1", "100", "3", "1.0", "255", "256", "4294967295", "0.30000000000000004"}
		}
		if rapid.IntRange(0, 4).Draw(t, "randlit") == 0 {
			c.Lit = strconv.Itoa(rapid.IntRange(-20, 20).Draw(t, "ilit"))
		} else {
			c.Lit = rapid.SampledFrom(lits).Draw(t, "nlit")
		}
	}
	for i := range c.Sp {
		c.Sp[i] = rapid.IntRange(0, 2).Draw(t, "sp")
	}
	return c
}

func genVal(t *rapid.T, near []float64) gen.Val {
	k := rapid.IntRange(0, 27).Draw(t, "vk")
	pick := func() int64 {
		if len(near) > 0 && rapid.Bool().Draw(t, "near") {
			n := near[rapid.IntRange(0, len(near)-1).Draw(t, "ni")]
			return int64(n) + int64(rapid.IntRange(-1, 1).Draw(t, "d"))
		}
		return int64(rapid.IntRange(-6, 6).Draw(t, "small"))
	}
	big := !pbt.Open("C12", "beyond-2^53")
	switch k {
	case 0:
		return gen.Nil()
	case 1:
		return gen.Missing()
	case 2, 3, 4:
		return gen.Int(pick())
	case 5:
		return gen.Int64(pick())
	case 6:
		return gen.Val{K: "int32", I: int64(int32(pick()))}
	case 7:
		return gen.Val{K: "int16", I: int64(int16(pick()))}
	case 8:
		return gen.Val{K: "int8", I: int64(int8(pick()))}
	case 9:
		return gen.Val{K: "uint8", U: uint64(uint8(pick()))}
	case 10:
		return gen.Val{K: "uint16", U: uint64(uint16(pick()))}
	case 11:
		return gen.Val{K: "uint32", U: uint64(uint32(pick()))}
	case 12:
		return gen.Val{K: "uint64", U: uint64(rapid.IntRange(0, 300).Draw(t, "u64"))}
	case 13:
		return gen.Val{K: "uint", U: uint64(rapid.IntRange(0, 300).Draw(t, "u"))}
	case 14, 15:
		return gen.Float(float64(pick()) + float64(rapid.IntRange(-2, 2).Draw(t, "frac"))/4)
	case 16:
		return gen.Val{K: "float32", F: strconv.FormatFloat(float64(float32(float64(pick())+0.1)), 'g', -1, 64)}
	case 17:
		return gen.Float(math.NaN())
	case 18:
		return gen.Float(math.Inf(1))
	case 19:
		return gen.Float(math.Inf(-1))
	case 20:
		if !big {
			return gen.Int64(pick())
		}
		return gen.Int64(rapid.SampledFrom([]int64{1<<53 + 1, 1 << 53, 1<<53 - 1, -(1<<53 + 1), math.MaxInt64, math.MinInt64, 1<<53 + 2}).Draw(t, "bigi"))
	case 21:
		if !big {
			return gen.Val{K: "uint64", U: 7}
		}
		return gen.Val{K: "uint64", U: rapid.SampledFrom([]uint64{1<<53 + 1, math.MaxUint64, 1 << 63, 1<<63 + 1}).Draw(t, "bigu")}
	case 22:
		if rapid.IntRange(0, 2).Draw(t, "escv") == 0 {
			return gen.Str(rapid.SampledFrom(escVals).Draw(t, "estr"))
		}
		return gen.Str(rapid.SampledFrom([]string{"5", "-1", "2.5", "abc", "", "a", "b", "A", "ab", "true", "é", "a b"}).Draw(t, "str"))
	case 23:
		return gen.Bool(rapid.Bool().Draw(t, "bool"))
	case 24:
		return gen.List(gen.Int(1), gen.Int(2))
	case 25:
		return gen.Map(map[string]gen.Val{"k": gen.Int(1)})
	case 26:
		return gen.Float(0.1 + 0.2)
	default:
		return gen.Float(float64(pick()))
	}
}

func genCase(t *rapid.T) Case {
	n := 1
	if rapid.IntRange(0, 2).Draw(t, "compound") == 0 {
		n = rapid.IntRange(2, 4).Draw(t, "nparts")
	}
	c := Case{Join: rapid.SampledFrom([]string{"&&", "||"}).Draw(t, "join")}
	var near []float64
	for i := 0; i < n; i++ {
		p := genCmp(t)
		c.Parts = append(c.Parts, p)
		if f, err := strconv.ParseFloat(p.Lit, 64); err == nil && math.Abs(f) < 1e15 {
			near = append(near, f)
		}
	}
	nr := rapid.IntRange(1, 10).Draw(t, "nrows")
	for i := 0; i < nr; i++ {
		r := gen.Row{}
		for _, col := range cols {
			r[col] = genVal(t, near)
		}
		c.Rows = append(c.Rows, r)
	}
	c.SQL = rapid.IntRange(0, 9).Draw(t, "sql") == 0
	return c
}

func sp(n int) string { return strings.Repeat(" ", n) }

func (c Cmp) text() string {
	return sp(c.Sp[0]) + c.Col + sp(c.Sp[1]) + c.Op + sp(c.Sp[2]) + c.Lit
}

func fastText(c Case) string {
	var ps []string
	for _, p := range c.Parts {
		ps = append(ps, p.text())
	}
	return strings.Join(ps, " "+c.Join+" ")
}

func generalText(c Case) string {
	var ps []string
	for _, p := range c.Parts {
		ps = append(ps, "("+p.text()+")")
	}
	return strings.Join(ps, " "+c.Join+" ")
}

func evalSafe(cond condition.Condition, row map[string]any) (r bool, panicked any) {
	defer func() {
		if e := recover(); e != nil {
			panicked = e
		}
	}()
	return cond.Evaluate(row), nil
}

func sqlPred(s string) string {
	s = strings.ReplaceAll(s, "&&", "AND")
	return strings.ReplaceAll(s, "||", "OR")
}

func runCase(c Case) (res pbt.Result) {
	ft, gt := fastText(c), generalText(c)
	fc, err1 := condition.NewExprCondition(ft)
	gc, err2 := condition.NewExprCondition(gt)
	if (err1 == nil) != (err2 == nil) {
		res.Add(pbt.D("compile-differs", "%q compiles: %v, %q compiles: %v", ft, err1, gt, err2))
		return
	}
	if err1 != nil {
		res.Class("both-rejected")
		return
	}
	res.Count("programs", 1)
	interesting := false
	for _, r := range c.Rows {
		row := r.Go()
		a, p1 := evalSafe(fc, row)
		b, p2 := evalSafe(gc, run.DeepCopy(row).(map[string]any))
		res.Count("disagreements_checked", 1)
		if p1 != nil || p2 != nil {
			res.Add(pbt.D("panic", "%q on %v: fast panic=%v general panic=%v", ft, r, p1, p2))
			continue
		}
		if a != b {
			res.Add(pbt.D("decision-differs", "%q on %v: shortcut path says %v, general evaluator (%q) says %v", ft, r, a, gt, b))
		}
		for _, p := range c.Parts {
			v := r[p.Col]
			isStrLit := strings.HasPrefix(p.Lit, "'")
			_, isNum := v.Num()
			if v.IsNull() || (isStrLit && isNum) || (!isStrLit && v.K == "str") || v.K == "bool" || v.K == "list" || v.K == "map" {
				interesting = true
			}
			if f, ok := v.Num(); ok && (math.IsNaN(f) || math.IsInf(f, 0) || math.Abs(f) > 1<<53) {
				interesting = true
			}
		}
	}
	if c.SQL {
		runSQL(c, &res)
		runWhen(c, &res)
		res.Class("sql")
	}
	if len(c.Parts) > 1 {
		res.Class("compound" + c.Join)
	} else {
		res.Class("single")
	}
	res.NonTrivial = interesting
	return
}

// runSQL: the same pair through SQL WHERE (EmitSync) and HAVING (one-row counting window with an OR'ed sentinel).
func runSQL(c Case, res *pbt.Result) {
	ft, gt := sqlPred(fastText(c)), sqlPred(generalText(c))
	open := func(q string) *streamsql.Streamsql {
		s := streamsql.New()
		if err := s.Execute(q); err != nil {
			return nil
		}
		return s
	}
	a := open("SELECT id FROM stream WHERE " + ft)
	b := open("SELECT id FROM stream WHERE " + gt)
	if (a == nil) != (b == nil) {
		res.Add(pbt.D("sql-compile-differs", "WHERE %q accepted=%v, WHERE %q accepted=%v", ft, a != nil, gt, b != nil))
	}
	if a != nil && b != nil {
		for i, r := range c.Rows {
			ra := r.Go()
			ra["id"] = i
			rb := run.DeepCopy(ra).(map[string]any)
			oa, ea := a.EmitSync(ra)
			ob, eb := b.EmitSync(rb)
			res.Count("disagreements_checked", 1)
			if (oa != nil) != (ob != nil) || (ea != nil) != (eb != nil) {
				res.Add(pbt.D("where-differs", "WHERE %q on %v -> (%v,%v); WHERE %q -> (%v,%v)", ft, r, oa, ea, gt, ob, eb))
			}
		}
	}
	if a != nil {
		a.Stop()
	}
	if b != nil {
		b.Stop()
	}
	// HAVING: flat OR chain with a sentinel part keeps the shortcut shape; only for || or single predicates
	if len(c.Parts) > 1 && c.Join == "&&" {
		return
	}
	sel := "SELECT last_value(a) AS a, last_value(b) AS b, last_value(c) AS c, max(id) AS id FROM stream GROUP BY CountingWindow(1) HAVING "
	// sentinel part first: OR short-circuits, so the sentinel row passes even when p fails to evaluate on it
	ha, e1 := run.Open(sel + "id == -1 OR " + ft)
	hb, e2 := run.Open(sel + "(id == -1) OR " + gt)
	if e1 != nil || e2 != nil {
		if (e1 == nil) != (e2 == nil) {
			res.Add(pbt.D("sql-compile-differs", "HAVING %q: %v; HAVING %q: %v", ft, e1, gt, e2))
		}
		if ha != nil {
			ha.Stop()
		}
		if hb != nil {
			hb.Stop()
		}
		return
	}
	defer ha.Stop()
	defer hb.Stop()
	for i, r := range c.Rows {
		ra := r.Go()
		ra["id"] = i
		ha.Emit(ra)
		hb.Emit(run.DeepCopy(ra).(map[string]any))
	}
	ha.Emit(map[string]any{"id": -1})
	hb.Emit(map[string]any{"id": -1})
	done := func(ds []run.Delivery) bool {
		for _, d := range ds {
			for _, r := range d.Rows {
				if f, _ := gen.ToFloat(r["id"]); f == -1 {
					return true
				}
			}
		}
		return false
	}
	oka := ha.WaitFor(pbt.Wait(3*time.Second), done)
	okb := hb.WaitFor(pbt.Wait(3*time.Second), done)
	ids := func(in *run.Inst) string {
		var s []string
		for _, r := range in.Rows() {
			s = append(s, fmt.Sprint(r["id"]))
		}
		return strings.Join(s, ",")
	}
	if !oka || !okb || ids(ha) != ids(hb) {
		res.Add(pbt.D("having-differs", "HAVING %q passes ids [%s] (sentinel seen %v); HAVING %q passes [%s] (sentinel seen %v)", ft, ids(ha), oka, gt, ids(hb), okb))
	}
}

// runWhen: the same pair as OVER (WHEN p) of an analytic call and as GLOBAL WINDOW TRIGGER WHEN over last_value(col).
func runWhen(c Case, res *pbt.Result) {
	ft, gt := sqlPred(fastText(c)), sqlPred(generalText(c))
	open := func(q string) *streamsql.Streamsql {
		s := streamsql.New()
		if err := s.Execute(q); err != nil {
			return nil
		}
		return s
	}
	oa := open("SELECT id, acc_count(id) OVER (WHEN " + ft + ") AS n FROM stream")
	ob := open("SELECT id, acc_count(id) OVER (WHEN " + gt + ") AS n FROM stream")
	if (oa == nil) != (ob == nil) {
		res.Add(pbt.D("sql-compile-differs", "OVER (WHEN %q) accepted=%v, OVER (WHEN %q) accepted=%v", ft, oa != nil, gt, ob != nil))
	}
	if oa != nil && ob != nil {
		for i, r := range c.Rows {
			ra := r.Go()
			ra["id"] = i
			rb := run.DeepCopy(ra).(map[string]any)
			xa, ea := oa.EmitSync(ra)
			xb, eb := ob.EmitSync(rb)
			res.Count("disagreements_checked", 1)
			if fmt.Sprint(xa) != fmt.Sprint(xb) || (ea != nil) != (eb != nil) {
				res.Add(pbt.D("over-when-differs", "OVER (WHEN %q) on %v -> (%v,%v); OVER (WHEN %q) -> (%v,%v)", ft, r, xa, ea, gt, xb, eb))
				break
			}
		}
	}
	if oa != nil {
		oa.Stop()
	}
	if ob != nil {
		ob.Stop()
	}
	// TRIGGER WHEN: every column reference becomes last_value(col), which is the current row's value; a sentinel part
	// (first, so that OR short-circuits on it) fires the remainder. Only for || chains and single predicates.
	if len(c.Parts) > 1 && c.Join == "&&" {
		return
	}
	trig := func(general bool) string {
		var ps []string
		for _, p := range c.Parts {
			t := sp(p.Sp[0]) + "last_value(" + p.Col + ")" + sp(p.Sp[1]) + p.Op + sp(p.Sp[2]) + p.Lit
			if general {
				t = "(" + t + ")"
			}
			ps = append(ps, t)
		}
		return strings.Join(ps, " OR ")
	}
	sel := "SELECT collect(id) AS ids FROM stream GROUP BY GLOBAL WINDOW TRIGGER WHEN "
	qa, qb := sel+"last_value(id) == -1 OR "+trig(false), sel+"(last_value(id) == -1) OR "+trig(true)
	ta, e1 := run.Open(qa)
	tb, e2 := run.Open(qb)
	if e1 != nil || e2 != nil {
		if (e1 == nil) != (e2 == nil) {
			res.Add(pbt.D("sql-compile-differs", "%q: %v; %q: %v", qa, e1, qb, e2))
		}
		if ta != nil {
			ta.Stop()
		}
		if tb != nil {
			tb.Stop()
		}
		return
	}
	defer ta.Stop()
	defer tb.Stop()
	for i, r := range c.Rows {
		ra := r.Go()
		ra["id"] = i
		ta.Emit(ra)
		tb.Emit(run.DeepCopy(ra).(map[string]any))
	}
	ta.Emit(map[string]any{"id": -1})
	tb.Emit(map[string]any{"id": -1})
	done := func(ds []run.Delivery) bool {
		for _, d := range ds {
			for _, r := range d.Rows {
				l, _ := r["ids"].([]any)
				for _, e := range l {
					if f, _ := gen.ToFloat(e); f == -1 {
						return true
					}
				}
			}
		}
		return false
	}
	oka := ta.WaitFor(pbt.Wait(3*time.Second), done)
	okb := tb.WaitFor(pbt.Wait(3*time.Second), done)
	ids := func(in *run.Inst) string {
		var s []string
		for _, r := range in.Rows() {
			s = append(s, fmt.Sprint(r["ids"]))
		}
		return strings.Join(s, " ")
	}
	res.Count("disagreements_checked", int64(len(c.Rows)))
	if !oka || !okb || ids(ta) != ids(tb) {
		res.Add(pbt.D("trigger-when-differs", "%q fires with ids %s (sentinel seen %v); %q fires with %s (sentinel seen %v)", qa, ids(ta), oka, qb, ids(tb), okb))
	}
}

func features(c Case) []string {
	var f []string
	for _, p := range c.Parts {
		if n, err := strconv.ParseFloat(p.Lit, 64); err == nil && math.Abs(n) >= 1<<53 {
			f = append(f, "beyond-2^53")
			return f
		}
	}
	for _, r := range c.Rows {
		for _, v := range r {
			if (v.K == "int64" || v.K == "int") && (v.I > 1<<53 || v.I < -(1<<53)) {
				f = append(f, "beyond-2^53")
				return f
			}
			if v.K == "uint64" && v.U > 1<<53 {
				f = append(f, "beyond-2^53")
				return f
			}
		}
	}
	return f
}

var spec = pbt.Spec[Case]{
	ID:          "C12",
	Rule:        "generated: predicates of the shortcut shapes - `col OP lit` for every operator with integer/negative/fractional/quoted literals and random spacing, and flat &&/|| chains of 2-4 - each paired with its parenthesised equivalent that both shortcut regexes reject; rows with every Go numeric width, NaN, +-Inf, values around 2^53 and around the literal, numeric-looking strings, bools, NULL, missing, slices, maps. oracle: condition.NewExprCondition(p).Evaluate(row) == NewExprCondition(paren(p)).Evaluate(row), no panic; one case in ten also through SQL WHERE (EmitSync), HAVING, OVER (WHEN p) of acc_count and GLOBAL WINDOW TRIGGER WHEN over last_value(col) (|| chains and single predicates), each as the same twin. counters: programs, disagreements_checked. non-trivial = some compared value is NULL/missing, of another kind than the literal, NaN/Inf or beyond 2^53; distinct by case hash",
	Assumptions: []string{"parentheses do not change the meaning of a predicate in the general (expr-lang) evaluator", "in TRIGGER WHEN last_value(col) of a group stands for the current row's value of col"},
	Gen:         genCase,
	Run:         runCase,
	Features:    features,
}

func TestProp(t *testing.T)    { pbt.RunProp(t, spec) }
func TestReplay(t *testing.T)  { pbt.RunReplay(t, spec) }
func TestWitness(t *testing.T) { pbt.RunWitnesses(t, spec) }
