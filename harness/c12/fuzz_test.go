package c12

import (
	"encoding/binary"
	"math"
	"strconv"
	"strings"
	"testing"

	"github.com/rulego/streamsql/condition"
)

// FuzzCompare: coverage-guided search over (operator, literal, value) for the 'column OP literal' shortcut against
// the general evaluator: the predicate and its parenthesised twin (which no shortcut regexp accepts) must decide
// alike on the same row. Pure functions only (no engine instance).
// Decoding: op = ops[b0 % 6]; literal: numeric text built from the literal bytes (sign, integer part, optional
// fraction) or a quoted text without quote characters; value kind = b1 % 16 over the Go types an input row can hold.
func FuzzCompare(f *testing.F) {
	f.Add(byte(0), byte(0), "5", []byte{5, 0, 0, 0, 0, 0, 0, 0})
	f.Add(byte(1), byte(1), "9007199254740993", []byte{0, 0, 0, 0, 0, 0, 0x20, 0})
	f.Add(byte(2), byte(9), "-2.5", []byte{0, 0, 0, 0, 0, 0, 4, 0xc0})
	f.Add(byte(3), byte(12), "'ab'", []byte("ab"))
	f.Add(byte(4), byte(12), "''", []byte{})
	f.Add(byte(5), byte(13), "0", []byte{1})
	f.Fuzz(func(t *testing.T, opb, kindb byte, lit string, payload []byte) {
		if len(lit) > 40 || len(payload) > 64 {
			t.Skip()
		}
		op := ops[int(opb)%len(ops)]
		literal := ""
		if strings.HasPrefix(lit, "'") {
			body := strings.Map(func(r rune) rune {
				if r == '\'' || r == '"' || r == '`' || r == '\\' || r < 0x20 {
					return -1
				}
				return r
			}, strings.ToValidUTF8(lit[1:], ""))
			literal = "'" + body + "'"
		} else {
			// keep digits, one leading '-', one '.'
			var sb strings.Builder
			dot := false
			for i, r := range lit {
				switch {
				case r >= '0' && r <= '9':
					sb.WriteRune(r)
				case r == '-' && i == 0:
					sb.WriteRune(r)
				case r == '.' && !dot && sb.Len() > 0 && sb.String() != "-":
					dot = true
					sb.WriteRune(r)
				}
			}
			literal = strings.TrimSuffix(sb.String(), ".")
			if literal == "" || literal == "-" {
				literal = "0"
			}
		}
		u := uint64(0)
		if len(payload) >= 8 {
			u = binary.LittleEndian.Uint64(payload)
		} else {
			for i, b := range payload {
				u |= uint64(b) << (8 * uint(i))
			}
		}
		var v any
		switch kindb % 16 {
		case 0:
			v = int(int64(u))
		case 1:
			v = int64(u)
		case 2:
			v = int32(u)
		case 3:
			v = int16(u)
		case 4:
			v = int8(u)
		case 5:
			v = uint(u)
		case 6:
			v = u
		case 7:
			v = uint32(u)
		case 8:
			v = uint8(u)
		case 9:
			v = math.Float64frombits(u)
		case 10:
			v = float32(math.Float32frombits(uint32(u)))
		case 11:
			v = nil
		case 12:
			v = strings.ToValidUTF8(string(payload), "?")
		case 13:
			v = u%2 == 0
		case 14:
			v = strconv.FormatUint(u%1000, 10) // numeric-looking text
		default:
			v = float64(int64(u%2000)) - 1000 + float64(u%4)/4
		}
		fast := "a " + op + " " + literal
		general := "(" + fast + ")"
		fc, err1 := condition.NewExprCondition(fast)
		gc, err2 := condition.NewExprCondition(general)
		if (err1 == nil) != (err2 == nil) {
			t.Fatalf("VERIF-DISC kind=compile-differs detail=%q compiles: %v, %q compiles: %v", fast, err1, general, err2)
		}
		if err1 != nil {
			return
		}
		row := map[string]any{"a": v}
		if kindb%16 == 11 && u%2 == 1 {
			row = map[string]any{} // missing instead of NULL
		}
		a, p1 := evalSafe(fc, row)
		b, p2 := evalSafe(gc, row)
		if p1 != nil || p2 != nil {
			t.Fatalf("VERIF-DISC kind=panic detail=%q on a=%#v: fast panic=%v general panic=%v", fast, v, p1, p2)
		}
		if a != b {
			t.Fatalf("VERIF-DISC kind=decision-differs detail=%q on a=%#v (%T): shortcut path says %v, general evaluator (%q) says %v", fast, v, v, a, general, b)
		}
	})
}
