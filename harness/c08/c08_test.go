package c08

import (
	"fmt"
	"sort"
	"testing"
	"time"
	"verifharness/internal/hook"

	"pgregory.net/rapid"
	"verifharness/internal/et"
	"verifharness/internal/gen"
	"verifharness/internal/pbt"
	"verifharness/internal/run"
)

type Case struct {
	SizeMs   int64      `json:"size_ms"`
	SlideMs  int64      `json:"slide_ms"`
	OOOMs    int64      `json:"ooo_ms"`
	Groups   int        `json:"groups"`
	TsKind   string     `json:"ts_kind"`
	Events   []et.Event `json:"events"`
	Pauses   []int      `json:"pauses"`
	HookSeed uint64     `json:"hook_seed,omitempty"` // seed of the engine's build-tag-guarded perturbation points (0 = off)
}

var pairs = [][2]int64{{3000, 1000}, {3000, 2000}, {5000, 2000}, {2000, 2000}, {2000, 5000}, {10000, 3000}, {1000, 250}, {60000, 20000}, {4000, 1000}, {1500, 500}, {7000, 3000}, {700, 137}, {13000, 13000}, {4096, 7000}}

func genCase(t *rapid.T) Case {
	p := rapid.SampledFrom(pairs).Draw(t, "pair")
	c := Case{SizeMs: p[0], SlideMs: p[1]}
	c.OOOMs = rapid.SampledFrom([]int64{0, 0, 300, 1000, c.SlideMs, 2 * c.SizeMs}).Draw(t, "ooo")
	c.Groups = rapid.IntRange(0, 3).Draw(t, "groups")
	c.TsKind = rapid.SampledFrom([]string{"int", "int64", "float64", "time", "string"}).Draw(t, "tskind")
	scale := c.SlideMs
	if rapid.Bool().Draw(t, "scaleBySize") {
		scale = c.SizeMs
	}
	c.Events = et.GenTimeline(t, et.TLParams{SizeMs: scale, OOOMs: c.OOOMs, UnitMs: 1, Groups: c.Groups, MaxN: 30, PreFirst: true})
	c.HookSeed = hookSeed(t)
	for range c.Events {
		c.Pauses = append(c.Pauses, gen.Pause().Draw(t, "pause"))
	}
	return c
}

func sqlOf(c Case) string {
	g := ""
	if c.Groups > 0 {
		g = "g, "
	}
	return fmt.Sprintf("SELECT %scount(*) AS c, sum(v) AS s, collect(id) AS ids, window_start() AS ws, window_end() AS we FROM stream GROUP BY %sSlidingWindow('%dms','%dms') %s",
		g, g, c.SizeMs, c.SlideMs, et.With("ms", c.OOOMs, 0))
}

func floorTo(x, m int64) int64 { return x / m * m }

func runCase(c Case) (res pbt.Result) {
	hook.Configure(c.HookSeed)
	defer func() {
		for site, n := range hook.Sites() {
			res.Count("hook:"+site, n)
		}
		hook.Configure(0)
	}()
	in, err := run.Open(sqlOf(c))
	if err != nil {
		res.Add(pbt.D("execute-error", "%v for %s", err, sqlOf(c)))
		return
	}
	defer in.Stop()
	arr := et.Model(c.Events, c.OOOMs)
	byID := map[int]et.Event{}
	late := map[int]bool{}
	for i, e := range c.Events {
		byID[e.ID] = e
		late[e.ID] = arr[i].Late
	}
	max := et.MaxTS(c.Events)
	flush := et.Event{ID: -1, TS: max + c.OOOMs + 2*c.SizeMs + 2*c.SlideMs, G: "__flush__"}
	finalWM := flush.TS - c.OOOMs
	all := append(append([]et.Event{}, c.Events...), flush)
	// s0 and expected (group, interval) pairs
	minAcc := int64(-1)
	for i, e := range c.Events {
		if !arr[i].Late && (minAcc < 0 || e.TS < minAcc) {
			minAcc = e.TS
		}
	}
	s0 := floorTo(minAcc, c.SlideMs)
	type gi struct {
		g  string
		ws int64
	}
	expected := map[gi]bool{}
	for i, e := range c.Events {
		if arr[i].Late {
			continue
		}
		// intervals covering e: s in (ts-size, ts], s % slide == 0, s >= s0
		for s := floorTo(e.TS, c.SlideMs); s > e.TS-c.SizeMs && s >= s0; s -= c.SlideMs {
			if s+c.SizeMs <= finalWM {
				expected[gi{e.G, s}] = true
			}
		}
	}
	for i, e := range all {
		in.Emit(et.Row(e, "ms", c.TsKind, c.Groups > 0))
		if i < len(c.Pauses) {
			et.DoPause(c.Pauses[i])
		}
	}
	in.WaitFor(pbt.Wait(4*time.Second), func(ds []run.Delivery) bool {
		got := map[gi]bool{}
		for _, d := range ds {
			for _, r := range d.Rows {
				ws, _ := et.MsOf(r["ws"])
				g, _ := r["g"].(string)
				got[gi{g, ws}] = true
			}
		}
		for k := range expected {
			if !got[k] {
				return false
			}
		}
		return true
	})
	in.Settle(time.Millisecond)
	ds := in.Deliveries()

	delivered := map[gi][]int{}
	lastStart := int64(-1 << 62)
	for _, d := range ds {
		var batchWS int64 = -1
		for _, r := range d.Rows {
			ws, ok1 := et.MsOf(r["ws"])
			we, ok2 := et.MsOf(r["we"])
			ids, ok3 := et.IDs(r["ids"])
			if !ok1 || !ok2 || !ok3 {
				res.Add(pbt.D("bad-row", "row without ws/we/ids: %v", r))
				continue
			}
			g, _ := r["g"].(string)
			if ws%c.SlideMs != 0 || we != ws+c.SizeMs {
				res.Add(pbt.D("misaligned", "interval [%d,%d): start not a multiple of slide %d or length != size %d", ws, we, c.SlideMs, c.SizeMs))
			}
			if ws < s0 {
				res.Add(pbt.D("before-s0", "interval [%d,%d) starts before the slide-aligned start %d of the earliest accepted event", ws, we, s0))
			}
			if batchWS >= 0 && ws != batchWS {
				res.Add(pbt.D("mixed-batch", "one delivery mixes intervals %d and %d", batchWS, ws))
			}
			batchWS = ws
			k := gi{g, ws}
			if _, dup := delivered[k]; dup {
				res.Add(pbt.D("interval-twice", "group %q interval [%d,%d) delivered twice", g, ws, we))
			}
			delivered[k] = ids
			seen := map[int]bool{}
			var sum float64
			for _, id := range ids {
				e, ok := byID[id]
				if !ok {
					res.Add(pbt.D("unknown-id", "id %d in [%d,%d) was never emitted (or is the flush row)", id, ws, we))
					continue
				}
				if seen[id] {
					res.Add(pbt.D("dup-in-interval", "id %d twice in [%d,%d)", id, ws, we))
				}
				seen[id] = true
				if c.Groups > 0 && e.G != g {
					res.Add(pbt.D("wrong-group", "id %d of group %q reported in group %q", id, e.G, g))
				}
				if e.TS < ws || e.TS >= we {
					res.Add(pbt.D("wrong-interval", "id %d ts=%d reported in [%d,%d)", id, e.TS, ws, we))
				}
				sum += e.V
			}
			// every on-time row of the group inside the interval must be there
			for _, e := range c.Events {
				if late[e.ID] || (c.Groups > 0 && e.G != g) || e.TS < ws || e.TS >= we {
					continue
				}
				if !seen[e.ID] {
					res.Add(pbt.D("missing-in-interval", "on-time id %d ts=%d missing from delivered interval [%d,%d) of group %q (ids=%v)", e.ID, e.TS, ws, we, g, ids))
				}
			}
			if cnt, _ := gen.ToFloat(r["c"]); int(cnt) != len(ids) {
				res.Add(pbt.D("wrong-count", "count(*)=%v but %d ids in [%d,%d)", r["c"], len(ids), ws, we))
			}
			if s, ok := gen.ToFloat(r["s"]); !ok || !gen.Close(s, sum, 1e-9) {
				res.Add(pbt.D("wrong-sum", "sum(v)=%v want %v in [%d,%d)", r["s"], sum, ws, we))
			}
			wantID := fmt.Sprintf("%d_%d", ws*1e6, we*1e6)
			if r["window_id"] != wantID {
				res.Add(pbt.D("window-id", "window_id=%v want %s", r["window_id"], wantID))
			}
			// no early firing
			okFire := false
			for i := 0; i < int(d.Started) && i < len(all); i++ {
				if all[i].TS >= we+c.OOOMs {
					okFire = true
					break
				}
			}
			if !okFire {
				res.Add(pbt.D("early-firing", "interval ending %d delivered after %d emits, none with ts >= %d", we, d.Started, we+c.OOOMs))
			}
		}
		if batchWS >= 0 {
			if batchWS <= lastStart {
				res.Add(pbt.D("order", "interval starting %d delivered after interval starting %d", batchWS, lastStart))
			}
			lastStart = batchWS
		}
	}
	for k := range expected {
		if _, ok := delivered[k]; !ok {
			res.Add(pbt.D("interval-missing", "group %q interval [%d,%d) contains an accepted event and ended before the final watermark %d but was never delivered", k.g, k.ws, k.ws+c.SizeMs, finalWM))
		}
	}
	// late rows: once present, present in every later covering interval that ended before the final watermark
	for _, e := range c.Events {
		if !late[e.ID] {
			continue
		}
		present := false
		var starts []int64
		for s := floorTo(e.TS, c.SlideMs); s > e.TS-c.SizeMs && s >= s0; s -= c.SlideMs {
			starts = append(starts, s)
		}
		sort.Slice(starts, func(i, j int) bool { return starts[i] < starts[j] })
		for _, s := range starts {
			ids, ok := delivered[gi{e.G, s}]
			has := false
			for _, id := range ids {
				if id == e.ID {
					has = true
				}
			}
			if present && !has && s+c.SizeMs <= finalWM {
				res.Add(pbt.D("late-row-evicted", "late id %d was counted in an earlier covering interval but is missing from [%d,%d) (delivered=%v)", e.ID, s, s+c.SizeMs, ok))
			}
			if has {
				present = true
			}
		}
	}
	// classes
	multi := false
	for _, e := range c.Events {
		n := 0
		for k := range delivered {
			if k.g == e.G && e.TS >= k.ws && e.TS < k.ws+c.SizeMs {
				n++
			}
		}
		if n >= 2 {
			multi = true
		}
	}
	ooo := false
	for i, e := range c.Events {
		if !arr[i].Late && e.TS < arr[i].MaxAfter {
			ooo = true
		}
		if arr[i].Late {
			res.Class("late")
		}
	}
	wins := map[int64]bool{}
	for k := range delivered {
		wins[k.ws] = true
	}
	switch {
	case c.SlideMs > c.SizeMs:
		res.Class("slide>size")
	case c.SlideMs == c.SizeMs:
		res.Class("slide=size")
	case c.SizeMs%c.SlideMs == 0:
		res.Class("slide|size")
	default:
		res.Class("slide∤size")
	}
	if multi {
		res.Class("multi-cover")
	}
	if ooo {
		res.Class("out-of-order")
	}
	res.NonTrivial = len(wins) >= 3 && (multi || ooo)
	return
}

var spec = pbt.Spec[Case]{
	ID:          "C08",
	Rule:        "generated: event-time sliding windows over a table of (size,slide) pairs (slide dividing size or not, = size, > size), MAXOUTOFORDERNESS 0..2*size, 0-3 groups, 1-30 events from a jittered model clock, producer pauses, flush row. oracle: slide-aligned intervals of length size not before the aligned start of the earliest accepted event; every (group, interval) holding an accepted event and ended before the final watermark delivered exactly once, in increasing start order; ids of a delivered interval = all on-time rows inside it (+ optionally late rows, monotone once present); count/sum/window_id; no early firing. non-trivial = >=3 intervals and (an event covered by >=2 delivered intervals or an out-of-order row); distinct by case hash",
	Assumptions: []string{"input never dropped (block strategy)", "rows late on arrival may be counted or not, but once counted stay counted in later covering intervals"},
	Gen:         genCase,
	Run:         runCase,
}

func TestProp(t *testing.T)    { pbt.RunProp(t, spec) }
func TestReplay(t *testing.T)  { pbt.RunReplay(t, spec) }
func TestWitness(t *testing.T) { pbt.RunWitnesses(t, spec) }

// hookSeed: two cases in three run with schedule perturbation at the engine's verif-tagged points.
func hookSeed(t *rapid.T) uint64 {
	if rapid.IntRange(0, 2).Draw(t, "hookon") == 0 {
		return 0
	}
	return uint64(rapid.IntRange(1, 1<<30).Draw(t, "hookseed"))
}
