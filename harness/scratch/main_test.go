package scratch
import ("testing";"fmt";"github.com/rulego/streamsql/rsql")
func TestX(t *testing.T){
 for _,q:=range []string{"SELECT x, meta.ver AS a3 FROM stream JOIN meta ON meta.tk1 = dev.sk1","SELECT x FROM stream s JOIN meta m ON m.tk1 = s.sk1", "SELECT x FROM stream JOIN meta ON meta.tk1 = sk1"}{
  cfg,_,err:=rsql.Parse(q); fmt.Printf("%v %+v\n",err,cfg.JoinConfigs)
 }
}
