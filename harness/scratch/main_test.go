package scratch

import (
	"fmt"
	"testing"

	"github.com/rulego/streamsql"
)

func TestX(t *testing.T) {
	for _, q := range []string{
		"SELECT NOT f AS r FROM stream",
		"SELECT not f AS r FROM stream",
		"SELECT NOT f FROM stream",
		"SELECT null_if(x,'a') IS NULL AS r FROM stream",
		"SELECT nullif(x,'a') IS NULL AS r FROM stream",
		"SELECT DISTINCT ts AS x, \"a)b(\" AS y FROM stream",
		"SELECT ts AS x, 'foo(' AS y FROM stream",
		"SELECT ts AS x, 'sum(a)' AS y FROM stream",
	} {
		s := streamsql.New()
		if err := s.Execute(q); err != nil {
			fmt.Println(q, "ERR", err)
			continue
		}
		r, err := s.EmitSync(map[string]any{"f": true, "ts": 5})
		r2, err2 := s.EmitSync(map[string]any{"f": false, "x": "a", "ts": 6})
		fmt.Printf("%s => %#v %v | %#v %v\n", q, r, err, r2, err2)
		s.Stop()
	}
}
