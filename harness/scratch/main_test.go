package scratch

import (
	"fmt"
	"testing"
	"time"

	"github.com/rulego/streamsql"
)

func TestX(t *testing.T) {
	for _, q := range []string{
		"SELECT g, (sum(x)) AS a, count(*) AS c FROM stream GROUP BY g, CountingWindow(3)",
		"SELECT g, ((sum(x))) AS a FROM stream GROUP BY g, CountingWindow(3)",
		"SELECT g, ( sum (x) ) FROM stream GROUP BY g, CountingWindow(3)",
		"SELECT g, (sum(x) + 1) AS a FROM stream GROUP BY g, CountingWindow(3)",
		"SELECT g, (sum(x)) + (count(*)) AS a FROM stream GROUP BY g, CountingWindow(3)",
		"SELECT g, (percentile(x, 0.5)) AS a FROM stream GROUP BY g, CountingWindow(3)",
		"SELECT g, (sum((x))) AS a FROM stream GROUP BY g, CountingWindow(3)",
	} {
		s := streamsql.New()
		if err := s.Execute(q); err != nil {
			fmt.Println(q, "ERR", err)
			continue
		}
		s.AddSink(func(r []map[string]any) { fmt.Printf("%s => %v\n", q, r) })
		for i := 0; i < 3; i++ {
			s.Emit(map[string]any{"g": "k", "x": i + 1})
		}
		time.Sleep(300 * time.Millisecond)
		s.Stop()
	}
}
