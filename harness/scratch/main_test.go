package scratch

import (
	"fmt"
	"testing"

	"github.com/rulego/streamsql"
)

func TestX(t *testing.T) {
	for _, q := range []string{
		"SELECT CASE WHEN a > -a THEN 1 ELSE 0 END AS r FROM stream",
		"SELECT -0.25 + -a AS r FROM stream",
		"SELECT -a AS r FROM stream",
		"SELECT a - -a AS r FROM stream",
		"SELECT a - a AS r FROM stream",
		"SELECT a * -a AS r FROM stream",
		"SELECT (-a) AS r FROM stream",
		"SELECT abs(-a) AS r FROM stream",
		"SELECT abs(a, -a) AS r FROM stream",
		"SELECT d.b - -d.b AS r FROM stream",
		"SELECT CASE WHEN a > 0 THEN -a ELSE - a END AS r FROM stream",
		"SELECT CASE WHEN a > 0 THEN 1 ELSE 0 END - 1 AS r FROM stream",
		"SELECT arr[1] - 1 AS r FROM stream",
		"SELECT a -1 AS r FROM stream",
		"SELECT a-1 AS r FROM stream",
		"SELECT 'x' AS r, - a AS q FROM stream",
	} {
		s := streamsql.New()
		if err := s.Execute(q); err != nil {
			fmt.Println(q, "ERR", err)
			continue
		}
		r, err := s.EmitSync(map[string]any{"a": 2, "d": map[string]any{"b": 7}, "arr": []any{1, 5}})
		fmt.Printf("%s => %v %v\n", q, r, err)
		s.Stop()
	}
}
