package scratch

import (
	"fmt"
	"testing"
	"time"

	"verifharness/internal/run"
)

func TestX(t *testing.T) {
	rows := []map[string]any{{"v": 1.0, "g": "a"}, {"v": nil, "g": "b"}, {"v": 3.0, "g": "a"}, {"g": "b"}}
	for _, q := range []string{
		"SELECT count(1) AS c1, count(*) AS c, sum(1) AS s1, sum(2.5) AS s25, count(v) AS cv, max(7) AS m FROM stream GROUP BY CountingWindow(4)",
		"SELECT count(1) + 1 AS c1 FROM stream GROUP BY CountingWindow(4)",
	} {
		in, err := run.Open(q)
		if err != nil {
			fmt.Println("ERR", q, err)
			continue
		}
		for _, r := range rows {
			in.Emit(r)
		}
		in.WaitRows(1500*time.Millisecond, 1)
		fmt.Printf("%s\n   => %v\n", q[:60], in.Rows())
		in.Stop()
	}
}
