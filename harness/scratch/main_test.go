package scratch
import ("testing";"fmt";"github.com/rulego/streamsql/rsql")
func TestX(t *testing.T){
 for _,q:=range []string{
  "SELECT g, count(*) AS c FROM stream GROUP BY g, TumblingWindow('1s') WITH (TIMESTAMP='ts', TIMEUNIT='ms') HAVING c > 1",
  "SELECT g, count(*) AS c FROM stream GROUP BY g, TumblingWindow('1s') WITH (TIMESTAMP='ts', TIMEUNIT='ms') HAVING c > 1 ORDER BY c DESC LIMIT 3",
  "SELECT g, count(*) AS c FROM stream GROUP BY g, TumblingWindow('1s') HAVING c > 1 WITH (TIMESTAMP='ts', TIMEUNIT='ms') ORDER BY c",
  "SELECT g, count(*) AS c FROM stream GROUP BY g, TumblingWindow('1s') WITH (TIMESTAMP='ts', TIMEUNIT='ms') ORDER BY c LIMIT 2",
  "SELECT g, count(*) AS c FROM stream GROUP BY g, TumblingWindow('1s') WITH (TIMESTAMP='ts')",
  "SELECT g, count(*) AS c FROM stream GROUP BY g WITH (TIMESTAMP='ts', TIMEUNIT='ss') HAVING c >= 2"}{
  cfg,_,err:=rsql.Parse(q); if err!=nil{fmt.Println("ERR",err);continue}
  fmt.Printf("having=%q order=%v limit=%d ts=%q unit=%v\n",cfg.Having,cfg.OrderBy,cfg.Limit,cfg.WindowConfig.TsProp,cfg.WindowConfig.TimeUnit)
 }
}
