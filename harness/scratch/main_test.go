package scratch

import (
	"fmt"
	"testing"

	"github.com/rulego/streamsql"
)

func TestX(t *testing.T) {
	for _, q := range []string{
		"SELECT abs(round(n, 0)) AS r FROM stream",
		"SELECT round(n, 0) AS r FROM stream",
		"SELECT abs(n) AS r FROM stream",
		"SELECT coalesce(abs(round(n, 0)), -1) AS r FROM stream",
		"SELECT upper(s) == s AS r FROM stream",
		"SELECT coalesce((s == 'abc' or a == 0) and upper(s) == s, false) AS r FROM stream",
	} {
		s := streamsql.New()
		if err := s.Execute(q); err != nil {
			fmt.Println(q, "ERR", err)
			continue
		}
		r, err := s.EmitSync(map[string]any{"a": 2, "n": nil, "s": nil})
		r2, _ := s.EmitSync(map[string]any{"a": 2, "n": 2.5, "s": "ABC"})
		r3, _ := s.EmitSync(map[string]any{"a": 2, "n": nil, "s": nil})
		fmt.Printf("%s => %v %v | %v | %v\n", q, r, err, r2, r3)
		s.Stop()
	}
}
