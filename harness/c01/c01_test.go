package c01

import (
	"fmt"
	"sort"
	"testing"
	"time"
	"verifharness/internal/hook"

	"pgregory.net/rapid"
	"verifharness/internal/et"
	"verifharness/internal/gen"
	"verifharness/internal/pbt"
	"verifharness/internal/run"
)

// Case: event-time tumbling window (Mode "event") or processing-time (Mode "proc").
type Case struct {
	Mode   string     `json:"mode"`
	SizeMs int64      `json:"size_ms"`
	OOOMs  int64      `json:"ooo_ms"`
	Groups int        `json:"groups"`
	Unit   string     `json:"unit"`
	TsKind string     `json:"ts_kind"`
	Events []et.Event `json:"events"`
	Pauses []int      `json:"pauses"`
	// processing time: gaps (µs) between emits
	GapsUs    []int  `json:"gaps_us,omitempty"`
	HookSeed  uint64 `json:"hook_seed,omitempty"`  // seed of the engine's build-tag-guarded perturbation points (0 = off)
	LongBurst bool   `json:"long_burst,omitempty"` // 120-600 strictly increasing rows fed back to back, then silence
}

func genCase(t *rapid.T) Case {
	if rapid.IntRange(0, 99).Draw(t, "mode") < procPercent {
		return genProc(t)
	}
	if x := rapid.IntRange(0, 39).Draw(t, "long"); x == 17 || x == 29 {
		return genLongBurst(t)
	}
	c := Case{Mode: "event"}
	c.Unit = rapid.SampledFrom([]string{"ms", "ms", "ms", "ss", "ss", "ns", "mi"}).Draw(t, "unit")
	unitMs := int64(1)
	switch c.Unit {
	case "ss":
		unitMs = 1000
		c.SizeMs = rapid.SampledFrom([]int64{1000, 2000, 5000, 60000, 90000, 7000, 13000}).Draw(t, "size")
	case "mi":
		unitMs = 60000
		c.SizeMs = rapid.SampledFrom([]int64{60000, 120000, 300000, 3600000}).Draw(t, "size")
	default:
		// 7 s, 700 ms, 137 ms, 4096 ms, 13 s do not divide the distance between Go's zero time and the Unix epoch
		c.SizeMs = rapid.SampledFrom([]int64{100, 250, 1000, 2000, 5000, 60000, 90000, 7000, 700, 137, 4096, 13000}).Draw(t, "size")
	}
	c.OOOMs = rapid.SampledFrom([]int64{0, 0, 300, 1000, 5000, 2 * c.SizeMs}).Draw(t, "ooo")
	c.OOOMs = c.OOOMs / unitMs * unitMs
	c.Groups = rapid.IntRange(0, 4).Draw(t, "groups")
	c.TsKind = rapid.SampledFrom([]string{"int", "int64", "float64", "int64", "time", "string"}).Draw(t, "tskind")
	if c.Unit == "ns" && c.TsKind == "float64" {
		c.TsKind = "int64" // 1.7e18 ns is beyond float64's exact integers: the row's own timestamp would be rounded
	}
	c.Events = et.GenTimeline(t, et.TLParams{SizeMs: c.SizeMs, OOOMs: c.OOOMs, UnitMs: unitMs, Groups: c.Groups, MaxN: 40,
		PreFirst: !pbt.Open("C01", "pre-first")})
	for i := range c.Events {
		c.Events[i].TS = c.Events[i].TS / unitMs * unitMs // et.Base is not a whole minute
	}
	c.HookSeed = hookSeed(t)
	for range c.Events {
		c.Pauses = append(c.Pauses, gen.Pause().Draw(t, "pause"))
	}
	return c
}

// genLongBurst: 120-600 rows with strictly increasing timestamps, most of them advancing into a new window, fed
// back to back and followed by silence: more watermark advances than the engine's internal queues hold, and the last
// one closes the tail windows.
func genLongBurst(t *rapid.T) Case {
	c := Case{Mode: "event", Unit: "ms", TsKind: "int64", LongBurst: true}
	c.SizeMs = rapid.SampledFrom([]int64{100, 250, 1000}).Draw(t, "size")
	c.OOOMs = rapid.SampledFrom([]int64{0, 0, c.SizeMs / 2}).Draw(t, "ooo")
	c.Groups = rapid.IntRange(0, 2).Draw(t, "groups")
	n := rapid.IntRange(120, 600).Draw(t, "n")
	cur := et.Base + rapid.Int64Range(0, 3*c.SizeMs).Draw(t, "start")
	stride := rapid.SampledFrom([]int64{c.SizeMs, c.SizeMs, c.SizeMs / 2, 2 * c.SizeMs, 1}).Draw(t, "stride")
	for i := 0; i < n; i++ {
		e := et.Event{ID: i, TS: cur, V: float64(i%7) / 4}
		if c.Groups > 0 {
			e.G = fmt.Sprintf("g%d", 1+i%c.Groups)
		}
		c.Events = append(c.Events, e)
		cur += stride + int64(rapid.IntRange(0, 3).Draw(t, "d"))
		c.Pauses = append(c.Pauses, 0)
	}
	c.HookSeed = hookSeed(t)
	return c
}

func sqlOf(c Case) string {
	g := ""
	if c.Groups > 0 {
		g = "g, "
	}
	q := fmt.Sprintf("SELECT %scount(*) AS c, sum(v) AS s, collect(id) AS ids, window_start() AS ws, window_end() AS we FROM stream GROUP BY %sTumblingWindow('%dms')", g, g, c.SizeMs)
	if c.Mode == "event" {
		q += " " + et.With(c.Unit, c.OOOMs, 0)
	}
	return q
}

type rowInfo struct {
	g      string
	ws, we int64
	ids    []int
	del    int
}

// checkRows applies the per-row invariants shared by both modes and returns parsed rows.
func checkRows(c Case, ds []run.Delivery, byID map[int]et.Event, res *pbt.Result) []rowInfo {
	var out []rowInfo
	seenID := map[int]int{}
	seenWin := map[string]bool{}
	for _, d := range ds {
		for _, r := range d.Rows {
			ws, ok1 := et.MsOf(r["ws"])
			we, ok2 := et.MsOf(r["we"])
			ids, ok3 := et.IDs(r["ids"])
			if !ok1 || !ok2 || !ok3 {
				res.Add(pbt.D("bad-row", "row without ws/we/ids: %v", r))
				continue
			}
			g, _ := r["g"].(string)
			if ws%c.SizeMs != 0 || we != ws+c.SizeMs {
				res.Add(pbt.D("misaligned", "interval [%d,%d) is not a size-aligned interval of %dms", ws, we, c.SizeMs))
			}
			if c.Mode == "event" {
				wantID := fmt.Sprintf("%d_%d", ws*1e6, we*1e6)
				if r["window_id"] != wantID {
					res.Add(pbt.D("window-id", "window_id=%v want %s", r["window_id"], wantID))
				}
			}
			wk := fmt.Sprintf("%s@%d", g, ws)
			if seenWin[wk] {
				res.Add(pbt.D("interval-twice", "group %q interval [%d,%d) reported twice", g, ws, we))
			}
			seenWin[wk] = true
			var sum float64
			for _, id := range ids {
				e, ok := byID[id]
				if !ok {
					res.Add(pbt.D("unknown-id", "id %d in [%d,%d) was never emitted (or is the flush row)", id, ws, we))
					continue
				}
				if c.Groups > 0 && e.G != g {
					res.Add(pbt.D("wrong-group", "id %d of group %q reported in group %q", id, e.G, g))
				}
				if c.Mode == "event" && (e.TS < ws || e.TS >= we) {
					res.Add(pbt.D("wrong-interval", "id %d ts=%d reported in [%d,%d)", id, e.TS, ws, we))
				}
				if prev, dup := seenID[id]; dup {
					res.Add(pbt.D("row-twice", "id %d counted in two results (deliveries %d and %d)", id, prev, d.Seq))
				}
				seenID[id] = d.Seq
				sum += e.V
			}
			if cnt, _ := gen.ToFloat(r["c"]); int(cnt) != len(ids) {
				res.Add(pbt.D("wrong-count", "count(*)=%v but %d ids in [%d,%d)", r["c"], len(ids), ws, we))
			}
			if s, ok := gen.ToFloat(r["s"]); !ok || !gen.Close(s, sum, 1e-9) {
				res.Add(pbt.D("wrong-sum", "sum(v)=%v want %v in [%d,%d)", r["s"], sum, ws, we))
			}
			out = append(out, rowInfo{g: g, ws: ws, we: we, ids: ids, del: d.Seq})
		}
	}
	return out
}

func runEvent(c Case) (res pbt.Result) {
	hook.Configure(c.HookSeed)
	defer func() {
		for site, n := range hook.Sites() {
			res.Count("hook:"+site, n)
		}
		hook.Configure(0)
	}()
	in, err := run.Open(sqlOf(c))
	if err != nil {
		res.Add(pbt.D("execute-error", "%v for %s", err, sqlOf(c)))
		return
	}
	defer in.Stop()
	arr := et.Model(c.Events, c.OOOMs)
	byID := map[int]et.Event{}
	for _, e := range c.Events {
		byID[e.ID] = e
	}
	max := et.MaxTS(c.Events)
	flush := et.Event{ID: -1, TS: max + c.OOOMs + 2*c.SizeMs, G: "__flush__"}
	all := append(append([]et.Event{}, c.Events...), flush)
	must := map[int]bool{}
	for i, e := range c.Events {
		if !arr[i].Late {
			must[e.ID] = true
		}
	}
	for i, e := range all {
		in.Emit(et.Row(e, c.Unit, c.TsKind, c.Groups > 0))
		if i < len(c.Pauses) {
			et.DoPause(c.Pauses[i])
		}
	}
	in.WaitFor(pbt.Wait(4*time.Second), func(ds []run.Delivery) bool {
		seen := et.SeenIDs(ds)
		for id := range must {
			if !seen[id] {
				return false
			}
		}
		return true
	})
	in.Settle(time.Millisecond)
	ds := in.Deliveries()
	rows := checkRows(c, ds, byID, &res)
	// completeness + placement of on-time rows
	where := map[int]rowInfo{}
	for _, r := range rows {
		for _, id := range r.ids {
			where[id] = r
		}
	}
	for i, e := range c.Events {
		if arr[i].Late {
			continue
		}
		r, ok := where[e.ID]
		want := e.TS / c.SizeMs * c.SizeMs
		if !ok {
			res.Add(pbt.D("on-time-lost", "id %d ts=%d (not late on arrival: max so far %d, ooo %d) is in no result; its interval [%d,%d) ended before the final watermark %d", e.ID, e.TS, arr[i].MaxAfter, c.OOOMs, want, want+c.SizeMs, flush.TS-c.OOOMs))
			continue
		}
		if r.ws != want {
			res.Add(pbt.D("wrong-interval", "id %d ts=%d reported in [%d,%d) want [%d,%d)", e.ID, e.TS, r.ws, r.we, want, want+c.SizeMs))
		}
	}
	// no early firing: some ingested event must have ts >= we + OOO
	for _, d := range ds {
		for _, r := range d.Rows {
			we, _ := et.MsOf(r["we"])
			okFire := false
			for i := 0; i < int(d.Started) && i < len(all); i++ {
				if all[i].TS >= we+c.OOOMs {
					okFire = true
					break
				}
			}
			if !okFire {
				res.Add(pbt.D("early-firing", "interval ending %d delivered after %d emits, none with ts >= %d", we, d.Started, we+c.OOOMs))
			}
		}
	}
	// classes
	intervals := map[int64]bool{}
	for _, r := range rows {
		intervals[r.ws] = true
	}
	cls := map[string]bool{}
	first := c.Events[0]
	firstWin := first.TS / c.SizeMs * c.SizeMs
	tsSeen := map[int64]bool{}
	for i, e := range c.Events {
		if arr[i].Late {
			cls["late"] = true
		} else if e.TS < arr[i].MaxAfter {
			cls["out-of-order"] = true
		}
		if e.TS%c.SizeMs == 0 || (e.TS+1)%c.SizeMs == 0 || (e.TS+1000)%c.SizeMs == 0 {
			cls["boundary"] = true
		}
		if tsSeen[e.TS] {
			cls["dup-ts"] = true
		}
		tsSeen[e.TS] = true
		if i > 0 && !arr[i].Late && e.TS < firstWin {
			cls["pre-first"] = true
		}
	}
	if c.LongBurst {
		cls["long-burst"] = true
	}
	for k := range cls {
		res.Class(k)
	}
	res.NonTrivial = len(intervals) >= 2 && len(cls) > 0
	return
}

func features(c Case) []string {
	var f []string
	if c.Mode != "event" || len(c.Events) == 0 {
		return f
	}
	arr := et.Model(c.Events, c.OOOMs)
	firstWin := c.Events[0].TS / c.SizeMs * c.SizeMs
	for i, e := range c.Events {
		if i > 0 && !arr[i].Late && e.TS < firstWin {
			f = append(f, "pre-first")
			break
		}
	}
	return f
}

func runCase(c Case) pbt.Result {
	if c.Mode == "proc" {
		return runProc(c)
	}
	return runEvent(c)
}

func trim(c Case) any { return c }

var spec = pbt.Spec[Case]{
	ID:          "C01",
	Rule:        "generated: event-time tumbling windows (size 100ms..90s incl. sizes such as 7s, 700ms, 137ms that are aligned to the Unix epoch only by integer arithmetic, MAXOUTOFORDERNESS 0..2*size, 0-4 groups, TIMEUNIT ms/ss, ts as int/int64/float64), 1-40 events from a model clock (duplicate ts, boundary and boundary-1 ts, jumps up to 20 windows) pulled back by jitter in [0,2*OOO], producer pauses, final flush row; 5% long bursts (120-600 strictly increasing rows fed back to back, most opening a new window, then silence); plus a share of processing-time cases run in real time. oracle: arrival/watermark model + per-row invariants (alignment, window_id, ids in own group and interval, count/sum over exactly those ids, no id twice, no interval twice, every not-late-on-arrival id exactly once in its interval, no early firing). non-trivial = >=2 intervals delivered and at least one of {late row, out-of-order row, boundary ts, duplicate ts, on-time row before the first window, long burst}; distinct by case hash",
	Assumptions: []string{"input never dropped: WithOverflowStrategy(block,0)", "rows late on arrival may be counted or not (property leaves it open)", "a missing delivery after a 4 s wait on a ~150 µs path is a loss, not slowness", "processing-time cases use range oracles on wall-clock brackets"},
	Gen:         genCase,
	Run:         runCase,
	Features:    features,
	Trim:        trim,
}

func TestProp(t *testing.T)    { pbt.RunProp(t, spec) }
func TestReplay(t *testing.T)  { pbt.RunReplay(t, spec) }
func TestWitness(t *testing.T) { pbt.RunWitnesses(t, spec) }

var _ = sort.Ints

// hookSeed: two cases in three run with schedule perturbation at the engine's verif-tagged points.
func hookSeed(t *rapid.T) uint64 {
	if rapid.IntRange(0, 2).Draw(t, "hookon") == 0 {
		return 0
	}
	return uint64(rapid.IntRange(1, 1<<30).Draw(t, "hookseed"))
}
