package c01

import (
	"sync"
	"time"

	"pgregory.net/rapid"
	"verifharness/internal/et"
	"verifharness/internal/pbt"
	"verifharness/internal/run"
)

// share of processing-time cases (they run in real time, so keep them few)
const procPercent = 2

func genProc(t *rapid.T) Case {
	c := Case{Mode: "proc"}
	c.SizeMs = rapid.SampledFrom([]int64{100, 150, 200, 300}).Draw(t, "psize")
	c.Groups = rapid.IntRange(0, 3).Draw(t, "groups")
	n := rapid.IntRange(3, 30).Draw(t, "n")
	// spread emits over 2-4 window lengths
	span := c.SizeMs * 1000 * int64(rapid.IntRange(2, 4).Draw(t, "span")) // µs
	for i := 0; i < n; i++ {
		e := et.Event{ID: i, V: float64(rapid.IntRange(-20, 40).Draw(t, "v")) / 4}
		if c.Groups > 0 {
			e.G = "g" + string(rune('0'+rapid.IntRange(1, c.Groups).Draw(t, "g")))
		}
		c.Events = append(c.Events, e)
		gap := 0
		switch rapid.IntRange(0, 3).Draw(t, "gk") {
		case 0:
		case 1:
			gap = rapid.IntRange(0, 2000).Draw(t, "gs")
		default:
			gap = rapid.IntRange(0, int(span)/n*2).Draw(t, "gl")
		}
		c.GapsUs = append(c.GapsUs, gap)
	}
	return c
}

// runProc: processing time. The row's timestamp is taken inside the engine (time.Now in Add), so the
// oracle brackets it by wall-clock reads around Emit: t0 before Emit, tSeen when the result arrives.
func runProc(c Case) (res pbt.Result) {
	in, err := run.Open(sqlOf(c))
	if err != nil {
		res.Add(pbt.D("execute-error", "%v", err))
		return
	}
	defer in.Stop()
	byID := map[int]et.Event{}
	t0 := map[int]time.Time{}
	var mu sync.Mutex
	for i, e := range c.Events {
		byID[e.ID] = e
		mu.Lock()
		t0[e.ID] = time.Now()
		mu.Unlock()
		in.Emit(et.Row(e, "ms", "nots-proc", c.Groups > 0))
		if c.GapsUs[i] > 0 {
			time.Sleep(time.Duration(c.GapsUs[i]) * time.Microsecond)
		}
	}
	// every row must be reported after at most two window lengths (timer period = size)
	in.WaitFor(time.Duration(2*c.SizeMs)*time.Millisecond+3*time.Second, func(ds []run.Delivery) bool {
		return len(et.SeenIDs(ds)) >= len(c.Events)
	})
	in.Settle(5 * time.Millisecond)
	ds := in.Deliveries()
	// event-time invariants that also hold here: alignment, ids once, count/sum, interval once per group
	cc := c
	rows := checkRows(cc, ds, byID, &res)
	seen := map[int]rowInfo{}
	delAt := map[int]time.Time{}
	for _, d := range ds {
		for _, r := range d.Rows {
			ids, _ := et.IDs(r["ids"])
			for _, id := range ids {
				delAt[id] = d.At
			}
		}
	}
	for _, r := range rows {
		for _, id := range r.ids {
			seen[id] = r
		}
	}
	for _, e := range c.Events {
		r, ok := seen[e.ID]
		if !ok {
			res.Add(pbt.D("proc-row-lost", "id %d never reported (processing time: every row must contribute to one result)", e.ID))
			continue
		}
		// the row was stamped after t0 => its interval must end after t0; and the interval must
		// have started before the result was seen
		if r.we <= t0[e.ID].UnixMilli()-1 {
			res.Add(pbt.D("proc-wrong-interval", "id %d emitted at %d reported in interval ending %d (before it was emitted)", e.ID, t0[e.ID].UnixMilli(), r.we))
		}
		if r.ws > delAt[e.ID].UnixMilli()+1 {
			res.Add(pbt.D("proc-wrong-interval", "id %d reported in interval starting %d, after the result was seen at %d", e.ID, r.ws, delAt[e.ID].UnixMilli()))
		}
	}
	wins := map[int64]bool{}
	for _, r := range rows {
		wins[r.ws] = true
	}
	res.Class("proc")
	res.NonTrivial = len(wins) >= 2
	return
}
