package c07

import (
	"fmt"
	"os"
	"strings"
	"testing"
	"time"

	"github.com/rulego/streamsql/logger"
	"verifharness/internal/et"
	"verifharness/internal/run"
)

// probe: rows g in {a,b,c}; x,y,z
func probeRows() []map[string]any {
	return []map[string]any{
		{"g": "a", "x": 1, "y": 2.5, "z": 1},
		{"g": "a", "x": 3, "y": 0.5, "z": 2},
		{"g": "b", "x": 10, "y": 1.0, "z": 3},
		{"g": "b", "x": 20, "y": 2.0, "z": 1},
		{"g": "b", "x": 30, "y": 3.0, "z": 1},
		{"g": "c", "x": 2, "y": 2.0, "z": 4},
		{"g": "c", "x": 2, "y": 2.0, "z": 4},
	}
}

func TestProbe(t *testing.T) {
	if os.Getenv("PROBE") == "" {
		t.Skip()
	}
	logger.SetDefault(logger.NewLogger(logger.WARN, os.Stdout))
	qs := strings.Split(os.Getenv("PROBE"), ";;")
	for _, sel := range qs {
		sql := strings.Replace(sel, "@W", "TumblingWindow('10s') "+et.With("ms", 0, 0), 1)
		in, err := run.Open(sql)
		if err != nil {
			fmt.Printf("SQL %s\n  EXECUTE ERROR %v\n", sql, err)
			continue
		}
		counting := strings.Contains(sql, "CountingWindow")
		for i, r := range probeRows() {
			if !counting {
				r["ts"] = et.Base + int64(i)
			}
			in.Emit(r)
		}
		if !counting {
			in.Emit(map[string]any{"g": "flush", "x": 0, "y": 0, "z": 0, "ts": et.Base + 60000})
		}
		in.WaitFor(500*time.Millisecond, func(ds []run.Delivery) bool { return len(ds) >= 1 })
		time.Sleep(20 * time.Millisecond)
		fmt.Printf("SQL %s\n", sql)
		for _, d := range in.Deliveries() {
			fmt.Printf("  batch:\n")
			for _, r := range d.Rows {
				fmt.Printf("    %v\n", r)
			}
		}
		in.Stop()
	}
}
