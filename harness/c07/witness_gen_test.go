package c07

import (
	"encoding/json"
	"fmt"
	"os"
	"testing"

	"verifharness/internal/gen"
)

func wrows() []gen.Row {
	mk := func(id int, g string, x int64) gen.Row {
		return gen.Row{"id": gen.Int(int64(id)), "win": gen.Int(0), "g": gen.Str(g), "x": gen.Int(x), "y": gen.Float(1.5), "z": gen.Int(2), "w": gen.Nil()}
	}
	return []gen.Row{mk(0, "a", 1), mk(1, "a", 3), mk(2, "b", 10), mk(3, "b", 20)}
}

func witnesses() map[string]Case {
	base := func() Case {
		return Case{Source: "tumbling", Windows: 1, SelectG: true, Rows: wrows()}
	}
	w := map[string]Case{}
	c := base()
	c.Upper = true
	c.Items = []Item{{E: *bin("+", bin("*", agg("avg", "x"), lit("1.8")), lit("32")), Form: "agg-op-lit-op-lit"}}
	w[fAggOpLit] = c
	c = base()
	c.Items = []Item{{E: *bin("+", agg("sum", "x * 2"), lit("1")), Form: "exprarg-plus"}}
	w[fExprArgComp] = c
	c = base()
	c.Items = []Item{{E: *paren(agg("sum", "x")), Form: "paren-plain"}}
	w[fParenPlain] = c
	c = Case{Source: "counting", N: 2, Windows: 1, SelectG: true, Rows: wrows()}
	for _, r := range c.Rows {
		delete(r, "g")
		delete(r, "win")
	}
	c.Items = []Item{{E: *agg("sum", "x"), Form: "agg"}}
	c.Having = &Having{Atoms: []Atom{{Alias: "a0", Cmp: ">", Lit: "5"}}}
	c.Order = []OrderKey{{Col: "a0"}}
	w[fHavingOrder] = c
	c = base()
	c.Items = []Item{{E: *agg("sum", "x"), Form: "agg"}}
	c.Having = &Having{Atoms: []Atom{{Alias: "a0", Cmp: ">", Lit: "5"}}}
	c.HavingAfterWith = true
	w[fHavingWith] = c
	c = base()
	c.SelectG = false
	c.Distinct = true
	c.Items = []Item{{E: *agg("count", "*"), Form: "agg"}}
	w[fUnselectedG] = c
	c = base()
	c.Items = []Item{{E: *agg("sum", "x"), Form: "agg"}}
	c.Having = &Having{Atoms: []Atom{{E: agg("sum", "x * 2"), Cmp: ">", Lit: "6"}}}
	w[fHavingExprAg] = c
	c = base()
	c.SelectG = false
	c.Distinct = true
	c.Items = []Item{{E: *agg("count", "*"), Form: "agg"}}
	c.Having = &Having{Atoms: []Atom{{E: agg("max", "x"), Cmp: ">", Lit: "0"}}}
	w[fDistinctHid] = c
	return w
}

func TestMakeWitness(t *testing.T) {
	if os.Getenv("MKWIT") == "" {
		t.Skip()
	}
	out := map[string]json.RawMessage{}
	for f, c := range witnesses() {
		b, _ := json.Marshal(c)
		out[f] = b
		var c2 Case
		if err := json.Unmarshal(b, &c2); err != nil {
			t.Fatal(err)
		}
		res := runCase(c2)
		fmt.Printf("== %s  features=%v\n   %s\n", f, features(c2), sqlOf(c2))
		for _, d := range res.Discs {
			fmt.Printf("   %s: %s\n", d.Kind, d.Detail)
		}
	}
	b, _ := json.MarshalIndent(out, "", " ")
	os.WriteFile(os.Getenv("MKWIT"), b, 0o644)
}
