package c07

import (
	"fmt"
	"math"
	"sort"
	"strconv"
	"strings"
	"testing"
	"time"

	"pgregory.net/rapid"
	"verifharness/internal/et"
	"verifharness/internal/gen"
	"verifharness/internal/pbt"
	"verifharness/internal/run"
)

// ---------------------------------------------------------------------------------------------
// Case
// ---------------------------------------------------------------------------------------------

// Expr is a SELECT-item / HAVING-operand expression over aggregate calls and literals.
// K: "agg" (Fn, Arg), "lit" (Lit), "bin" (Op, L, R), "paren" (L).
type Expr struct {
	K   string `json:"k"`
	Fn  string `json:"fn,omitempty"`
	Arg string `json:"arg,omitempty"` // x, y, z, w, *, or "<col> <op> <col|number>" (exprArgs)
	Lit string `json:"lit,omitempty"`
	Op  string `json:"op,omitempty"`
	L   *Expr  `json:"l,omitempty"`
	R   *Expr  `json:"r,omitempty"`
	Bt  bool   `json:"bt,omitempty"` // agg over a plain column: the column is written in back quotes
}

type Item struct {
	E    Expr   `json:"e"`
	Form string `json:"form"` // generator's name of the shape (distribution only)
}

// Atom is one comparison of a HAVING predicate: <operand> Cmp Lit.
// Alias != "" : operand is the alias of SELECT item; otherwise E (aggregate call or arithmetic over calls).
type Atom struct {
	Alias string `json:"alias,omitempty"`
	E     *Expr  `json:"e,omitempty"`
	Cmp   string `json:"cmp"`
	Lit   string `json:"lit"`
}

// Having: Atoms joined by Conn ("AND"/"OR", len = len(Atoms)-1); Group = 0 none,
// 1 = parentheses around atoms 0..1, 2 = parentheses around atoms 1..2 (only with 3 atoms).
type Having struct {
	Atoms []Atom   `json:"atoms"`
	Conn  []string `json:"conn,omitempty"`
	Group int      `json:"group,omitempty"`
}

type OrderKey struct {
	Col  string `json:"col"`
	Desc bool   `json:"desc,omitempty"`
	// Explicit: an ascending key written with the keyword ASC (otherwise the direction is left out)
	Explicit bool `json:"explicit,omitempty"`
}

type Case struct {
	Source          string     `json:"source"`   // "tumbling" (multi-group batches) | "counting" (single-group batches)
	N               int        `json:"n"`        // CountingWindow size
	Windows         int        `json:"windows"`  // number of consecutive tumbling windows
	SelectG         bool       `json:"select_g"` // tumbling: the grouping column is in the SELECT list
	Upper           bool       `json:"upper"`    // function names written in upper case
	Distinct        bool       `json:"distinct"`
	Items           []Item     `json:"items"`
	Having          *Having    `json:"having,omitempty"`
	HavingAfterWith bool       `json:"having_after_with,omitempty"` // tumbling: "... WITH (...) HAVING ..." as in the repo's own e2e test
	Order           []OrderKey `json:"order,omitempty"`
	Limit           int        `json:"limit,omitempty"`
	AliasStyle      int        `json:"alias_style,omitempty"` // 0: a0, a1, ..; otherwise names that contain keywords (lowercase_0, order_1, is_2, band3, end_4, ...)
	Rows            []gen.Row  `json:"rows"`                  // id, g, win (tumbling), x, y, z, w
}

const (
	fAggOpLit     = "agg-op-literal"
	fExprArgComp  = "expr-arg-in-compound"
	fParenPlain   = "paren-plain"
	fHavingOrder  = "having-then-order-by"
	fHavingWith   = "having-after-with"
	fUnselectedG  = "unselected-group-key"
	fHavingExprAg = "having-agg-expr-arg"
	fDistinctHid  = "distinct-with-hidden-having" // latent: only observable once unselected group keys are no longer delivered
)

// ---------------------------------------------------------------------------------------------
// Expressions: render, classify, evaluate
// ---------------------------------------------------------------------------------------------

func agg(fn, arg string) *Expr        { return &Expr{K: "agg", Fn: fn, Arg: arg} }
func lit(s string) *Expr              { return &Expr{K: "lit", Lit: s} }
func bin(op string, l, r *Expr) *Expr { return &Expr{K: "bin", Op: op, L: l, R: r} }
func paren(e *Expr) *Expr             { return &Expr{K: "paren", L: e} }

func (e *Expr) sql(upper bool) string {
	switch e.K {
	case "agg":
		fn := e.Fn
		if upper {
			fn = strings.ToUpper(fn)
		}
		if e.Bt && e.Arg != "*" && !exprArg(e.Arg) {
			return fn + "(`" + e.Arg + "`)"
		}
		return fn + "(" + e.Arg + ")"
	case "lit":
		return e.Lit
	case "litlen":
		// the length of a text literal that reads like an aggregate call of the same item: inside quotes it is text
		fn := e.Fn
		if upper {
			fn = strings.ToUpper(fn)
		}
		return "length('" + fn + "(" + e.Arg + ")')"
	case "paren":
		return "(" + e.L.sql(upper) + ")"
	default:
		return e.L.sql(upper) + " " + e.Op + " " + e.R.sql(upper)
	}
}

func (e *Expr) walk(f func(*Expr)) {
	if e == nil {
		return
	}
	f(e)
	e.L.walk(f)
	e.R.walk(f)
}

func (e *Expr) aggs() []*Expr {
	var out []*Expr
	e.walk(func(x *Expr) {
		if x.K == "agg" {
			out = append(out, x)
		}
	})
	return out
}

func (e *Expr) has(kind string) bool {
	found := false
	e.walk(func(x *Expr) {
		if x.K == kind {
			found = true
		}
	})
	return found
}

func exprArg(arg string) bool {
	return strings.ContainsAny(arg, "+-/ ") || (strings.Contains(arg, "*") && arg != "*")
}

func (e *Expr) usesW() bool {
	u := false
	for _, a := range e.aggs() {
		if a.Arg == "w" {
			u = true
		}
	}
	return u
}

func (e *Expr) leftmost() *Expr {
	for e.K == "bin" {
		e = e.L
	}
	return e
}

// shape is the structural class used in discrepancy kinds (stable, independent of the generator):
//
//	plain            a single aggregate call
//	paren-plain      (agg(x))
//	agg-op-literal   agg(col) op lit [op lit ...] - exactly one call, written first, nothing parenthesised
//	expr-arg-compound a compound that contains an aggregate over an arithmetic argument
//	compound         every other arithmetic over aggregate calls and literals
func (e *Expr) shape() string {
	if e.K == "agg" {
		return "plain"
	}
	if e.K == "paren" && e.L.K == "agg" {
		return "paren-plain"
	}
	as := e.aggs()
	for _, a := range as {
		if exprArg(a.Arg) {
			return "expr-arg-compound"
		}
	}
	if e.K == "bin" && len(as) == 1 && !e.has("paren") && e.leftmost().K == "agg" && as[0].Arg != "*" {
		return "agg-op-literal"
	}
	return "compound"
}

// exact: the value is computed without rounding whatever the evaluation order (sums/min/max/count
// of quarter-step values combined by + - * with dyadic literals).
func (e *Expr) exact() bool {
	ok := true
	e.walk(func(x *Expr) {
		switch x.K {
		case "agg":
			if x.Fn == "avg" {
				ok = false
			}
		case "bin":
			if x.Op == "/" {
				ok = false
			}
		case "lit":
			f, _ := strconv.ParseFloat(x.Lit, 64)
			if f*4 != math.Trunc(f*4) {
				ok = false
			}
		}
	})
	return ok
}

// value: float64 result or NULL.
type value struct {
	null bool
	f    float64
}

func (v value) String() string {
	if v.null {
		return "NULL"
	}
	return strconv.FormatFloat(v.f, 'g', -1, 64)
}

func cellOf(r gen.Row, arg string) value {
	num := func(col string) value {
		v, ok := r[col]
		if !ok || v.IsNull() {
			return value{null: true}
		}
		f, _ := v.Num()
		return value{f: f}
	}
	// "<col> <op> <col|number>"
	if parts := strings.Split(arg, " "); len(parts) == 3 {
		l := num(parts[0])
		var r value
		if f, err := strconv.ParseFloat(parts[2], 64); err == nil {
			r = value{f: f}
		} else {
			r = num(parts[2])
		}
		if l.null || r.null {
			return value{null: true}
		}
		switch parts[1] {
		case "+":
			return value{f: l.f + r.f}
		case "-":
			return value{f: l.f - r.f}
		default:
			return value{f: l.f * r.f}
		}
	}
	return num(arg)
}

func refAgg(fn, arg string, rows []gen.Row) value {
	if fn == "count" && arg == "*" {
		return value{f: float64(len(rows))}
	}
	var xs []float64
	for _, r := range rows {
		c := cellOf(r, arg)
		if !c.null {
			xs = append(xs, c.f)
		}
	}
	if fn == "count" {
		return value{f: float64(len(xs))}
	}
	if len(xs) == 0 {
		return value{null: true}
	}
	s, mn, mx := 0.0, xs[0], xs[0]
	for _, x := range xs {
		s += x
		mn = math.Min(mn, x)
		mx = math.Max(mx, x)
	}
	switch fn {
	case "sum":
		return value{f: s}
	case "avg":
		return value{f: s / float64(len(xs))}
	case "min":
		return value{f: mn}
	default:
		return value{f: mx}
	}
}

func (e *Expr) eval(rows []gen.Row) value {
	switch e.K {
	case "agg":
		return refAgg(e.Fn, e.Arg, rows)
	case "lit":
		f, _ := strconv.ParseFloat(e.Lit, 64)
		return value{f: f}
	case "litlen":
		return value{f: float64(len(e.Fn) + len(e.Arg) + 2)}
	case "paren":
		return e.L.eval(rows)
	}
	a, b := e.L.eval(rows), e.R.eval(rows)
	if a.null || b.null {
		return value{null: true}
	}
	switch e.Op {
	case "+":
		return value{f: a.f + b.f}
	case "-":
		return value{f: a.f - b.f}
	case "*":
		return value{f: a.f * b.f}
	default:
		return value{f: a.f / b.f}
	}
}

// ---------------------------------------------------------------------------------------------
// Batches of the reference
// ---------------------------------------------------------------------------------------------

type refBatch struct {
	id     string   // tumbling: window_id; counting: "ids"-key
	groups []string // group names in first-arrival order
	rows   map[string][]gen.Row
}

const windowMs = 10_000

func windowID(k int) string {
	s := (et.Base + int64(k)*windowMs) * 1_000_000
	return fmt.Sprintf("%d_%d", s, s+windowMs*1_000_000)
}

func idsKey(rows []gen.Row) string {
	var sb strings.Builder
	for _, r := range rows {
		fmt.Fprintf(&sb, "%d,", r["id"].I)
	}
	return sb.String()
}

func refBatches(c Case) []refBatch {
	var out []refBatch
	if c.Source == "tumbling" {
		for k := 0; k < c.Windows; k++ {
			b := refBatch{id: windowID(k), rows: map[string][]gen.Row{}}
			for _, r := range c.Rows {
				if int(r["win"].I) != k {
					continue
				}
				g := r["g"].S
				if _, ok := b.rows[g]; !ok {
					b.groups = append(b.groups, g)
				}
				b.rows[g] = append(b.rows[g], r)
			}
			if len(b.groups) > 0 {
				out = append(out, b)
			}
		}
		return out
	}
	for s := 0; s+c.N <= len(c.Rows); s += c.N {
		rows := c.Rows[s : s+c.N]
		out = append(out, refBatch{id: idsKey(rows), groups: []string{""}, rows: map[string][]gen.Row{"": rows}})
	}
	return out
}

// ---------------------------------------------------------------------------------------------
// Generator
// ---------------------------------------------------------------------------------------------

var aggFns = []string{"sum", "avg", "min", "max", "count"}
var smallLits = []string{"1", "2", "3", "0.5", "1.5", "2.25", "10", "1.8", "32", "100"}

func quarter(f float64) string { return strconv.FormatFloat(f, 'f', -1, 64) }

func genNum(t *rapid.T, label string, lo, hi int, floatShare int) gen.Val {
	if rapid.IntRange(0, 9).Draw(t, label+"k") < floatShare {
		return gen.Float(float64(rapid.IntRange(lo*4, hi*4).Draw(t, label+"q")) / 4)
	}
	return gen.Int(int64(rapid.IntRange(lo, hi).Draw(t, label+"i")))
}

func genRow(t *rapid.T, id int) gen.Row {
	r := gen.Row{"id": gen.Int(int64(id))}
	r["x"] = genNum(t, "x", -5, 12, 3)
	r["y"] = genNum(t, "y", -3, 8, 8)
	r["z"] = genNum(t, "z", 1, 6, 4)
	if f, _ := r["z"].Num(); f <= 0 {
		r["z"] = gen.Int(1)
	}
	switch rapid.IntRange(0, 3).Draw(t, "wk") {
	case 0:
		r["w"] = gen.Nil()
	case 1:
		r["w"] = gen.Missing()
	default:
		r["w"] = genNum(t, "w", -4, 9, 5)
	}
	return r
}

// plainAgg draws an aggregate call over a never-NULL-per-group column (or any column when nullable).
func genAgg(t *rapid.T, nullable bool) *Expr {
	fn := rapid.SampledFrom(aggFns).Draw(t, "fn")
	cols := []string{"x", "x", "y", "z"}
	if nullable {
		cols = append(cols, "w")
	}
	col := rapid.SampledFrom(cols).Draw(t, "col")
	if fn == "count" && rapid.Bool().Draw(t, "star") {
		col = "*"
	}
	a := agg(fn, col)
	a.Bt = col != "*" && rapid.IntRange(0, 7).Draw(t, "backquoted") == 0
	return a
}

// a divisor that cannot be zero: count(*), an aggregate over the positive column z, or (count(*) + k)
func genDivisor(t *rapid.T) *Expr {
	switch rapid.IntRange(0, 3).Draw(t, "div") {
	case 0:
		return agg("count", "*")
	case 1:
		return paren(bin("+", agg("count", "*"), lit(rapid.SampledFrom([]string{"1", "2", "0.5"}).Draw(t, "divk"))))
	default:
		return agg(rapid.SampledFrom([]string{"sum", "avg", "min", "max"}).Draw(t, "divfn"), "z")
	}
}

func genLit(t *rapid.T) *Expr { return lit(rapid.SampledFrom(smallLits).Draw(t, "lit")) }

func genOp(t *rapid.T, allowDiv bool) string {
	ops := []string{"+", "-", "*"}
	if allowDiv {
		ops = append(ops, "/")
	}
	return rapid.SampledFrom(ops).Draw(t, "op")
}

var forms = []string{"agg", "agg", "agg-op-lit", "agg-op-lit-op-lit", "lit-op-agg", "lit-op-agg", "agg-op-agg", "agg-op-agg",
	"paren-left", "paren-right", "paren-whole", "paren-plain", "nested", "exprarg-plain", "exprarg-plus", "exprarg-ratio", "exprarg-pair", "agg-plus-litlen"}

// arithmetic arguments of aggregates; all exact on quarter-step inputs
var exprArgs = []string{"x * 2", "x - 1", "x + y", "y * 3", "z + 1", "y - x", "z * 0.5"}

func genItem(t *rapid.T) Item {
	form := rapid.SampledFrom(forms).Draw(t, "form")
	// known-finding shapes are replaced by a neighbouring sound shape (construction, not rejection)
	if (form == "agg-op-lit" || form == "agg-op-lit-op-lit") && pbt.Open("C07", fAggOpLit) {
		form = "lit-op-agg"
	}
	if (form == "exprarg-plus" || form == "exprarg-ratio" || form == "exprarg-pair") && pbt.Open("C07", fExprArgComp) {
		form = "agg-op-agg"
	}
	if form == "paren-plain" && pbt.Open("C07", fParenPlain) {
		form = "paren-whole"
	}
	nullable := rapid.IntRange(0, 5).Draw(t, "nullable") < 2
	var e *Expr
	switch form {
	case "agg":
		e = genAgg(t, nullable)
	case "agg-op-lit":
		a := genAgg(t, nullable)
		if a.Arg == "*" {
			a.Arg = "x" // count(*) op lit is a different (sound) path; covered by lit-op-agg / agg-op-agg
		}
		e = bin(genOp(t, true), a, genLit(t))
	case "agg-op-lit-op-lit": // AVG(t) * 1.8 + 32
		a := genAgg(t, nullable)
		if a.Arg == "*" {
			a.Arg = "x"
		}
		e = bin(rapid.SampledFrom([]string{"+", "-"}).Draw(t, "op2"), bin(rapid.SampledFrom([]string{"*", "/"}).Draw(t, "op1"), a, genLit(t)), genLit(t))
	case "lit-op-agg":
		if rapid.IntRange(0, 4).Draw(t, "divform") == 0 {
			e = bin("/", genLit(t), genDivisor(t))
		} else {
			e = bin(genOp(t, false), genLit(t), genAgg(t, nullable))
		}
	case "agg-op-agg":
		if rapid.IntRange(0, 3).Draw(t, "divform") == 0 {
			e = bin("/", genAgg(t, nullable), genDivisor(t))
		} else {
			e = bin(genOp(t, false), genAgg(t, nullable), genAgg(t, nullable))
		}
	case "paren-left": // (agg op lit) op X
		inner := paren(bin(genOp(t, true), genAgg(t, nullable), genLit(t)))
		var x *Expr
		if rapid.Bool().Draw(t, "xagg") {
			x = genAgg(t, nullable)
			e = bin(genOp(t, false), inner, x)
		} else {
			e = bin(genOp(t, true), inner, genLit(t))
		}
	case "paren-right": // X op (agg op Y)
		var y *Expr
		if rapid.Bool().Draw(t, "yagg") {
			y = genAgg(t, nullable)
		} else {
			y = genLit(t)
		}
		inner := paren(bin(genOp(t, y.K == "lit"), genAgg(t, nullable), y))
		var x *Expr
		if rapid.Bool().Draw(t, "xagg") {
			x = genAgg(t, nullable)
		} else {
			x = genLit(t)
		}
		e = bin(genOp(t, false), x, inner)
	case "paren-whole":
		if rapid.Bool().Draw(t, "pw") {
			e = paren(bin(genOp(t, true), genAgg(t, nullable), genLit(t)))
		} else {
			e = paren(bin(genOp(t, false), genAgg(t, nullable), genAgg(t, nullable)))
		}
	case "paren-plain":
		e = paren(genAgg(t, nullable))
	case "nested": // ((agg + lit) * lit) - agg
		e = bin(genOp(t, false), paren(bin(genOp(t, true), paren(bin(genOp(t, false), genAgg(t, nullable), genLit(t))), genLit(t))), genAgg(t, nullable))
	case "agg-plus-litlen": // agg(x) + length('agg(x)'): call text inside a literal stays text
		a := genAgg(t, nullable)
		if a.Arg == "*" {
			a.Arg = "x"
		}
		a.Bt = false
		e = bin("+", a, &Expr{K: "litlen", Fn: a.Fn, Arg: a.Arg})
	case "exprarg-plain":
		e = agg(rapid.SampledFrom(aggFns).Draw(t, "fn"), rapid.SampledFrom(exprArgs).Draw(t, "earg"))
	case "exprarg-plus": // agg(x * 2) + 1
		a := agg(rapid.SampledFrom(aggFns).Draw(t, "fn"), rapid.SampledFrom(exprArgs).Draw(t, "earg"))
		if rapid.Bool().Draw(t, "litfirst") {
			e = bin(genOp(t, false), genLit(t), a)
		} else {
			e = bin(genOp(t, true), a, genLit(t))
		}
	case "exprarg-pair": // agg(x * 2) + agg(y * 3): every aggregate of one item evaluates its own argument
		fns := []string{"sum", "avg", "min", "max", "count"}
		l := agg(rapid.SampledFrom(fns).Draw(t, "fn"), rapid.SampledFrom(exprArgs).Draw(t, "earg"))
		r := agg(rapid.SampledFrom(fns).Draw(t, "fn2"), rapid.SampledFrom(exprArgs).Draw(t, "earg2"))
		if rapid.IntRange(0, 2).Draw(t, "sibling") == 0 {
			// the same aggregate over an argument that differs in the operator only (sum(x * 2) / sum(x + 2)):
			// names the engine derives from the argument text have to keep the two apart
			parts := strings.Split(l.Arg, " ")
			parts[1] = map[string]string{"+": "-", "-": "*", "*": "+"}[parts[1]]
			r = agg(l.Fn, strings.Join(parts, " "))
		}
		e = bin(genOp(t, false), l, r)
		if rapid.IntRange(0, 3).Draw(t, "third") == 0 {
			op3 := genOp(t, false)
			if op3 == "*" && e.Op != "*" {
				e = paren(e) // the renderer does not add parentheses by precedence
			}
			e = bin(op3, e, agg(rapid.SampledFrom(fns).Draw(t, "fn3"), rapid.SampledFrom(append([]string{"x", "y"}, exprArgs...)).Draw(t, "earg3")))
		}
	default: // exprarg-ratio: agg(x + y) / agg(z)
		e = bin("/", agg(rapid.SampledFrom([]string{"sum", "avg", "min", "max"}).Draw(t, "fn"), "x + y"), agg(rapid.SampledFrom([]string{"sum", "avg", "min", "max"}).Draw(t, "divfn"), "z"))
	}
	return Item{E: *e, Form: form}
}

// aliasPrefixes: output names that contain SQL keywords (case, or, is, and, end, not, in, as, by, like) as parts of words
var aliasPrefixes = []string{"lowercase_", "order_", "is_", "band", "end_", "notes", "showcase", "asby", "likes_"}

func (c Case) alias(i int) string {
	if c.AliasStyle == 0 {
		return fmt.Sprintf("a%d", i)
	}
	return fmt.Sprintf("%s%d", aliasPrefixes[(c.AliasStyle+i)%len(aliasPrefixes)], i)
}

// aliasIndex is the inverse of alias: the item index is the trailing number.
func aliasIndex(name string) int {
	j := len(name)
	for j > 0 && name[j-1] >= '0' && name[j-1] <= '9' {
		j--
	}
	i, _ := strconv.Atoi(name[j:])
	return i
}

func genCase(t *rapid.T) Case {
	c := Case{Source: "tumbling", Windows: 1, SelectG: true}
	if rapid.Bool().Draw(t, "keywordAliases") {
		c.AliasStyle = rapid.IntRange(1, len(aliasPrefixes)).Draw(t, "aliasStyle")
	}
	if rapid.IntRange(0, 9).Draw(t, "source") >= 8 { // rapid favours small draws: most cases are multi-group
		c.Source = "counting"
	}
	c.Upper = rapid.IntRange(0, 4).Draw(t, "upper") == 0
	// rows
	id := 0
	maxGroups := 1
	if c.Source == "tumbling" {
		c.Windows = rapid.IntRange(1, 2).Draw(t, "windows")
		ng := rapid.SampledFrom([]int{3, 4, 2, 5, 1}).Draw(t, "ngroups")
		maxGroups = ng
		for k := 0; k < c.Windows; k++ {
			n := rapid.IntRange(1, 14).Draw(t, "nrows")
			if n < ng && rapid.Bool().Draw(t, "fill") {
				n = ng + 2
			}
			for i := 0; i < n; i++ {
				r := genRow(t, id)
				id++
				r["win"] = gen.Int(int64(k))
				r["g"] = gen.Str(string(rune('a' + rapid.IntRange(0, ng-1).Draw(t, "g"))))
				c.Rows = append(c.Rows, r)
			}
		}
	} else {
		c.N = rapid.IntRange(1, 5).Draw(t, "N")
		total := c.N*rapid.IntRange(1, 4).Draw(t, "batches") + rapid.IntRange(0, c.N-1).Draw(t, "extra")
		for i := 0; i < total; i++ {
			c.Rows = append(c.Rows, genRow(t, id))
			id++
		}
	}
	// sparse x: NULL in some rows, but every group of every batch keeps a usable x (aggregates never NULL)
	if rapid.IntRange(0, 3).Draw(t, "sparse") == 0 {
		for _, b := range refBatches(c) {
			for _, g := range b.groups {
				rows := b.rows[g]
				for i := 1; i < len(rows); i++ { // the first row of a group keeps its x
					if rapid.IntRange(0, 3).Draw(t, "nullx") == 0 {
						if rapid.Bool().Draw(t, "missing") {
							rows[i]["x"] = gen.Missing()
						} else {
							rows[i]["x"] = gen.Nil()
						}
					}
				}
			}
		}
	}
	// SELECT list
	ni := rapid.IntRange(1, 4).Draw(t, "nitems")
	for i := 0; i < ni; i++ {
		c.Items = append(c.Items, genItem(t))
	}
	if c.Source == "tumbling" && !pbt.Open("C07", fUnselectedG) {
		c.SelectG = rapid.IntRange(0, 2).Draw(t, "selectg") > 0
	}
	c.Distinct = rapid.IntRange(0, 3).Draw(t, "distinct") == 0
	if c.Distinct && rapid.Bool().Draw(t, "dupProjection") {
		// duplicate-producing projection: counts / extrema only
		c.Items = c.Items[:1]
		c.Items[0] = Item{E: *agg("count", "*"), Form: "agg"}
	}
	// columns usable in HAVING / ORDER BY: never-NULL items
	var usable []int
	for i, it := range c.Items {
		if !it.E.usesW() {
			usable = append(usable, i)
		}
	}
	batches := refBatches(c)
	// HAVING
	if rapid.IntRange(0, 9).Draw(t, "having") < 6 {
		c.Having = genHaving(t, c, usable, batches)
		if c.Source == "tumbling" && !pbt.Open("C07", fHavingWith) {
			c.HavingAfterWith = rapid.IntRange(0, 5).Draw(t, "havingAfterWith") == 0
		}
	}
	// ORDER BY
	if rapid.IntRange(0, 9).Draw(t, "order") < 5 {
		var cols []string
		for _, i := range usable {
			cols = append(cols, c.alias(i))
		}
		if c.Source == "tumbling" && c.SelectG {
			cols = append(cols, "g")
		}
		if len(cols) > 0 {
			nk := rapid.IntRange(1, 2).Draw(t, "nkeys")
			seen := map[string]bool{}
			for k := 0; k < nk; k++ {
				col := rapid.SampledFrom(cols).Draw(t, "ocol")
				if seen[col] {
					continue
				}
				seen[col] = true
				ok := OrderKey{Col: col, Desc: rapid.Bool().Draw(t, "desc")}
				ok.Explicit = !ok.Desc && rapid.IntRange(0, 3).Draw(t, "explicitAsc") == 0
				c.Order = append(c.Order, ok)
			}
		}
	}
	if distinctWithHiddenHaving(c) && pbt.Open("C07", fDistinctHid) {
		c.SelectG = true
	}
	if c.Having != nil && len(c.Order) > 0 && havingRunsIntoOrderBy(c) && pbt.Open("C07", fHavingOrder) {
		c.Order = nil
	}
	// LIMIT
	limitShare := 4
	if len(c.Order) > 0 {
		limitShare = 6
	}
	if rapid.IntRange(0, 9).Draw(t, "limit") < limitShare {
		c.Limit = rapid.IntRange(1, maxGroups+1).Draw(t, "n")
	}
	return c
}

// distinctWithHiddenHaving: DISTINCT, g not selected (duplicates possible) and a HAVING operand that needs a hidden helper aggregate.
func distinctWithHiddenHaving(c Case) bool {
	if !c.Distinct || c.Having == nil || c.Source != "tumbling" || c.SelectG {
		return false
	}
	for _, a := range c.Having.Atoms {
		if a.Alias == "" {
			return true
		}
	}
	return false
}

// havingRunsIntoOrderBy: no WITH clause separates HAVING from ORDER BY in the statement text.
func havingRunsIntoOrderBy(c Case) bool {
	return c.Having != nil && len(c.Order) > 0 && (c.Source == "counting" || c.HavingAfterWith)
}

func genHaving(t *rapid.T, c Case, usable []int, batches []refBatch) *Having {
	h := &Having{}
	na := rapid.IntRange(1, 3).Draw(t, "natoms")
	selectedPlain := map[string]bool{}
	for _, it := range c.Items {
		if it.E.K == "agg" {
			selectedPlain[it.E.sql(false)] = true
		}
	}
	for i := 0; i < na; i++ {
		a := Atom{}
		var operand *Expr
		kind := rapid.IntRange(0, 9).Draw(t, "akind")
		switch {
		case kind < 3 && len(usable) > 0: // alias
			idx := usable[rapid.IntRange(0, len(usable)-1).Draw(t, "aidx")]
			a.Alias = c.alias(idx)
			e := c.Items[idx].E
			operand = &e
		case kind < 5: // a selected plain aggregate, written as a call
			var sel []*Expr
			for _, idx := range usable {
				if c.Items[idx].E.K == "agg" && !exprArg(c.Items[idx].E.Arg) {
					e := c.Items[idx].E
					sel = append(sel, &e)
				}
			}
			if len(sel) > 0 {
				operand = sel[rapid.IntRange(0, len(sel)-1).Draw(t, "sidx")]
				a.E = operand
				break
			}
			fallthrough
		case kind < 8: // an aggregate that is not selected
			for try := 0; try < 4; try++ {
				operand = genAgg(t, false)
				if !selectedPlain[operand.sql(false)] {
					break
				}
			}
			a.E = operand
		case kind < 9: // arithmetic over two aggregates
			operand = bin(genOp(t, false), genAgg(t, false), genAgg(t, false))
			a.E = operand
		default: // aggregate over an arithmetic argument
			if pbt.Open("C07", fHavingExprAg) {
				operand = genAgg(t, false)
			} else {
				operand = agg(rapid.SampledFrom(aggFns).Draw(t, "hfn"), rapid.SampledFrom([]string{"x * 2", "x - 1", "x + y"}).Draw(t, "harg"))
			}
			a.E = operand
		}
		// threshold: near the operand's value in one of the groups, so that some pass and some fail
		var vals []float64
		for _, b := range batches {
			for _, g := range b.groups {
				if v := operand.eval(b.rows[g]); !v.null && !math.IsInf(v.f, 0) && !math.IsNaN(v.f) {
					vals = append(vals, v.f)
				}
			}
		}
		th := 0.0
		if len(vals) > 0 {
			th = vals[rapid.IntRange(0, len(vals)-1).Draw(t, "thidx")]
		}
		th = math.Round(th*4)/4 + float64(rapid.IntRange(-2, 2).Draw(t, "thoff"))/2
		a.Lit = quarter(th)
		cmps := []string{">", ">=", "<", "<="}
		if operand.exact() {
			cmps = append(cmps, "=")
		}
		a.Cmp = rapid.SampledFrom(cmps).Draw(t, "cmp")
		h.Atoms = append(h.Atoms, a)
		if i > 0 {
			h.Conn = append(h.Conn, rapid.SampledFrom([]string{"AND", "OR"}).Draw(t, "conn"))
		}
	}
	if na >= 2 {
		h.Group = rapid.IntRange(0, na-1).Draw(t, "group")
	}
	return h
}

// ---------------------------------------------------------------------------------------------
// SQL text
// ---------------------------------------------------------------------------------------------

func (a Atom) sql(upper bool) string {
	op := a.Alias
	if op == "" {
		op = a.E.sql(upper)
	}
	return op + " " + a.Cmp + " " + a.Lit
}

func (h *Having) sql(upper bool) string {
	parts := make([]string, len(h.Atoms))
	for i, a := range h.Atoms {
		parts[i] = a.sql(upper)
	}
	if len(parts) == 1 {
		return parts[0]
	}
	if len(parts) == 2 {
		s := parts[0] + " " + h.Conn[0] + " " + parts[1]
		if h.Group == 1 {
			return "(" + s + ")"
		}
		return s
	}
	switch h.Group {
	case 1:
		return "(" + parts[0] + " " + h.Conn[0] + " " + parts[1] + ") " + h.Conn[1] + " " + parts[2]
	case 2:
		return parts[0] + " " + h.Conn[0] + " (" + parts[1] + " " + h.Conn[1] + " " + parts[2] + ")"
	}
	return parts[0] + " " + h.Conn[0] + " " + parts[1] + " " + h.Conn[1] + " " + parts[2]
}

func sqlOf(c Case) string {
	var sel []string
	if c.Source == "tumbling" {
		if c.SelectG {
			sel = append(sel, "g")
		}
	} else {
		sel = append(sel, "collect(id) AS ids")
	}
	for i, it := range c.Items {
		sel = append(sel, it.E.sql(c.Upper)+" AS "+c.alias(i))
	}
	q := "SELECT "
	if c.Distinct {
		q += "DISTINCT "
	}
	q += strings.Join(sel, ", ") + " FROM stream GROUP BY "
	having := ""
	if c.Having != nil {
		having = " HAVING " + c.Having.sql(c.Upper)
	}
	if c.Source == "tumbling" {
		q += "g, TumblingWindow('10s')"
		if c.HavingAfterWith {
			q += " " + et.With("ms", 0, 0) + having
		} else {
			q += having + " " + et.With("ms", 0, 0)
		}
	} else {
		q += fmt.Sprintf("CountingWindow(%d)", c.N) + having
	}
	if len(c.Order) > 0 {
		var ks []string
		for _, k := range c.Order {
			s := k.Col
			if k.Desc {
				s += " DESC"
			} else if k.Explicit { // both spellings of ascending order
				s += " ASC"
			}
			ks = append(ks, s)
		}
		q += " ORDER BY " + strings.Join(ks, ", ")
	}
	if c.Limit > 0 {
		q += fmt.Sprintf(" LIMIT %d", c.Limit)
	}
	return q
}

// ---------------------------------------------------------------------------------------------
// Oracle
// ---------------------------------------------------------------------------------------------

const tol = 1e-9

type tri int

const (
	no tri = iota
	yes
	either
)

func triAnd(a, b tri) tri {
	if a == no || b == no {
		return no
	}
	if a == yes && b == yes {
		return yes
	}
	return either
}

func triOr(a, b tri) tri {
	if a == yes || b == yes {
		return yes
	}
	if a == no && b == no {
		return no
	}
	return either
}

func (a Atom) operand(c Case) *Expr {
	if a.Alias != "" {
		i := aliasIndex(a.Alias)
		e := c.Items[i].E
		return &e
	}
	return a.E
}

func (a Atom) holds(c Case, rows []gen.Row) tri {
	op := a.operand(c)
	v := op.eval(rows)
	if v.null {
		return no
	}
	th, _ := strconv.ParseFloat(a.Lit, 64)
	if v.f != th && gen.Close(v.f, th, tol) && !op.exact() {
		return either // rounding of an inexact operand next to the threshold: order of evaluation decides
	}
	var r bool
	switch a.Cmp {
	case ">":
		r = v.f > th
	case ">=":
		r = v.f >= th
	case "<":
		r = v.f < th
	case "<=":
		r = v.f <= th
	default:
		r = v.f == th
	}
	if r {
		return yes
	}
	return no
}

func (h *Having) holds(c Case, rows []gen.Row) tri {
	v := make([]tri, len(h.Atoms))
	for i, a := range h.Atoms {
		v[i] = a.holds(c, rows)
	}
	comb := func(op string, a, b tri) tri {
		if op == "AND" {
			return triAnd(a, b)
		}
		return triOr(a, b)
	}
	switch len(v) {
	case 1:
		return v[0]
	case 2:
		return comb(h.Conn[0], v[0], v[1])
	}
	switch {
	case h.Group == 1:
		return comb(h.Conn[1], comb(h.Conn[0], v[0], v[1]), v[2])
	case h.Group == 2:
		return comb(h.Conn[0], v[0], comb(h.Conn[1], v[1], v[2]))
	case h.Conn[0] == "OR" && h.Conn[1] == "AND": // AND binds tighter
		return triOr(v[0], triAnd(v[1], v[2]))
	default:
		return comb(h.Conn[1], comb(h.Conn[0], v[0], v[1]), v[2])
	}
}

// expRow is one row of the relational reference.
type expRow struct {
	g     string
	vals  []value // per item
	pass  tri     // HAVING
	used  bool
	nrows int
}

func sameVal(a, b value) bool {
	if a.null || b.null {
		return a.null && b.null
	}
	return gen.Close(a.f, b.f, tol)
}

func gotVal(x any) (value, bool) {
	if x == nil {
		return value{null: true}, true
	}
	f, ok := gen.ToFloat(x)
	if !ok {
		return value{}, false
	}
	return value{f: f}, true
}

// cmpRows orders two reference rows by the ORDER BY keys: -1, 0 (tie / unspecified), +1.
func cmpRows(c Case, a, b *expRow) int {
	for _, k := range c.Order {
		var r int
		if k.Col == "g" {
			r = strings.Compare(a.g, b.g)
		} else {
			i := aliasIndex(k.Col)
			va, vb := a.vals[i], b.vals[i]
			if va.null || vb.null { // never generated; placement of NULL is unspecified
				return 0
			}
			switch {
			case gen.Close(va.f, vb.f, tol):
				if va.f != vb.f || !c.Items[i].E.exact() {
					// a near-tie on a key whose value depends on the order of floating-point operations (avg, division,
					// non-dyadic literals): the engine may see the two keys as different in either direction, so the
					// pair is unordered whatever the later keys say
					return 0
				}
				r = 0
			case va.f < vb.f:
				r = -1
			default:
				r = 1
			}
		}
		if r == 0 {
			continue
		}
		if k.Desc {
			return -r
		}
		return r
	}
	return 0
}

func rowText(c Case, r *expRow) string {
	var sb strings.Builder
	if c.Source == "tumbling" {
		fmt.Fprintf(&sb, "g=%s ", r.g)
	}
	for i, v := range r.vals {
		fmt.Fprintf(&sb, "%s=%s ", c.alias(i), v)
	}
	return strings.TrimSpace(sb.String())
}

func runCase(c Case) (res pbt.Result) {
	q := sqlOf(c)
	batches := refBatches(c)
	// ---- classes ----
	res.Class("source:" + c.Source)
	compound := false
	for _, it := range c.Items {
		res.Class("form:" + it.Form)
		if it.E.K != "agg" {
			compound = true
		}
	}
	unselectedHaving := false
	if c.Having != nil {
		res.Class("having")
		sel := map[string]bool{}
		for _, it := range c.Items {
			if it.E.K == "agg" {
				sel[it.E.sql(false)] = true
			}
		}
		for _, a := range c.Having.Atoms {
			switch {
			case a.Alias != "":
				res.Class("having:alias")
			case a.E.K == "agg" && sel[a.E.sql(false)]:
				res.Class("having:selected-agg")
			case a.E.K == "agg":
				res.Class("having:unselected-agg")
				unselectedHaving = true
			default:
				res.Class("having:agg-arithmetic")
				unselectedHaving = true
			}
		}
		if len(c.Having.Atoms) > 1 {
			res.Class("having:and-or")
		}
		if c.HavingAfterWith {
			res.Class("having-after-with")
		}
	}
	if len(c.Order) > 0 {
		res.Class(fmt.Sprintf("order-by:%d", len(c.Order)))
	}
	if c.Limit > 0 {
		res.Class("limit")
	}
	if c.Distinct {
		res.Class("distinct")
	}
	multi := false
	for _, b := range batches {
		if len(b.groups) >= 2 {
			multi = true
		}
	}
	if multi {
		res.Class("multi-group-batch")
	}
	res.NonTrivial = (compound || unselectedHaving) && multi

	in, err := run.Open(q)
	if err != nil {
		// outside the accepted domain: counted, not reported
		res.Class("rejected-at-execute")
		res.NonTrivial = false
		return
	}
	defer in.Stop()

	// ---- reference rows per batch ----
	type expBatch struct {
		refBatch
		rows     []*expRow // after HAVING (pass != no) and DISTINCT
		all      []*expRow
		certain  int // rows that must survive HAVING
		possible int
		seen     bool
	}
	exp := map[string]*expBatch{}
	var order []string
	dupExpected := false
	for _, b := range batches {
		eb := &expBatch{refBatch: b}
		for _, g := range b.groups {
			r := &expRow{g: g, nrows: len(b.rows[g]), pass: yes}
			for _, it := range c.Items {
				e := it.E
				r.vals = append(r.vals, e.eval(b.rows[g]))
			}
			if c.Having != nil {
				r.pass = c.Having.holds(c, b.rows[g])
			}
			eb.all = append(eb.all, r)
			if r.pass == no {
				continue
			}
			if c.Distinct {
				dup := false
				for _, o := range eb.rows {
					same := !(c.Source == "tumbling" && c.SelectG && o.g != r.g)
					for i := range r.vals {
						if !sameVal(o.vals[i], r.vals[i]) {
							same = false
						}
					}
					if same {
						dup = true
						dupExpected = true
						if r.pass == yes {
							o.pass = yes
						}
					}
				}
				if dup {
					continue
				}
			}
			eb.rows = append(eb.rows, r)
		}
		for _, r := range eb.rows {
			eb.possible++
			if r.pass == yes {
				eb.certain++
			}
		}
		exp[b.id] = eb
		order = append(order, b.id)
	}
	if dupExpected {
		res.Class("distinct-removes-duplicate")
	}
	mixed, cuts, nullVal, strictPair := false, false, false, false
	for _, id := range order {
		eb := exp[id]
		nYes, nNo := 0, 0
		for _, r := range eb.all {
			if r.pass == yes {
				nYes++
			} else if r.pass == no {
				nNo++
			}
			for _, v := range r.vals {
				if v.null {
					nullVal = true
				}
			}
		}
		if nYes > 0 && nNo > 0 {
			mixed = true
		}
		if c.Limit > 0 && c.Limit < eb.possible {
			cuts = true
		}
		for i := range eb.rows {
			for j := i + 1; j < len(eb.rows); j++ {
				if cmpRows(c, eb.rows[i], eb.rows[j]) != 0 {
					strictPair = true
				}
			}
		}
	}
	if mixed {
		res.Class("having:splits-a-batch")
	}
	if cuts {
		res.Class("limit:cuts-a-batch")
	}
	if nullVal {
		res.Class("null-item-value")
	}
	if strictPair {
		res.Class("order-by:decides-a-pair")
	}
	if cuts && strictPair {
		res.Class("limit+order:top-n")
	}

	// ---- feed ----
	for i, r := range c.Rows {
		m := map[string]any{"id": int(r["id"].I)}
		for _, col := range []string{"x", "y", "z", "w"} {
			if v, ok := r[col]; ok && !v.IsMissing() {
				m[col] = v.Go()
			}
		}
		if c.Source == "tumbling" {
			m["g"] = r["g"].S
			m["ts"] = et.Base + r["win"].I*windowMs + int64(i)
		}
		in.Emit(m)
	}
	if c.Source == "tumbling" {
		in.Emit(map[string]any{"id": -1, "g": "~flush", "x": 0, "y": 0, "z": 1, "ts": et.Base + int64(c.Windows)*windowMs + 50_000})
	}
	batchKey := func(d run.Delivery) string {
		if len(d.Rows) == 0 {
			return ""
		}
		if c.Source == "tumbling" {
			s, _ := d.Rows[0]["window_id"].(string)
			return s
		}
		l, _ := d.Rows[0]["ids"].([]any)
		var sb strings.Builder
		for _, e := range l {
			f, _ := gen.ToFloat(e)
			fmt.Fprintf(&sb, "%d,", int64(f))
		}
		return sb.String()
	}
	// what must arrive: one delivery for every batch with a row that certainly survives
	lastMust := -1
	for i, id := range order {
		if exp[id].certain > 0 {
			lastMust = i
		}
	}
	in.WaitFor(pbt.Wait(4*time.Second), func(ds []run.Delivery) bool {
		if lastMust < 0 {
			return true
		}
		have := map[string]bool{}
		for _, d := range ds {
			have[batchKey(d)] = true
		}
		for _, id := range order[:lastMust+1] {
			if exp[id].certain > 0 && !have[id] {
				return false
			}
		}
		return true
	})
	if lastMust == len(order)-1 {
		in.Settle(2 * time.Millisecond)
	} else {
		in.Settle(12 * time.Millisecond) // the last batches must NOT arrive: give a wrong delivery time to show up
	}

	// ---- compare ----
	selected := map[string]bool{}
	if c.Source == "tumbling" && c.SelectG {
		selected["g"] = true
	}
	if c.Source == "counting" {
		selected["ids"] = true
	}
	for i := range c.Items {
		selected[c.alias(i)] = true
	}
	for _, d := range in.Deliveries() {
		key := batchKey(d)
		if c.Source == "tumbling" && key == windowID(c.Windows+5) {
			continue // the flush row's own window (only if the engine flushes it)
		}
		eb, ok := exp[key]
		if !ok {
			res.Add(pbt.D("batch-unexpected", "a delivery that is no batch of the input (%s): %v; query %s", key, d.Rows, q))
			continue
		}
		if eb.seen {
			res.Add(pbt.D("batch-twice", "batch %s delivered twice; query %s", key, q))
			continue
		}
		eb.seen = true
		var matched []*expRow
		for _, row := range d.Rows {
			// key set
			for k := range row {
				switch {
				case selected[k], k == "window_id", k == "window_start", k == "window_end":
				case strings.HasPrefix(k, "__"):
					res.Add(pbt.D("hidden-column-visible", "helper column %q delivered: %v; query %s", k, row, q))
				default:
					res.Add(pbt.D("extra-column", "column %q was not selected but is delivered: %v; query %s", k, row, q))
				}
			}
			for i, it := range c.Items {
				if _, ok := row[c.alias(i)]; !ok {
					e := it.E
					res.Add(pbt.D("missing-column:"+e.shape(), "item %s AS %s is missing from the delivered row %v; query %s", e.sql(c.Upper), c.alias(i), row, q))
				}
			}
			// identify the reference row
			var m *expRow
			if c.Source == "counting" || c.SelectG {
				g := ""
				if c.Source == "tumbling" {
					g, _ = row["g"].(string)
				}
				for _, r := range eb.all {
					if r.g == g {
						m = r
					}
				}
				if m == nil {
					res.Add(pbt.D("row-unmatched", "delivered row %v belongs to no group of batch %s; query %s", row, key, q))
					continue
				}
				if m.used {
					res.Add(pbt.D("row-twice", "group %q has two rows in one batch: %v; query %s", g, d.Rows, q))
					continue
				}
				// with DISTINCT the survivor of a set of duplicates may be any of them: g is selected, so there are none
				for i, it := range c.Items {
					gv, present := row[c.alias(i)]
					if !present {
						continue
					}
					v, isNum := gotVal(gv)
					e := it.E
					if !isNum || !sameVal(v, m.vals[i]) {
						res.Add(pbt.D("wrong-item:"+e.shape(), "%s AS %s = %v, relational value %s (group %q, %d rows: %s); query %s",
							e.sql(c.Upper), c.alias(i), gv, m.vals[i], m.g, m.nrows, groupText(eb.refBatch.rows[m.g]), q))
					}
				}
			} else {
				// g is not selected: match by value against the rows that may survive, then against all
				find := func(pool []*expRow) *expRow {
					for _, r := range pool {
						if r.used {
							continue
						}
						okAll := true
						for i := range c.Items {
							gv, present := row[c.alias(i)]
							v, isNum := gotVal(gv)
							if !present || !isNum || !sameVal(v, r.vals[i]) {
								okAll = false
							}
						}
						if okAll {
							return r
						}
					}
					return nil
				}
				m = find(eb.rows)
				if m == nil {
					m = find(eb.all)
				}
				if m == nil {
					res.Add(pbt.D("row-unmatched", "delivered row %v equals no unclaimed group row of batch %s (reference rows: %s); query %s", row, key, allText(c, eb.all), q))
					continue
				}
			}
			m.used = true
			matched = append(matched, m)
		}
		// HAVING / DISTINCT membership
		inRows := map[*expRow]bool{}
		for _, r := range eb.rows {
			inRows[r] = true
		}
		nOK := 0
		for _, m := range matched {
			if m.pass == no {
				res.Add(pbt.D("having-kept", "group row (%s) is delivered although HAVING %s is false for it; query %s", rowText(c, m), c.Having.sql(c.Upper), q))
				continue
			}
			if !inRows[m] {
				res.Add(pbt.D("distinct-duplicate", "row (%s) is delivered although an equal row is already in the batch; query %s", rowText(c, m), q))
				continue
			}
			nOK++
		}
		if c.Distinct {
			// no two delivered rows equal on the selected columns
			for i := 0; i < len(d.Rows); i++ {
				for j := i + 1; j < len(d.Rows); j++ {
					same := true
					for k := range selected {
						a, aok := gotVal(d.Rows[i][k])
						b, bok := gotVal(d.Rows[j][k])
						if aok && bok {
							if !sameVal(a, b) {
								same = false
							}
						} else if fmt.Sprint(d.Rows[i][k]) != fmt.Sprint(d.Rows[j][k]) {
							same = false
						}
					}
					if same {
						res.Add(pbt.D("distinct-duplicate", "DISTINCT batch holds two rows equal on the selected columns: %v and %v; query %s", d.Rows[i], d.Rows[j], q))
					}
				}
			}
		}
		limited := c.Limit > 0 && c.Limit < eb.possible
		if !limited {
			for _, r := range eb.rows {
				if r.pass == yes && !r.used {
					kind := "row-missing"
					if c.Having != nil {
						kind = "having-dropped"
					}
					res.Add(pbt.D(kind, "group row (%s) must be delivered (HAVING true, no LIMIT reached) but is not in batch %v; query %s", rowText(c, r), d.Rows, q))
				}
			}
		}
		if c.Limit > 0 {
			if len(d.Rows) > c.Limit {
				res.Add(pbt.D("limit-exceeded", "LIMIT %d but %d rows delivered: %v; query %s", c.Limit, len(d.Rows), d.Rows, q))
			}
			want := c.Limit
			if eb.certain < want {
				want = eb.certain
			}
			if limited && nOK < want {
				res.Add(pbt.D("limit-short", "LIMIT %d over %d surviving rows, but only %d of them delivered: %v; query %s", c.Limit, eb.certain, nOK, d.Rows, q))
			}
		}
		// ORDER BY: adjacent delivered rows are ordered; LIMIT: no undelivered survivor sorts strictly before a delivered one
		if len(c.Order) > 0 {
			for i := 0; i+1 < len(matched); i++ {
				if cmpRows(c, matched[i], matched[i+1]) > 0 {
					res.Add(pbt.D("order-violated", "ORDER BY %s: row (%s) is delivered before row (%s); query %s", orderText(c), rowText(c, matched[i]), rowText(c, matched[i+1]), q))
				}
			}
			if limited && eb.certain == eb.possible {
				for _, r := range eb.rows {
					if r.used {
						continue
					}
					for _, m := range matched {
						if inRows[m] && cmpRows(c, r, m) < 0 {
							res.Add(pbt.D("limit-not-prefix", "ORDER BY %s LIMIT %d: row (%s) is left out although it sorts before the delivered row (%s); query %s", orderText(c), c.Limit, rowText(c, r), rowText(c, m), q))
						}
					}
				}
			}
		}
	}
	for _, id := range order {
		eb := exp[id]
		if !eb.seen && eb.certain > 0 {
			kind := "batch-missing"
			if c.Having != nil {
				kind = "having-dropped"
			}
			res.Add(pbt.D(kind, "batch %s: no delivery although %d group rows survive (%s); query %s", id, eb.certain, allText(c, eb.rows), q))
		}
	}
	return
}

func orderText(c Case) string {
	var ks []string
	for _, k := range c.Order {
		switch {
		case k.Desc:
			ks = append(ks, k.Col+" DESC")
		case k.Explicit:
			ks = append(ks, k.Col+" ASC")
		default:
			ks = append(ks, k.Col)
		}
	}
	return strings.Join(ks, ", ")
}

func allText(c Case, rows []*expRow) string {
	var parts []string
	for _, r := range rows {
		parts = append(parts, "("+rowText(c, r)+")")
	}
	return strings.Join(parts, " ")
}

func groupText(rows []gen.Row) string {
	var parts []string
	for _, r := range rows {
		var cs []string
		for _, col := range []string{"x", "y", "z", "w"} {
			if v, ok := r[col]; ok {
				cs = append(cs, col+"="+v.String())
			}
		}
		parts = append(parts, "{"+strings.Join(cs, " ")+"}")
	}
	return strings.Join(parts, " ")
}

// ---------------------------------------------------------------------------------------------
// Features (known-finding shapes)
// ---------------------------------------------------------------------------------------------

func features(c Case) []string {
	set := map[string]bool{}
	for _, it := range c.Items {
		e := it.E
		switch e.shape() {
		case "agg-op-literal":
			set[fAggOpLit] = true
		case "expr-arg-compound":
			set[fExprArgComp] = true
		case "paren-plain":
			set[fParenPlain] = true
		}
	}
	if c.Having != nil {
		if havingRunsIntoOrderBy(c) {
			set[fHavingOrder] = true
		}
		if c.Source == "tumbling" && c.HavingAfterWith {
			set[fHavingWith] = true
		}
		for _, a := range c.Having.Atoms {
			if a.Alias == "" {
				for _, x := range a.E.aggs() {
					if exprArg(x.Arg) {
						set[fHavingExprAg] = true
					}
				}
			}
		}
	}
	if c.Source == "tumbling" && !c.SelectG {
		set[fUnselectedG] = true
	}
	if distinctWithHiddenHaving(c) {
		set[fDistinctHid] = true
	}
	var out []string
	for f := range set {
		out = append(out, f)
	}
	sort.Strings(out)
	return out
}

var spec = pbt.Spec[Case]{
	ID:   "C07",
	Rule: "generated programs over two batch sources: an event-time tumbling window (1-2 consecutive windows, 1-5 groups interleaved, then a flush row) giving multi-group batches, and CountingWindow(N) without grouping giving 1-4 single-group batches. SELECT items (aliased a0, a1, .. or, half of the time, with names that contain keywords as parts of words: lowercase_0, order_1, is_2, band3, end_4, ..): agg(x), agg(x) op lit, agg(x) op lit op lit, lit op agg(x), agg(x) op agg(y), (agg op lit) op X, X op (agg op Y), (agg op X), (agg(x)), ((agg op lit) op lit) op agg, agg(x*2), agg(x*2) op lit, agg(x+y)/agg(z), agg(x*2) op agg(y*3) [op agg(..)] over 7 arithmetic arguments; agg in sum/avg/min/max/count, the column now and then in back quotes, divisors never zero; upper/lower-case function names. HAVING: 1-3 comparisons (> >= < <= and = on exact operands) of an alias, a selected aggregate, an unselected aggregate, arithmetic over two aggregates or an aggregate over an arithmetic argument with a threshold drawn next to the groups' values, joined by AND/OR with optional parentheses, written before or after WITH. ORDER BY 1-2 output columns (aliases, g) ASC/DESC; LIMIT 1..groups+1; DISTINCT incl. count(*)-only projections. values: small ints and quarter-step floats, x NULL/missing in some rows, w often NULL (w-items never used in HAVING/ORDER BY). oracle: relational reference (reference aggregates, float64 arithmetic, NULL-propagating), HAVING -> projection -> DISTINCT -> ORDER BY -> LIMIT per batch: key set, item values (rel. tol 1e-9), exact HAVING membership, ORDER BY validity of adjacent rows, LIMIT size and prefix-of-a-valid-order, no duplicates under DISTINCT, one delivery per batch with a survivor and none otherwise. non-trivial = (a compound item or a HAVING operand that is not a selected column) and a batch with >= 2 groups; distinct by case hash",
	Assumptions: []string{
		"ties and NULL placement under ORDER BY are unspecified (NULL sort keys are not generated); two sort keys within 1e-9 of each other whose value is inexact (avg, division, non-dyadic literal) count as a tie in either direction, whatever the later keys say",
		"a HAVING comparison whose inexact operand (avg, division, non-dyadic literal) is within 1e-9 of the threshold may go either way",
		"window_id, window_start, window_end are engine metadata and may accompany the selected columns",
		"clause order follows the parser: GROUP BY .. HAVING .. WITH (..) ORDER BY .. LIMIT; HAVING written after WITH (as in the repository's own e2e test) is generated as a separate class",
		"a batch in which no group survives HAVING produces no delivery",
	},
	Gen:      genCase,
	Run:      runCase,
	Features: features,
}

func TestProp(t *testing.T)    { pbt.RunProp(t, spec) }
func TestReplay(t *testing.T)  { pbt.RunReplay(t, spec) }
func TestWitness(t *testing.T) { pbt.RunWitnesses(t, spec) }
