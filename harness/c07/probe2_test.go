package c07

import (
	"fmt"
	"os"
	"strings"
	"testing"

	"github.com/rulego/streamsql/rsql"
)

func TestParseProbe(t *testing.T) {
	if os.Getenv("PPROBE") == "" {
		t.Skip()
	}
	for _, q := range strings.Split(os.Getenv("PPROBE"), ";;") {
		cfg, cond, err := rsql.Parse(q)
		if err != nil {
			fmt.Printf("SQL %s\n  ERR %v\n", q, err)
			continue
		}
		fmt.Printf("SQL %s\n  having=%q orderby=%v limit=%d distinct=%v cond=%q\n  select=%v\n  alias=%v\n  exprs=%v\n  post=%+v\n", q, cfg.Having, cfg.OrderBy, cfg.Limit, cfg.Distinct, cond, cfg.SelectFields, cfg.FieldAlias, cfg.FieldExpressions, cfg.PostAggExpressions)
	}
}
