package c13

import (
	"strings"
	"testing"
	"unicode/utf8"

	"github.com/rulego/streamsql/condition"
	"github.com/rulego/streamsql/expr"
	"github.com/rulego/streamsql/functions"
	"verifharness/internal/pbt"
)

// FuzzLike: coverage-guided search over (pattern, text) for the three copies of the LIKE matcher, reached through
// their pure entry points (no engine instance, so coverage is deterministic):
//   - WHERE / HAVING: bridge.PreprocessLikeExpression + condition.NewExprCondition (condition package matcher)
//   - SELECT expression: bridge.EvaluateExpression (bridge matcher)
//   - CASE WHEN: expr.NewExpression(...).EvaluateValueWithNull (expr package matcher)
//
// oracle: the anchored regexp of likeRe. Quotes, back quotes and backslashes cannot be written inside the literal
// (the lexer has no escape), so inputs containing them are skipped by construction (mapped away), not rejected.
func FuzzLike(f *testing.F) {
	for _, s := range [][2]string{{"a%", "abc"}, {"%a", "ba"}, {"a_c", "abc"}, {"a%ab", "ab"}, {"_%ab", "ab"}, {"a_%%", "ab"}, {"%%", ""}, {"", ""}, {"a.c", "abc"},
		{"é_", "éa"}, {"%_é%", "aéb"}, {"a%b%c", "abbc"}, {"[a]%", "[a]b"}, {"a*", "aa"}, {"^a$", "^a$"}, {"A%", "abc"}, {"a\nb", "a\nb"}} {
		f.Add(s[0], s[1])
	}
	bridge := functions.GetExprBridge()
	clean := func(s string) string {
		if !utf8.ValidString(s) {
			s = strings.ToValidUTF8(s, "?")
		}
		return strings.Map(func(r rune) rune {
			switch r {
			case '\'', '"', '`', '\\':
				return 'q'
			}
			return r
		}, s)
	}
	f.Fuzz(func(t *testing.T, pattern, text string) {
		if len(pattern) > 64 || len(text) > 256 {
			t.Skip()
		}
		p, x := clean(pattern), clean(text)
		// a raw line break inside the literal is outside the documented grammar (expr-lang, which evaluates the
		// lowered predicate, drops a carriage return and rejects a line feed inside a quoted literal); the text may
		// contain them
		p = strings.Map(func(r rune) rune {
			if r == '\r' || r == '\n' {
				return ' '
			}
			return r
		}, p)
		if pbtOpen("multibyte") && (!isASCII(p) || !isASCII(x)) {
			t.Skip()
		}
		want := likeRe(p).MatchString(x)
		row := map[string]any{"x": x}
		pred := "x LIKE '" + p + "'"
		// WHERE / HAVING path
		if pre, err := bridge.PreprocessLikeExpression(pred); err == nil {
			if c, err := condition.NewExprCondition(pre); err == nil {
				if got := c.Evaluate(row); got != want {
					t.Fatalf("VERIF-DISC kind=wrong-where detail=%s (lowered to %q) on x=%q in the WHERE matcher = %v, want %v", pred, pre, x, got, want)
				}
			}
		}
		// SELECT expression path
		if v, err := bridge.EvaluateExpression("("+pred+")", map[string]any{"x": x}); err == nil {
			if got, ok := v.(bool); ok && got != want {
				t.Fatalf("VERIF-DISC kind=wrong-select detail=(%s) on x=%q through the expression bridge = %v, want %v", pred, x, got, want)
			}
		}
		// CASE path
		if e, err := expr.NewExpression("CASE WHEN " + pred + " THEN 1 ELSE 0 END"); err == nil {
			if v, isNull, err := e.EvaluateValueWithNull(map[string]any{"x": x}); err == nil && !isNull {
				if fv, ok := toF(v); ok && (fv == 1) != want {
					t.Fatalf("VERIF-DISC kind=wrong-case detail=CASE WHEN %s on x=%q = %v, want %v", pred, x, v, want)
				}
			}
		}
	})
}

func isASCII(s string) bool {
	for i := 0; i < len(s); i++ {
		if s[i] >= 0x80 {
			return false
		}
	}
	return true
}

func toF(v any) (float64, bool) {
	switch n := v.(type) {
	case float64:
		return n, true
	case int:
		return float64(n), true
	case int64:
		return float64(n), true
	}
	return 0, false
}

func pbtOpen(feature string) bool { return pbt.Open("C13", feature) }
