package c13

import (
	"fmt"
	"regexp"
	"strconv"
	"strings"
	"testing"
	"time"

	"pgregory.net/rapid"
	"verifharness/internal/gen"
	"verifharness/internal/pbt"
	"verifharness/internal/run"

	"github.com/rulego/streamsql"
)

// Case: one LIKE pattern (or an IS [NOT] NULL test) evaluated on several texts in every context.
type Case struct {
	Kind    string    `json:"kind"`    // "like", "isnull", "notnull"
	Pattern string    `json:"pattern"` // for like
	Target  string    `json:"target"`  // for null tests: "col", "path", "func"
	Texts   []gen.Val `json:"texts"`
	Bare    bool      `json:"bare,omitempty"` // force the contexts excluded by open findings (witness cases)
	Twin    bool      `json:"twin,omitempty"` // like: afterwards the same texts against the case-swapped pattern
	// Combo (kind "combo"): `x LIKE p <Conj> y IS [NOT] NULL` (or the other way round) over a second column y
	Conj      string `json:"conj,omitempty"`
	NotNull   bool   `json:"not_null,omitempty"`
	NullFirst bool   `json:"null_first,omitempty"`
	YNull     []bool `json:"y_null,omitempty"` // per text: is y NULL in that row
}

var alphabet = []string{"%", "_", "a", "b", ".", "*", "(", "[", "+", "?", "^", "$", "é", " "}

func alpha() []string {
	var a []string
	for _, ch := range alphabet {
		if ch == "é" && pbt.Open("C13", "multibyte") {
			continue
		}
		if ch == "(" && pbt.Open("C13", "paren-in-pattern") {
			continue
		}
		a = append(a, ch)
	}
	return a
}

func genStr(t *rapid.T, label string, max int) string {
	n := rapid.IntRange(0, max).Draw(t, label+"n")
	var sb strings.Builder
	a := alpha()
	for i := 0; i < n; i++ {
		// wildcards and a/b weighted up
		x := rapid.IntRange(0, len(a)+5).Draw(t, label)
		switch {
		case x < len(a):
			sb.WriteString(a[x])
		case x < len(a)+2:
			sb.WriteString("%")
		case x < len(a)+3:
			sb.WriteString("_")
		default:
			sb.WriteString("a")
		}
	}
	return sb.String()
}

// likeRe is the oracle: anchored regexp with QuoteMeta per literal character.
func likeRe(p string) *regexp.Regexp {
	var sb strings.Builder
	sb.WriteString(`(?s)^`)
	for _, r := range p {
		switch r {
		case '%':
			sb.WriteString(`.*`)
		case '_':
			sb.WriteString(`.`)
		default:
			sb.WriteString(regexp.QuoteMeta(string(r)))
		}
	}
	sb.WriteString(`$`)
	return regexp.MustCompile(sb.String())
}

func matching(p string) string {
	return strings.NewReplacer("%", "", "_", "a").Replace(p)
}

func genCombo(t *rapid.T) Case {
	c := Case{Kind: "combo", Conj: rapid.SampledFrom([]string{"AND", "OR"}).Draw(t, "conj"), NotNull: rapid.Bool().Draw(t, "notnull"), NullFirst: rapid.Bool().Draw(t, "nullfirst")}
	c.Pattern = genStr(t, "p", 3) + "%" + genStr(t, "q", 3)
	if pbt.Open("C13", "space-pattern") {
		c.Pattern = strings.ReplaceAll(c.Pattern, " ", "b")
	}
	nt := rapid.IntRange(2, 8).Draw(t, "nt")
	for i := 0; i < nt; i++ {
		if rapid.Bool().Draw(t, "match") {
			var sb strings.Builder
			for _, r := range c.Pattern {
				switch r {
				case '%':
					sb.WriteString(genStr(t, "exp", 3))
				case '_':
					sb.WriteString(rapid.SampledFrom(alpha()).Draw(t, "one"))
				default:
					sb.WriteRune(r)
				}
			}
			c.Texts = append(c.Texts, gen.Str(sb.String()))
		} else {
			c.Texts = append(c.Texts, gen.Str(genStr(t, "t", 6)))
		}
		c.YNull = append(c.YNull, rapid.Bool().Draw(t, "ynull"))
	}
	return c
}

func genCase(t *rapid.T) Case {
	k := rapid.IntRange(0, 9).Draw(t, "kind")
	if rapid.IntRange(0, 6).Draw(t, "combo") == 3 {
		return genCombo(t)
	}
	if k < 7 {
		c := Case{Kind: "like"}
		switch rapid.IntRange(0, 8).Draw(t, "shape") {
		case 0:
			c.Pattern = "%%"
		case 1:
			c.Pattern = ""
		case 2:
			c.Pattern = "%" + genStr(t, "p", 4)
		case 3:
			c.Pattern = genStr(t, "p", 4) + "%"
		case 4:
			c.Pattern = genStr(t, "p", 3) + "%" + genStr(t, "q", 3)
		case 5:
			// head and tail share a piece: h o % o r; the text h o r is too short to match, its end nevertheless equals the tail
			lit := func(label string, min, max int) string {
				n := rapid.IntRange(min, max).Draw(t, label+"n")
				var sb strings.Builder
				for i := 0; i < n; i++ {
					sb.WriteString(rapid.SampledFrom([]string{"a", "b", ".", "a", "b", "$"}).Draw(t, label))
				}
				return sb.String()
			}
			h, o, r := lit("h", 0, 2), lit("o", 1, 2), lit("r", 0, 2)
			if rapid.Bool().Draw(t, "underscore") && len(h) > 0 {
				h = "_" + h[1:]
			}
			c.Pattern = h + o + "%" + o + r
			c.Texts = append(c.Texts, gen.Str(strings.ReplaceAll(h, "_", "b")+o+r), gen.Str(strings.ReplaceAll(h, "_", "b")+o+o+r))
		default:
			c.Pattern = genStr(t, "p", 7)
		}
		if pbt.Open("C13", "space-pattern") {
			c.Pattern = strings.ReplaceAll(c.Pattern, " ", "b")
		}
		c.Twin = rapid.IntRange(0, 3).Draw(t, "twin") == 0
		nt := rapid.IntRange(1, 8).Draw(t, "nt")
		re := likeRe(c.Pattern)
		for i := 0; i < nt; i++ {
			var v gen.Val
			switch rapid.IntRange(0, 11).Draw(t, "tk") {
			case 0:
				v = gen.Nil()
			case 1:
				v = gen.Missing()
			case 2:
				v = gen.Str(c.Pattern) // pattern = text
			case 3, 4:
				// a text that matches: wildcards expanded
				var sb strings.Builder
				for _, r := range c.Pattern {
					switch r {
					case '%':
						sb.WriteString(genStr(t, "exp", 3))
					case '_':
						sb.WriteString(rapid.SampledFrom(alpha()).Draw(t, "one"))
					default:
						sb.WriteRune(r)
					}
				}
				v = gen.Str(sb.String())
			case 5:
				v = gen.Int(int64(rapid.IntRange(0, 12).Draw(t, "int")))
			case 6, 7:
				// near misses: the head up to the last % followed by a tail that lost its first characters (the tail fits
				// only by overlapping what the head consumed), a matching text with one character dropped, doubled or in
				// the other case
				m := strings.NewReplacer("_", "a").Replace(c.Pattern)
				if i := strings.LastIndex(m, "%"); i >= 0 && rapid.Bool().Draw(t, "overlap") {
					head, tail := strings.ReplaceAll(m[:i], "%", ""), m[i+1:]
					tr := []rune(tail)
					k := 0
					if len(tr) > 0 {
						k = rapid.IntRange(1, len(tr)).Draw(t, "cut")
					}
					tail = string(tr[k:])
					k = 0
					v = gen.Str(head + tail[k:])
				} else {
					rs := []rune(strings.ReplaceAll(m, "%", ""))
					if len(rs) > 0 {
						j := rapid.IntRange(0, len(rs)-1).Draw(t, "at")
						switch rapid.IntRange(0, 2).Draw(t, "edit") {
						case 0:
							rs = append(rs[:j:j], rs[j+1:]...)
						case 1:
							rs = append(rs[:j+1:j+1], rs[j:]...)
						default:
							rs[j] = []rune(swapCase(string(rs[j])))[0]
						}
					}
					v = gen.Str(string(rs))
				}
			default:
				v = gen.Str(genStr(t, "t", 7))
			}
			_ = re
			c.Texts = append(c.Texts, v)
		}
		return c
	}
	c := Case{Kind: "isnull"}
	if k == 9 {
		c.Kind = "notnull"
	}
	c.Target = rapid.SampledFrom([]string{"col", "col", "path", "func"}).Draw(t, "target")
	nt := rapid.IntRange(1, 6).Draw(t, "nt")
	for i := 0; i < nt; i++ {
		switch rapid.IntRange(0, 5).Draw(t, "tk") {
		case 0:
			c.Texts = append(c.Texts, gen.Nil())
		case 1:
			c.Texts = append(c.Texts, gen.Missing())
		case 2:
			c.Texts = append(c.Texts, gen.Str(rapid.SampledFrom([]string{"", "a", "A"}).Draw(t, "sv")))
		case 3:
			c.Texts = append(c.Texts, gen.Int(0))
		case 4:
			c.Texts = append(c.Texts, gen.Bool(false))
		default:
			c.Texts = append(c.Texts, gen.Str(genStr(t, "t", 4)))
		}
	}
	return c
}

// predicate text and the column expression it tests
func pred(c Case) string {
	switch c.Kind {
	case "like":
		return "x LIKE '" + c.Pattern + "'"
	case "combo":
		like := "x LIKE '" + c.Pattern + "'"
		nt := "y IS NULL"
		if c.NotNull {
			nt = "y IS NOT NULL"
		}
		if c.NullFirst {
			return nt + " " + c.Conj + " " + like
		}
		return like + " " + c.Conj + " " + nt
	}
	var tgt string
	switch c.Target {
	case "path":
		tgt = "d.x"
	case "func":
		tgt = "null_if(x, 'a')"
	default:
		tgt = "x"
	}
	if c.Kind == "isnull" {
		return tgt + " IS NULL"
	}
	return tgt + " IS NOT NULL"
}

func rowOf(c Case, v gen.Val, id int) map[string]any {
	r := map[string]any{"id": id}
	if c.Target == "path" {
		d := map[string]any{"k": 1}
		if !v.IsMissing() {
			d["x"] = v.Go()
		} else {
			// the path d.x is absent in more than one way: d without x, no d at all, d NULL, d a number
			switch id % 4 {
			case 1:
				return r
			case 2:
				r["d"] = nil
				return r
			case 3:
				r["d"] = 5
				return r
			}
		}
		r["d"] = d
		return r
	}
	if !v.IsMissing() {
		r["x"] = v.Go()
	}
	if c.Kind == "combo" {
		if id >= 0 && id < len(c.YNull) && !c.YNull[id] {
			r["y"] = 1
		} else if id == 9999 {
			// sentinel: satisfy the NULL test
			if c.NotNull {
				r["y"] = 1
			}
		}
	}
	return r
}

// expected truth; known=false when the property does not fix the answer (non-string text under LIKE,
// upper() of a non-string)
func expected(c Case, v gen.Val, idx ...int) (want bool, known bool) {
	switch c.Kind {
	case "combo":
		like := v.K == "str" && likeRe(c.Pattern).MatchString(v.S)
		yNull := len(idx) > 0 && idx[0] >= 0 && idx[0] < len(c.YNull) && c.YNull[idx[0]]
		nt := yNull
		if c.NotNull {
			nt = !yNull
		}
		if c.Conj == "AND" {
			return like && nt, true
		}
		return like || nt, true
	case "like":
		if v.IsNull() {
			return false, true
		}
		if v.K != "str" {
			return false, false
		}
		return likeRe(c.Pattern).MatchString(v.S), true
	}
	null := v.IsNull()
	if c.Target == "func" {
		// null_if(x,'a'): documented as NULL when both values are equal, else the first value
		null = v.IsNull() || (v.K == "str" && v.S == "a")
	}
	if c.Kind == "isnull" {
		return null, true
	}
	return !null, true
}

type ctx struct {
	name string
	sql  string
	sync bool
	// decide extracts the boolean from the EmitSync result (nil result = filtered)
	decide func(res map[string]any) (bool, bool)
}

func truthy(v any) (bool, bool) {
	switch x := v.(type) {
	case bool:
		return x, true
	case nil:
		return false, false
	}
	if f, ok := gen.ToFloat(v); ok {
		return f != 0, true
	}
	return false, false
}

func contexts(c Case) []ctx {
	p := pred(c)
	cs := []ctx{
		{name: "where", sync: true, sql: "SELECT id FROM stream WHERE " + p,
			decide: func(r map[string]any) (bool, bool) { return r != nil, true }},
	}
	if !(c.Target == "func" && pbt.Open("C13", "case-func-null-test")) || c.Bare {
		cs = append(cs, ctx{name: "case", sync: true, sql: "SELECT id, CASE WHEN " + p + " THEN 1 ELSE 0 END AS r FROM stream",
			decide: func(r map[string]any) (bool, bool) {
				if r == nil {
					return false, false
				}
				return truthy(r["r"])
			}})
	}
	sel := func(name, e string) ctx {
		return ctx{name: name, sync: true, sql: "SELECT id, " + e + " AS r FROM stream",
			decide: func(r map[string]any) (bool, bool) {
				if r == nil {
					return false, false
				}
				return truthy(r["r"])
			}}
	}
	if c.Kind == "combo" && pbt.Open("C06", "sql-ops-bridge") && !c.Bare {
		// AND/OR inside a SELECT item is not lowered for the bridge evaluator (finding F-C06-SQLOPS)
		return cs
	}
	cs = append(cs, sel("select", "("+p+")"))
	if !(c.Target == "func" && pbt.Open("C13", "select-bare-bool-func")) || c.Bare {
		cs = append(cs, sel("selectbare", p))
	}
	return cs
}

func havingSQL(c Case) string {
	switch c.Target {
	case "path":
		return "" // HAVING works on output columns; nested path is not an output column
	case "func":
		return ""
	}
	if c.Kind == "combo" {
		return "SELECT last_value(x) AS x, last_value(y) AS y, max(id) AS id FROM stream GROUP BY CountingWindow(1) HAVING " + pred(c)
	}
	return "SELECT last_value(x) AS x, max(id) AS id FROM stream GROUP BY CountingWindow(1) HAVING " + pred(c)
}

// runCase starts from empty process-wide expression caches (the case is the whole history they see); a like case
// with Twin set is followed, in the same process state, by the same texts against the pattern with its letters'
// case swapped: LIKE is case-sensitive, and the second query differs from the first in letter case only.
func runCase(c Case) (res pbt.Result) {
	run.ResetExprCaches()
	res = runOne(c)
	if c.Kind == "like" && c.Twin && len(res.Discs) == 0 {
		c2 := c
		c2.Pattern = swapCase(c.Pattern)
		if c2.Pattern != c.Pattern {
			r2 := runOne(c2)
			for _, d := range r2.Discs {
				d.Detail = "after the same query with pattern " + strconv.Quote(c.Pattern) + ": " + d.Detail
				res.Discs = append(res.Discs, d)
			}
			res.Class("case-twin-pattern")
		}
	}
	return
}

func swapCase(s string) string {
	return strings.Map(func(r rune) rune {
		switch {
		case r >= 'a' && r <= 'z':
			return r - 32
		case r >= 'A' && r <= 'Z':
			return r + 32
		}
		return r
	}, s)
}

func runOne(c Case) (res pbt.Result) {
	p := pred(c)
	for _, cx := range contexts(c) {
		var s *streamsql.Streamsql
		var err error
		func() {
			defer func() {
				if r := recover(); r != nil {
					err = fmt.Errorf("PANIC: %v", r)
				}
			}()
			s = streamsql.New()
			err = s.Execute(cx.sql)
		}()
		if err != nil {
			if strings.HasPrefix(err.Error(), "PANIC") {
				res.Add(pbt.D("panic", "Execute(%q): %v", cx.sql, err))
			} else {
				res.Add(pbt.D("rejected", "context %s: statement rejected: %q: %v", cx.name, cx.sql, err))
			}
			continue
		}
		for i, v := range c.Texts {
			want, known := expected(c, v, i)
			var out map[string]any
			var eerr error
			func() {
				defer func() {
					if r := recover(); r != nil {
						eerr = fmt.Errorf("PANIC: %v", r)
					}
				}()
				out, eerr = s.EmitSync(rowOf(c, v, i))
			}()
			if eerr != nil && strings.HasPrefix(eerr.Error(), "PANIC") {
				res.Add(pbt.D("panic", "%s on x=%s in %s: %v", p, v, cx.name, eerr))
				continue
			}
			if !known {
				res.Count("unspecified-evaluations", 1)
				continue
			}
			got, ok := cx.decide(out)
			if !ok && eerr == nil && out != nil && out["r"] == nil && c.Kind == "like" && v.IsNull() && cx.name != "where" {
				// NULL LIKE p is NULL (unknown) in SQL: as a value it is "not true"
				got, ok = false, true
			}
			if eerr != nil {
				got, ok = false, true // an evaluation error rejects
				if cx.name != "where" {
					ok = false
				}
			}
			if !ok {
				res.Add(pbt.D("no-answer-"+cx.name, "%s on x=%s in context %s gave no boolean (result %v, err %v); want %v", p, v, cx.name, out, eerr, want))
				continue
			}
			if got != want {
				res.Add(pbt.D("wrong-"+cx.name, "%s on x=%s in context %s = %v, want %v", p, v, cx.name, got, want))
			}
			res.Count("evaluations", 1)
		}
		s.Stop()
	}
	// HAVING over a one-row counting window; a row built to satisfy the predicate is the barrier
	if hs := havingSQL(c); hs != "" {
		in, err := run.Open(hs)
		if err != nil {
			res.Add(pbt.D("rejected", "context having: statement rejected: %q: %v", hs, err))
		} else {
			wantIDs := map[int]bool{}
			n := 0
			for i, v := range c.Texts {
				want, known := expected(c, v, i)
				if !known {
					continue
				}
				// last_value(x) over a missing column: the aggregate reports NULL as well
				in.Emit(rowOf(c, v, i))
				n++
				if want {
					wantIDs[i] = true
				}
			}
			var sv gen.Val
			switch c.Kind {
			case "like", "combo":
				sv = gen.Str(matching(c.Pattern))
			case "isnull":
				sv = gen.Nil()
			default:
				sv = gen.Str("z")
			}
			in.Emit(rowOf(c, sv, 9999))
			okb := in.WaitFor(pbt.Wait(3*time.Second), func(ds []run.Delivery) bool {
				for _, d := range ds {
					for _, r := range d.Rows {
						if f, _ := gen.ToFloat(r["id"]); int(f) == 9999 {
							return true
						}
					}
				}
				return false
			})
			if !okb {
				res.Add(pbt.D("wrong-having", "%s: a row with x=%s (built to satisfy the predicate) was not delivered through HAVING", p, sv))
			}
			got := map[int]bool{}
			for _, r := range in.Rows() {
				f, _ := gen.ToFloat(r["id"])
				if int(f) != 9999 {
					got[int(f)] = true
				}
			}
			for i, v := range c.Texts {
				if _, known := expected(c, v, i); !known {
					continue
				}
				if got[i] != wantIDs[i] {
					res.Add(pbt.D("wrong-having", "%s on x=%s in HAVING = %v, want %v", p, v, got[i], wantIDs[i]))
				}
				res.Count("evaluations", 1)
			}
			in.Stop()
		}
	}
	// classes
	if c.Kind == "like" {
		core := strings.Trim(c.Pattern, "%")
		inner := strings.ContainsAny(core, "%_")
		wildText := false
		for _, v := range c.Texts {
			if v.K == "str" && strings.ContainsAny(v.S, "%_") {
				wildText = true
			}
		}
		if inner {
			res.Class("inner-wildcard")
		}
		if wildText {
			res.Class("wildcard-in-text")
		}
		if c.Pattern == "" {
			res.Class("empty-pattern")
		}
		res.NonTrivial = inner || wildText
	} else if c.Kind == "combo" {
		res.Class("combo-like-and-null-test")
		res.NonTrivial = true
	} else {
		res.Class("null-test-" + c.Target)
		hasNull, hasVal := false, false
		for _, v := range c.Texts {
			if v.IsNull() {
				hasNull = true
			} else {
				hasVal = true
			}
		}
		res.NonTrivial = hasNull && hasVal
	}
	return
}

func features(c Case) []string {
	var f []string
	if c.Bare && c.Target == "func" {
		f = append(f, "select-bare-bool-func", "case-func-null-test")
	}
	if c.Kind == "like" {
		if strings.ContainsAny(c.Pattern, "é") {
			f = append(f, "multibyte")
		}
		for _, v := range c.Texts {
			if v.K == "str" && strings.Contains(v.S, "é") {
				f = append(f, "multibyte")
				break
			}
		}
		if strings.Contains(c.Pattern, " ") {
			f = append(f, "space-pattern")
		}
		if strings.Contains(c.Pattern, "(") {
			f = append(f, "paren-in-pattern")
		}
	}
	return f
}

var spec = pbt.Spec[Case]{
	ID:          "C13",
	Rule:        "generated: LIKE patterns over {%,_,a,b,.,*,(,[,+,?,^,$,é,space} with forced shapes (%%, empty, leading/trailing/inner wildcards, head and tail sharing a piece (h o % o r with the too-short text h o r), pattern = text, texts expanded from the pattern, near misses: head + truncated tail around the last %, one character dropped / doubled / case-swapped); one like case in four is followed by the same texts against the case-swapped pattern in the same process state; every case starts from empty process-wide expression caches; x texts (strings over the same alphabet, NULL, missing, ints) and IS [NOT] NULL tests on a column, nested path and function call; each evaluated in WHERE, CASE WHEN, SELECT boolean item and HAVING (one-row counting window). oracle: anchored regexp built with QuoteMeta per literal character (% -> .*, _ -> .), NULL/missing text not true; IS NULL <=> absent or NULL; same answer in every context. non-trivial = pattern with an inner wildcard or a text containing % or _ (LIKE), both a NULL and a non-NULL row (null tests); distinct by case hash",
	Assumptions: []string{"string literals cannot contain the quote character (lexer has no escape); a raw carriage return or line feed inside the pattern literal is outside the documented grammar (the row's text may contain them)", "LIKE on a non-string value and the value of other functions on NULL are not fixed by the property: only crash-freedom is checked there"},
	Gen:         genCase,
	Run:         runCase,
	Features:    features,
}

func TestProp(t *testing.T)    { pbt.RunProp(t, spec) }
func TestReplay(t *testing.T)  { pbt.RunReplay(t, spec) }
func TestWitness(t *testing.T) { pbt.RunWitnesses(t, spec) }
