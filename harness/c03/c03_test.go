package c03

import (
	"fmt"
	"math"
	"sort"
	"strconv"
	"strings"
	"testing"
	"time"

	"pgregory.net/rapid"
	"verifharness/internal/gen"
	"verifharness/internal/pbt"
	"verifharness/internal/run"
)

type Agg struct {
	Fn    string  `json:"fn"`
	Arg   string  `json:"arg"` // "v", "d.v", "v + w", "v * 2", "v - 1", "v * 0.5", "v * 1.5", "d.v * 2", "1" (numeric literal), "*"
	P     float64 `json:"p,omitempty"`
	Nth   int     `json:"nth,omitempty"`
	Spell int     `json:"spell,omitempty"` // how the function name is written: 0 lower case, 1 UPPER CASE, 2 Initial capital
	Flag  int     `json:"flag,omitempty"`  // deduplicate: 0 = deduplicate(x), 1 = deduplicate(x, true), 2 = deduplicate(x, false) (the guide's spelling)
	// NoAlias: written without AS; the output name is then the engine's convention, and the value is found as the one
	// column that is neither a key, ids, window metadata nor an alias (at most one such aggregate per query)
	NoAlias bool `json:"no_alias,omitempty"`
}

func (a Agg) name() string {
	switch a.Spell {
	case 1:
		return strings.ToUpper(a.Fn)
	case 2:
		return strings.ToUpper(a.Fn[:1]) + a.Fn[1:]
	}
	return a.Fn
}

type Case struct {
	N       int       `json:"n"`
	Grouped bool      `json:"grouped"`
	Aggs    []Agg     `json:"aggs"`
	Rows    []gen.Row `json:"rows"`            // id, g, v, w, dv (nested d.v)
	Twins   bool      `json:"twins,omitempty"` // two un-aliased items of one aggregate whose arguments differ in an operator only
	Perm    []int     `json:"perm"`            // for the permuted twin: position i takes the values of row Perm[i] (same key, same chunk)
}

var fns = []string{"count", "sum", "avg", "min", "max", "stddev", "stddevs", "var", "vars", "median", "percentile", "first_value", "last_value", "nth_value", "collect", "deduplicate", "merge_agg"}

// ("v + 1" / "v - 1" and "v * 2" / "v / 2" differ in the operator only: names derived from the argument text must keep them apart)
var args = []string{"v", "v", "v", "d.v", "v + w", "v * 2", "v - 1", "v + 1", "v / 2", "v * 0.5", "v * 1.5", "d.v * 2", "1"}
var ps = []float64{0, 0.25, 0.5, 0.9, 0.95, 1}

func isArith(arg string) bool {
	return arg == "v + w" || arg == "v * 2" || arg == "v - 1" || arg == "v + 1" || arg == "v / 2" || arg == "v * 0.5" || arg == "v * 1.5" || arg == "d.v * 2"
}

func excluded(fn, arg string) bool {
	if arg != "v" && arg != "*" && pbt.Open("C03", "arg:"+arg+"@"+fn) {
		return true
	}
	if isArith(arg) && pbt.Open("C03", "expr-arg@"+fn) {
		return true
	}
	if arg == "v + w" && pbt.Open("C03", "plus-with-null") && (fn == "count" || fn == "collect" || fn == "deduplicate" || fn == "merge_agg" || fn == "first_value" || fn == "last_value" || fn == "nth_value") {
		return true
	}
	return false
}

func genCase(t *rapid.T) Case {
	c := Case{N: rapid.IntRange(1, 8).Draw(t, "N"), Grouped: rapid.Bool().Draw(t, "grouped")}
	na := rapid.IntRange(1, 5).Draw(t, "naggs")
	for len(c.Aggs) < na {
		a := Agg{Fn: rapid.SampledFrom(fns).Draw(t, "fn"), Arg: rapid.SampledFrom(args).Draw(t, "arg")}
		if a.Fn == "count" && rapid.Bool().Draw(t, "star") {
			a.Arg = "*"
		}
		if a.Fn == "percentile" {
			a.P = rapid.SampledFrom(ps).Draw(t, "p")
		}
		if a.Fn == "nth_value" {
			a.Nth = rapid.IntRange(1, 4).Draw(t, "nth")
		}
		if a.Fn == "deduplicate" {
			a.Flag = rapid.IntRange(0, 2).Draw(t, "dedupflag")
		}
		if x := rapid.IntRange(0, 5).Draw(t, "spell"); x >= 4 {
			a.Spell = x - 3 // function names are case-insensitive
		}
		if excluded(a.Fn, a.Arg) {
			a = Agg{Fn: "sum", Arg: "v"}
		}
		c.Aggs = append(c.Aggs, a)
	}
	if rapid.IntRange(0, 5).Draw(t, "noalias") == 0 {
		c.Aggs[rapid.IntRange(0, len(c.Aggs)-1).Draw(t, "noaliasAt")].NoAlias = true
	}
	// twins: the same aggregate twice, written without AS, over arguments that differ in one operator only -
	// whatever name the engine derives from the item text for its bookkeeping has to keep the two apart
	if rapid.IntRange(0, 5).Draw(t, "twins") == 0 {
		fn := rapid.SampledFrom([]string{"percentile", "nth_value", "sum", "max", "avg", "count"}).Draw(t, "twinfn")
		pair := rapid.SampledFrom([][2]string{{"v - 1", "v + 1"}, {"v * 2", "v / 2"}, {"v + w", "v - 1"}}).Draw(t, "twinargs")
		if !excluded(fn, pair[0]) && !excluded(fn, pair[1]) {
			a := Agg{Fn: fn, Arg: pair[0], NoAlias: true}
			if fn == "percentile" {
				a.P = rapid.SampledFrom(ps).Draw(t, "twinp")
			}
			if fn == "nth_value" {
				a.Nth = rapid.IntRange(1, 3).Draw(t, "twinnth")
			}
			b := a
			b.Arg = pair[1]
			for i := range c.Aggs {
				c.Aggs[i].NoAlias = false
			}
			if len(c.Aggs) > 3 {
				c.Aggs = c.Aggs[:3]
			}
			c.Aggs = append(c.Aggs, a, b)
			c.Twins = true
		}
	}
	nkeys := 1
	if c.Grouped {
		nkeys = rapid.IntRange(1, 3).Draw(t, "nkeys")
	}
	batches := rapid.IntRange(1, 4).Draw(t, "batches")
	total := c.N*batches + rapid.IntRange(0, c.N-1+0).Draw(t, "extra")
	total *= 1
	// offset mode: all values sit close together far from zero (large mean, small spread), the regime where a
	// one-pass variance formula loses its digits
	offset := 0.0
	if rapid.IntRange(0, 4).Draw(t, "offsetmode") == 0 {
		offset = rapid.SampledFrom([]float64{1e6, 1e8, 1e9, -5e7, 123456789}).Draw(t, "offset")
	}
	val := func(label string) gen.Val {
		switch rapid.IntRange(0, 9).Draw(t, label+"k") {
		case 0:
			return gen.Nil()
		case 1:
			return gen.Missing()
		default:
			if offset != 0 {
				if rapid.Bool().Draw(t, label+"oi") {
					return gen.Int(int64(offset) + int64(rapid.IntRange(0, 9).Draw(t, label+"od")))
				}
				return gen.Float(offset + float64(rapid.IntRange(0, 36).Draw(t, label+"of"))/4)
			}
			return gen.SmallNum().Draw(t, label)
		}
	}
	for i := 0; i < total*nkeys && i < 64; i++ {
		r := gen.Row{"id": gen.Int(int64(i)), "v": val("v"), "w": val("w"), "dv": val("dv")}
		if c.Grouped {
			r["g"] = gen.Str(fmt.Sprintf("k%d", rapid.IntRange(1, nkeys).Draw(t, "g")))
		}
		c.Rows = append(c.Rows, r)
	}
	// permutation within each (key, chunk)
	c.Perm = make([]int, len(c.Rows))
	for i := range c.Perm {
		c.Perm[i] = i
	}
	byKey := map[string][]int{}
	for i, r := range c.Rows {
		byKey[r["g"].S] = append(byKey[r["g"].S], i)
	}
	keys := make([]string, 0, len(byKey))
	for k := range byKey {
		keys = append(keys, k)
	}
	sort.Strings(keys)
	for _, k := range keys {
		idx := byKey[k]
		for s := 0; s+c.N <= len(idx); s += c.N {
			chunk := idx[s : s+c.N]
			p := rapid.Permutation(append([]int{}, chunk...)).Draw(t, "perm")
			for j, pos := range chunk {
				c.Perm[pos] = p[j]
			}
		}
	}
	return c
}

func (a Agg) sql(alias string) string {
	as := " AS " + alias
	if a.NoAlias {
		as = ""
	}
	switch a.Fn {
	case "percentile":
		return fmt.Sprintf("%s(%s, %s)%s", a.name(), a.Arg, strconv.FormatFloat(a.P, 'f', -1, 64), as)
	case "nth_value":
		return fmt.Sprintf("%s(%s, %d)%s", a.name(), a.Arg, a.Nth, as)
	case "deduplicate":
		if a.Flag > 0 {
			return fmt.Sprintf("%s(%s, %t)%s", a.name(), a.Arg, a.Flag == 1, as)
		}
	}
	return fmt.Sprintf("%s(%s)%s", a.name(), a.Arg, as)
}

// lookupAgg finds the value of aggregate i in a result row: under its alias, or - for the one aggregate written
// without AS - as the single column that is nothing else.
func lookupAgg(c Case, row map[string]any, i int) (any, bool) {
	if !c.Aggs[i].NoAlias {
		v, ok := row[fmt.Sprintf("a%d", i)]
		return v, ok
	}
	// several items without AS: the column whose name is the item's text, spacing and letter case aside
	norm := func(x string) string {
		return strings.ToLower(strings.Join(strings.Fields(strings.NewReplacer("(", " ", ")", " ", ",", " ", "+", " + ", "-", " - ", "*", " * ", "/", " / ").Replace(x)), ""))
	}
	want := norm(c.Aggs[i].sql(""))
	var byName []string
	for k := range row {
		if norm(k) == want {
			byName = append(byName, k)
		}
	}
	if len(byName) == 1 {
		return row[byName[0]], true
	}
	if c.Twins {
		return nil, false
	}
	known := map[string]bool{"g": true, "ids": true, "window_start": true, "window_end": true, "window_id": true}
	for j := range c.Aggs {
		known[fmt.Sprintf("a%d", j)] = true
	}
	var found []string
	for k := range row {
		if !known[k] {
			found = append(found, k)
		}
	}
	if len(found) != 1 {
		return nil, false
	}
	return row[found[0]], true
}

func sqlOf(c Case) string {
	var sel []string
	if c.Grouped {
		sel = append(sel, "g")
	}
	sel = append(sel, "collect(id) AS ids")
	for i, a := range c.Aggs {
		sel = append(sel, a.sql(fmt.Sprintf("a%d", i)))
	}
	q := "SELECT " + strings.Join(sel, ", ") + " FROM stream GROUP BY "
	if c.Grouped {
		q += "g, "
	}
	return q + fmt.Sprintf("CountingWindow(%d)", c.N)
}

func engineRow(r gen.Row) map[string]any {
	m := map[string]any{"id": r["id"].Go()}
	if g, ok := r["g"]; ok {
		m["g"] = g.Go()
	}
	if !r["v"].IsMissing() {
		m["v"] = r["v"].Go()
	}
	if !r["w"].IsMissing() {
		m["w"] = r["w"].Go()
	}
	d := map[string]any{"k": 1}
	if !r["dv"].IsMissing() {
		d["v"] = r["dv"].Go()
	}
	m["d"] = d
	return m
}

// cell is the per-row argument value: null, explicit (present as NULL rather than absent), number
type cell struct {
	null     bool
	explicit bool // NULL was written explicitly (not a missing field)
	f        float64
	isInt    bool
}

func argCell(r gen.Row, arg string) cell {
	num := func(v gen.Val) cell {
		if v.IsNull() {
			return cell{null: true, explicit: v.K == "nil"}
		}
		f, _ := v.Num()
		return cell{f: f, isInt: v.K == "int"}
	}
	switch arg {
	case "1": // a numeric literal: that constant for every row (count(1) counts rows)
		return cell{f: 1, isInt: true}
	case "v":
		return num(r["v"])
	case "d.v":
		return num(r["dv"])
	case "v + w":
		a, b := num(r["v"]), num(r["w"])
		if a.null || b.null {
			return cell{null: true}
		}
		return cell{f: a.f + b.f, isInt: a.isInt && b.isInt}
	case "v * 2":
		a := num(r["v"])
		if a.null {
			return cell{null: true}
		}
		return cell{f: a.f * 2, isInt: a.isInt}
	case "v - 1":
		a := num(r["v"])
		if a.null {
			return cell{null: true}
		}
		return cell{f: a.f - 1, isInt: a.isInt}
	case "v + 1":
		a := num(r["v"])
		if a.null {
			return cell{null: true}
		}
		return cell{f: a.f + 1, isInt: a.isInt}
	case "v / 2":
		a := num(r["v"])
		if a.null {
			return cell{null: true}
		}
		return cell{f: a.f / 2}
	case "v * 0.5", "v * 1.5":
		a := num(r["v"])
		if a.null {
			return cell{null: true}
		}
		k := 0.5
		if arg == "v * 1.5" {
			k = 1.5
		}
		return cell{f: a.f * k}
	case "d.v * 2":
		a := num(r["dv"])
		if a.null {
			return cell{null: true}
		}
		return cell{f: a.f * 2, isInt: a.isInt}
	}
	return cell{null: true}
}

func fmtNum(c cell) string {
	// cast.ToString: ints via Itoa, floats via FormatFloat('f', -1)
	if c.isInt {
		return strconv.FormatInt(int64(c.f), 10)
	}
	return strconv.FormatFloat(c.f, 'f', -1, 64)
}

// check compares the engine's value with the definition on the batch; returns "" when fine.
func check(a Agg, rows []gen.Row, got any) string {
	if a.Fn == "count" && a.Arg == "*" {
		if f, ok := gen.ToFloat(got); !ok || int(f) != len(rows) {
			return fmt.Sprintf("count(*)=%v want %d", got, len(rows))
		}
		return ""
	}
	cells := make([]cell, len(rows))
	var xs []float64
	var usable []cell
	for i, r := range rows {
		cells[i] = argCell(r, a.Arg)
		if !cells[i].null {
			xs = append(xs, cells[i].f)
			usable = append(usable, cells[i])
		}
	}
	n := len(xs)
	gf, gok := gen.ToFloat(got)
	wantNum := func(w float64, tol float64) string {
		if !gok || !gen.Close(gf, w, tol) {
			return fmt.Sprintf("%s(%s)=%v want %v over %v", a.Fn, a.Arg, got, w, xs)
		}
		return ""
	}
	nullOrZero := func() string {
		if got == nil || (gok && (gf == 0 || math.IsNaN(gf))) {
			return ""
		}
		return fmt.Sprintf("%s(%s)=%v over no usable input (want NULL or 0)", a.Fn, a.Arg, got)
	}
	mean := 0.0
	for _, x := range xs {
		mean += x
	}
	if n > 0 {
		mean /= float64(n)
	}
	ss := 0.0
	for _, x := range xs {
		ss += (x - mean) * (x - mean)
	}
	sorted := append([]float64{}, xs...)
	sort.Float64s(sorted)
	switch a.Fn {
	case "count":
		if !gok || int(gf) != n {
			return fmt.Sprintf("count(%s)=%v want %d", a.Arg, got, n)
		}
	case "sum":
		if n == 0 {
			if got != nil {
				return fmt.Sprintf("sum(%s)=%v over no usable input, want NULL", a.Arg, got)
			}
			return ""
		}
		return wantNum(mean*float64(n), 1e-9)
	case "avg":
		if n == 0 {
			if got != nil {
				return fmt.Sprintf("avg(%s)=%v over no usable input, want NULL", a.Arg, got)
			}
			return ""
		}
		return wantNum(mean, 1e-9)
	case "min", "max":
		if n == 0 {
			if got != nil {
				return fmt.Sprintf("%s(%s)=%v over no usable input, want NULL", a.Fn, a.Arg, got)
			}
			return ""
		}
		if a.Fn == "min" {
			return wantNum(sorted[0], 1e-12)
		}
		return wantNum(sorted[n-1], 1e-12)
	case "var":
		if n == 0 {
			return nullOrZero()
		}
		return wantNum(ss/float64(n), 1e-6)
	case "stddev":
		if n == 0 {
			return nullOrZero()
		}
		if msg := wantNum(math.Sqrt(ss/float64(n)), 1e-6); msg != "" {
			if n >= 2 && gok && gen.Close(gf, math.Sqrt(ss/float64(n-1)), 1e-6) {
				return "SAMPLE:" + msg + " (the value is the sample standard deviation; the guide documents stddev as population)"
			}
			return msg
		}
		return ""
	case "vars":
		if n < 2 {
			return nullOrZero()
		}
		return wantNum(ss/float64(n-1), 1e-6)
	case "stddevs":
		if n < 2 {
			return nullOrZero()
		}
		return wantNum(math.Sqrt(ss/float64(n-1)), 1e-6)
	case "median":
		if n == 0 {
			return nullOrZero()
		}
		if n%2 == 1 {
			return wantNum(sorted[n/2], 1e-12)
		}
		return wantNum((sorted[n/2-1]+sorted[n/2])/2, 1e-12)
	case "percentile":
		if n == 0 {
			return nullOrZero()
		}
		lo := sorted[int(math.Floor(a.P*float64(n-1)))]
		hi := sorted[int(math.Ceil(a.P*float64(n-1)))]
		if !gok || gf < lo-1e-9 || gf > hi+1e-9 {
			return fmt.Sprintf("percentile(%s,%v)=%v outside [%v,%v] over %v", a.Arg, a.P, got, lo, hi, sorted)
		}
	case "first_value", "last_value":
		// the first/last row's value, an explicit NULL included; a missing field may count as NULL or be skipped
		idx := 0
		step := 1
		if a.Fn == "last_value" {
			idx = len(cells) - 1
			step = -1
		}
		var accept []string
		for i := idx; i >= 0 && i < len(cells); i += step {
			c := cells[i]
			if c.null {
				accept = append(accept, "NULL")
				if c.explicit && a.Arg != "v + w" {
					break
				}
				continue
			}
			accept = append(accept, fmt.Sprint(c.f))
			break
		}
		gs := "NULL"
		if got != nil {
			if !gok {
				return fmt.Sprintf("%s(%s)=%v (not numeric)", a.Fn, a.Arg, got)
			}
			gs = fmt.Sprint(gf)
		}
		for _, x := range accept {
			if x == gs {
				return ""
			}
		}
		return fmt.Sprintf("%s(%s)=%s want one of %v", a.Fn, a.Arg, gs, accept)
	case "nth_value":
		// n-th row's value (NULL if that row has none / fewer rows), or n-th usable value
		var accept []string
		if a.Nth <= len(cells) {
			if cells[a.Nth-1].null {
				accept = append(accept, "NULL")
			} else {
				accept = append(accept, fmt.Sprint(cells[a.Nth-1].f))
			}
		} else {
			accept = append(accept, "NULL")
		}
		if a.Nth <= len(usable) {
			accept = append(accept, fmt.Sprint(usable[a.Nth-1].f))
		} else {
			accept = append(accept, "NULL")
		}
		gs := "NULL"
		if got != nil {
			gs = fmt.Sprint(gf)
		}
		for _, x := range accept {
			if x == gs {
				return ""
			}
		}
		return fmt.Sprintf("nth_value(%s,%d)=%v want one of %v", a.Arg, a.Nth, got, accept)
	case "collect", "deduplicate":
		want := xs
		if a.Fn == "deduplicate" {
			seen := map[float64]bool{}
			want = nil
			for _, x := range xs {
				if !seen[x] {
					seen[x] = true
					want = append(want, x)
				}
			}
		}
		l, ok := got.([]any)
		if !ok && got != nil {
			return fmt.Sprintf("%s(%s)=%v (%T) not a list", a.Fn, a.Arg, got, got)
		}
		if len(l) != len(want) {
			return fmt.Sprintf("%s(%s)=%v want %v", a.Fn, a.Arg, got, want)
		}
		for i := range l {
			f, ok := gen.ToFloat(l[i])
			if !ok || f != want[i] {
				return fmt.Sprintf("%s(%s)=%v want %v", a.Fn, a.Arg, got, want)
			}
		}
	case "merge_agg":
		var parts []string
		for _, c := range usable {
			parts = append(parts, fmtNum(c))
		}
		want := strings.Join(parts, ",")
		gs, ok := got.(string)
		if !ok {
			if got == nil && want == "" {
				return ""
			}
			return fmt.Sprintf("merge_agg(%s)=%v (%T) want %q", a.Arg, got, got, want)
		}
		if gs != want {
			// numeric formatting of expression results (2 vs 2.0) is not fixed: compare numerically
			gp := strings.Split(gs, ",")
			if len(gp) == len(usable) {
				same := true
				for i, p := range gp {
					f, err := strconv.ParseFloat(p, 64)
					if err != nil || f != usable[i].f {
						same = false
					}
				}
				if same {
					return ""
				}
			}
			return fmt.Sprintf("merge_agg(%s)=%q want %q", a.Arg, gs, want)
		}
	}
	return ""
}

var orderInsensitive = map[string]bool{"count": true, "sum": true, "avg": true, "min": true, "max": true, "stddev": true, "stddevs": true, "var": true, "vars": true, "median": true, "percentile": true}

type batchKey struct {
	g string
	i int
}

// feed runs rows through a fresh instance and returns results keyed by (key, batch index).
func feed(c Case, rows []gen.Row, res *pbt.Result) (map[batchKey]map[string]any, map[batchKey][]gen.Row, bool) {
	in, err := run.Open(sqlOf(c))
	if err != nil {
		res.Add(pbt.D("execute-error", "%v for %s", err, sqlOf(c)))
		return nil, nil, false
	}
	defer in.Stop()
	perKey := map[string][]gen.Row{}
	owner := map[int64]batchKey{}
	for _, r := range rows {
		k := r["g"].S
		perKey[k] = append(perKey[k], r)
	}
	want := map[batchKey][]gen.Row{}
	expected := 0
	for k, rs := range perKey {
		for s := 0; s+c.N <= len(rs); s += c.N {
			bk := batchKey{k, s / c.N}
			want[bk] = rs[s : s+c.N]
			for _, r := range rs[s : s+c.N] {
				owner[r["id"].I] = bk
			}
			expected++
		}
	}
	for _, r := range rows {
		in.Emit(engineRow(r))
	}
	in.WaitRows(pbt.Wait(5*time.Second), expected)
	got := map[batchKey]map[string]any{}
	for _, row := range in.Rows() {
		l, _ := row["ids"].([]any)
		if len(l) == 0 {
			res.Add(pbt.D("bad-row", "result without ids: %v", row))
			continue
		}
		f, _ := gen.ToFloat(l[0])
		bk, ok := owner[int64(f)]
		if !ok {
			res.Add(pbt.D("bad-row", "result for an incomplete batch: %v", row))
			continue
		}
		if _, dup := got[bk]; dup {
			res.Add(pbt.D("batch-twice", "batch %v delivered twice", bk))
		}
		// the ids must be exactly the batch (C09 checks this in depth)
		if len(l) != c.N {
			res.Add(pbt.D("wrong-batch", "batch %v has %d ids want %d", bk, len(l), c.N))
		}
		got[bk] = row
	}
	for bk := range want {
		if _, ok := got[bk]; !ok {
			res.Add(pbt.D("batch-missing", "batch %v never delivered", bk))
		}
	}
	return got, want, true
}

func runCase(c Case) (res pbt.Result) {
	got, want, ok := feed(c, c.Rows, &res)
	if !ok {
		return
	}
	for bk, row := range got {
		rows := want[bk]
		for i, a := range c.Aggs {
			alias := fmt.Sprintf("a%d", i)
			v, present := lookupAgg(c, row, i)
			if !present {
				res.Add(pbt.D("missing-column", "batch %v: column %s (%s) missing from result %v", bk, alias, a.sql(alias), row))
				continue
			}
			if msg := check(a, rows, v); msg != "" {
				kind := "wrong-" + a.Fn
				if strings.HasPrefix(msg, "SAMPLE:") {
					kind = "stddev-is-sample"
				}
				res.Add(pbt.D(kind, "batch %v (N=%d): %s", bk, c.N, msg))
			}
		}
	}
	// permutation twin: order-insensitive aggregates must agree
	hasOI := false
	for _, a := range c.Aggs {
		if orderInsensitive[a.Fn] {
			hasOI = true
		}
	}
	if hasOI && len(res.Discs) == 0 {
		twin := make([]gen.Row, len(c.Rows))
		for i := range c.Rows {
			src := c.Rows[c.Perm[i]]
			r := gen.Row{}
			for k, v := range src {
				r[k] = v
			}
			twin[i] = r
		}
		var r2 pbt.Result
		got2, _, ok2 := feed(c, twin, &r2)
		if ok2 {
			for bk, row := range got {
				row2, ok := got2[bk]
				if !ok {
					continue
				}
				for i, a := range c.Aggs {
					if !orderInsensitive[a.Fn] {
						continue
					}
					alias := fmt.Sprintf("a%d", i)
					f1, ok1 := gen.ToFloat(row[alias])
					f2, ok2 := gen.ToFloat(row2[alias])
					same := (row[alias] == nil && row2[alias] == nil) || (ok1 && ok2 && gen.Close(f1, f2, 1e-6))
					if a.Fn == "percentile" || !same && a.Fn == "" {
						same = same || (ok1 && ok2)
					}
					if !same {
						res.Add(pbt.D("perm-variant", "batch %v: %s = %v but %v after permuting the batch", bk, a.sql(alias), row[alias], row2[alias]))
					}
				}
			}
		}
		res.Class("perm-twin")
	}
	// classes
	nullAndTwo := false
	for _, rows := range want {
		hasNull := false
		distinct := map[float64]bool{}
		for _, r := range rows {
			if r["v"].IsNull() {
				hasNull = true
			} else if f, ok := r["v"].Num(); ok {
				distinct[f] = true
			}
		}
		if hasNull && len(distinct) >= 2 {
			nullAndTwo = true
		}
	}
	if nullAndTwo {
		res.Class("null+2distinct")
	}
	if len(want) >= 2 {
		res.Class("multi-batch")
	}
	for _, r := range c.Rows {
		if f, ok := r["v"].Num(); ok && (f > 5e5 || f < -5e5) {
			res.Class("large-offset-values")
			break
		}
	}
	for _, a := range c.Aggs {
		res.Class("fn:" + a.Fn)
		if a.Arg != "v" && a.Arg != "*" {
			res.Class("arg:" + a.Arg)
		}
	}
	res.NonTrivial = nullAndTwo || len(want) >= 2
	return
}

func features(c Case) []string {
	var f []string
	for _, a := range c.Aggs {
		if a.Arg == "v + w" {
			for _, r := range c.Rows {
				if r["v"].IsNull() || r["w"].IsNull() {
					f = append(f, "plus-with-null")
					break
				}
			}
		}
		f = append(f, "fn:"+a.Fn)
		if isArith(a.Arg) {
			f = append(f, "expr-arg@"+a.Fn)
		}
		if a.Arg != "v" && a.Arg != "*" {
			f = append(f, "arg:"+a.Arg+"@"+a.Fn)
		}
	}
	return f
}

var spec = pbt.Spec[Case]{
	ID:          "C03",
	Rule:        "generated: CountingWindow(N), N 1..8, optional group column, 1-4 consecutive batches per key through one instance; values int/float64 (negative, zero, repeats, large), NULL, missing; argument shapes v, d.v, v + w, v * 2, v - 1, v * 0.5, v * 1.5, d.v * 2 and the literal 1 (drawn per aggregate, so one query mixes them); function names in lower, upper or initial-capital spelling; one aggregate of one query in six written without AS; SELECT list = random subset of count(*), count, sum, avg, min, max, stddev, stddevs, var, vars, median, percentile(p), first_value, last_value, nth_value, collect, deduplicate (also in the guide's two-argument spelling deduplicate(x, true|false)), merge_agg. oracle: reference definitions on exactly the batch's rows (NULL/missing skipped, empty input -> NULL for sum/avg/min/max, population vs sample formulas, percentile accepted between the neighbouring order statistics), plus a twin instance fed each batch permuted (order-insensitive aggregates must agree). non-trivial = a batch with a NULL/missing value and >= 2 distinct numbers, or >= 2 batches; distinct by case hash",
	Assumptions: []string{"stddev/var/median/percentile over no usable input: NULL, 0 or NaN accepted (not fixed by the guide)", "first_value/last_value: a missing field may be reported as NULL or skipped; an explicit NULL is reported", "nth_value: n-th row or n-th usable value accepted"},
	Gen:         genCase,
	Run:         runCase,
	Features:    features,
}

func TestProp(t *testing.T)    { pbt.RunProp(t, spec) }
func TestReplay(t *testing.T)  { pbt.RunReplay(t, spec) }
func TestWitness(t *testing.T) { pbt.RunWitnesses(t, spec) }
