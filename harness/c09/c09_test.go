package c09

import (
	"fmt"
	"reflect"
	"strings"
	"testing"
	"time"

	"pgregory.net/rapid"
	"verifharness/internal/gen"
	"verifharness/internal/pbt"
	"verifharness/internal/run"

	"github.com/rulego/streamsql"
	"github.com/rulego/streamsql/types"
)

// Case: CountingWindow(N) with 0..2 key columns.
type Case struct {
	N      int       `json:"n"`
	Keys   []string  `json:"keys"`
	Rows   []gen.Row `json:"rows"` // id (int), key columns
	Pauses []int     `json:"pauses"`
	OutBuf int       `json:"out_buf,omitempty"` // window output buffer size (0 = default)
	SinkUs int       `json:"sink_us,omitempty"` // sink delay per delivery (backpressure on the window output)
	Nested bool      `json:"nested,omitempty"`  // the first key column lives under the map column dev (GROUP BY dev.k1, selected AS k1)
}

// engineRow is the row as the engine gets it.
func engineRow(c Case, m map[string]any) map[string]any {
	if !c.Nested || len(c.Keys) == 0 {
		return m
	}
	k := c.Keys[0]
	out := make(map[string]any, len(m))
	for kk, v := range m {
		if kk != k {
			out[kk] = v
		}
	}
	dev := map[string]any{"other": 1}
	if v, ok := m[k]; ok {
		dev[k] = v
	}
	out["dev"] = dev
	return out
}

const sentinel = "⁣sentinel⁣"

func keyVal(t *rapid.T, kind int, label string) gen.Val {
	x := rapid.IntRange(0, 11).Draw(t, label+"sel")
	if x == 0 {
		return gen.Nil()
	}
	if x == 1 {
		return gen.Missing()
	}
	switch kind {
	case 0:
		pool := gen.HostileStrings
		if pbt.Open("C09", "sep-collision") {
			pool = []string{"a", "b", "c", "x y", "s:a", "d,e"}
		}
		return gen.Str(rapid.SampledFrom(pool).Draw(t, label+"s"))
	case 1:
		return gen.Int(int64(rapid.IntRange(-1, 3).Draw(t, label+"i")))
	default:
		return gen.Float(float64(rapid.IntRange(-2, 4).Draw(t, label+"f")) / 2)
	}
}

func genCase(t *rapid.T) Case {
	c := Case{N: rapid.IntRange(1, 7).Draw(t, "N")}
	nk := rapid.IntRange(0, 2).Draw(t, "nkeys")
	kinds := make([]int, nk)
	for i := 0; i < nk; i++ {
		c.Keys = append(c.Keys, fmt.Sprintf("k%d", i+1))
		kinds[i] = rapid.IntRange(0, 2).Draw(t, "kind")
	}
	if nk == 2 && rapid.Bool().Draw(t, "bothStrings") {
		kinds[0], kinds[1] = 0, 0
	}
	// a small pool of key tuples so that keys repeat and interleave
	npool := 1
	if nk > 0 {
		npool = rapid.IntRange(1, 5).Draw(t, "npool")
	}
	pool := make([][]gen.Val, npool)
	for i := range pool {
		pool[i] = make([]gen.Val, nk)
		for j := 0; j < nk; j++ {
			pool[i][j] = keyVal(t, kinds[j], fmt.Sprintf("p%d_%d", i, j))
			if pbt.Open("C09", "null-vs-empty") && pool[i][j].K == "str" && pool[i][j].S == "" {
				pool[i][j] = gen.Str("e")
			}
		}
	}
	// two string key columns: every third case plants a pair of tuples that collide under a naive join
	if nk == 2 && kinds[0] == 0 && kinds[1] == 0 && npool >= 2 && rapid.IntRange(0, 1).Draw(t, "plant") == 0 {
		cp := gen.CollidingPair().Draw(t, "collide")
		pool[0], pool[1] = cp[0], cp[1]
	}
	c.Nested = nk > 0 && rapid.IntRange(0, 3).Draw(t, "nested") == 0 && !pbt.Open("C09", "nested-key")
	if rapid.IntRange(0, 3).Draw(t, "backpressure") == 0 {
		c.OutBuf = rapid.SampledFrom([]int{1, 2, 4}).Draw(t, "outbuf")
		c.SinkUs = rapid.SampledFrom([]int{50, 200, 1000}).Draw(t, "sinkus")
	}
	n := rapid.IntRange(0, 60).Draw(t, "len")
	if rapid.IntRange(0, 3).Draw(t, "forceMultiple") == 0 {
		n = (n / c.N) * c.N
	}
	for i := 0; i < n; i++ {
		r := gen.Row{"id": gen.Int(int64(i))}
		tu := pool[rapid.IntRange(0, npool-1).Draw(t, "pick")]
		for j, k := range c.Keys {
			r[k] = tu[j]
		}
		c.Rows = append(c.Rows, r)
		c.Pauses = append(c.Pauses, gen.Pause().Draw(t, "pause"))
	}
	return c
}

func tupleKey(keys []string, r gen.Row) string {
	var sb strings.Builder
	for _, k := range keys {
		v := r[k]
		if v.IsNull() {
			sb.WriteString("N;")
			continue
		}
		if f, ok := v.Num(); ok {
			fmt.Fprintf(&sb, "n%v;", f)
			continue
		}
		fmt.Fprintf(&sb, "s%d:%s;", len(v.S), v.S)
	}
	return sb.String()
}

func sql(c Case) string {
	keys := append([]string{}, c.Keys...)
	sel := append([]string{}, c.Keys...)
	if c.Nested && len(keys) > 0 {
		sel[0] = "dev." + keys[0] + " AS " + keys[0]
		keys[0] = "dev." + keys[0]
	}
	sel = append(sel, "count(*) AS c", "collect(id) AS ids", "first_value(id) AS f", "last_value(id) AS l", "sum(id) AS s")
	q := "SELECT " + strings.Join(sel, ", ") + " FROM stream GROUP BY "
	for _, k := range keys {
		q += k + ", "
	}
	q += fmt.Sprintf("CountingWindow(%d)", c.N)
	return q
}

func toIDs(v any) ([]int64, bool) {
	l, ok := v.([]any)
	if !ok {
		return nil, false
	}
	out := make([]int64, len(l))
	for i, e := range l {
		f, ok := gen.ToFloat(e)
		if !ok {
			return nil, false
		}
		out[i] = int64(f)
	}
	return out, true
}

func valEq(got any, want gen.Val) bool {
	if want.IsNull() {
		return got == nil
	}
	if f, ok := want.Num(); ok {
		g, ok2 := gen.ToFloat(got)
		return ok2 && g == f
	}
	return reflect.DeepEqual(got, want.Go())
}

func runCase(c Case) (res pbt.Result) {
	var opts []streamsql.Option
	if c.OutBuf > 0 {
		pc := types.DefaultPerformanceConfig()
		pc.BufferConfig.WindowOutputSize = c.OutBuf
		pc.OverflowConfig.Strategy = "block"
		pc.OverflowConfig.BlockTimeout = 0
		pc.OverflowConfig.AllowDataLoss = false
		opts = []streamsql.Option{streamsql.WithCustomPerformance(pc)}
	}
	in, err := run.Open(sql(c), opts...)
	if err == nil && c.SinkUs > 0 {
		d := time.Duration(c.SinkUs) * time.Microsecond
		in.S.AddSyncSink(func([]map[string]any) { time.Sleep(d) })
	}
	if err != nil {
		res.Add(pbt.D("execute-error", "%v for %s", err, sql(c)))
		return
	}
	defer in.Stop()
	// model
	type grp struct {
		ids  []int64
		rows []gen.Row
	}
	groups := map[string]*grp{}
	var order []string
	owner := map[int64]string{}
	for _, r := range c.Rows {
		k := tupleKey(c.Keys, r)
		g := groups[k]
		if g == nil {
			g = &grp{}
			groups[k] = g
			order = append(order, k)
		}
		g.ids = append(g.ids, r["id"].I)
		g.rows = append(g.rows, r)
		owner[r["id"].I] = k
	}
	expected := 0
	remainder := false
	multi2 := 0
	for _, g := range groups {
		expected += len(g.ids) / c.N
		if len(g.ids)%c.N != 0 {
			remainder = true
		}
		if len(g.ids) >= 2*c.N {
			multi2++
		}
	}
	for i, r := range c.Rows {
		in.Emit(engineRow(c, r.Go()))
		switch c.Pauses[i] {
		case 1:
			time.Sleep(0)
		case 2:
			time.Sleep(100 * time.Microsecond)
		case 3:
			time.Sleep(2 * time.Millisecond)
		case 4:
			time.Sleep(500 * time.Microsecond)
		}
	}
	// barrier: a full batch of a sentinel key (keyed case) is processed after everything else
	total := expected
	if len(c.Keys) > 0 {
		for i := 0; i < c.N; i++ {
			r := map[string]any{"id": int(-1 - i)}
			for _, k := range c.Keys {
				r[k] = sentinel
			}
			in.Emit(engineRow(c, r))
		}
		total++
	}
	ok := in.WaitRows(pbt.Wait(8*time.Second), total)
	if len(c.Keys) == 0 && (remainder || !ok) {
		in.Settle(30 * time.Millisecond)
	} else {
		in.Settle(2 * time.Millisecond)
	}
	rows := in.Rows()
	next := map[string]int{}
	seen := map[int64]bool{}
	sentinelSeen := 0
	for di, row := range rows {
		ids, okid := toIDs(row["ids"])
		if !okid || len(ids) == 0 {
			res.Add(pbt.D("bad-row", "delivery %d has no ids: %v", di, row))
			continue
		}
		if ids[0] < 0 {
			sentinelSeen++
			continue
		}
		k, known := owner[ids[0]]
		if !known {
			res.Add(pbt.D("unknown-id", "delivery %d: id %d was never emitted", di, ids[0]))
			continue
		}
		g := groups[k]
		i := next[k]
		next[k]++
		if (i+1)*c.N > len(g.ids) {
			res.Add(pbt.D("extra-batch", "delivery %d for key %q: batch #%d but key has only %d rows (N=%d): ids=%v", di, k, i+1, len(g.ids), c.N, ids))
			continue
		}
		want := g.ids[i*c.N : (i+1)*c.N]
		if !reflect.DeepEqual(ids, want) {
			res.Add(pbt.D("wrong-batch", "delivery %d key %q batch #%d: ids=%v want %v", di, k, i+1, ids, want))
		}
		for _, id := range ids {
			if seen[id] {
				res.Add(pbt.D("row-twice", "id %d contributes to two results", id))
			}
			seen[id] = true
		}
		if cnt, _ := gen.ToFloat(row["c"]); int(cnt) != c.N {
			res.Add(pbt.D("wrong-count", "delivery %d: count(*)=%v want %d", di, row["c"], c.N))
		}
		if f, _ := gen.ToFloat(row["f"]); int64(f) != want[0] {
			res.Add(pbt.D("wrong-first", "delivery %d: first_value=%v want %d", di, row["f"], want[0]))
		}
		if l, _ := gen.ToFloat(row["l"]); int64(l) != want[len(want)-1] {
			res.Add(pbt.D("wrong-last", "delivery %d: last_value=%v want %d", di, row["l"], want[len(want)-1]))
		}
		var sum int64
		for _, x := range want {
			sum += x
		}
		if s, _ := gen.ToFloat(row["s"]); int64(s) != sum {
			res.Add(pbt.D("wrong-sum", "delivery %d: sum=%v want %d", di, row["s"], sum))
		}
		for _, kc := range c.Keys {
			if !valEq(row[kc], g.rows[0][kc]) {
				res.Add(pbt.D("wrong-key-col", "delivery %d: %s=%#v want %s", di, kc, row[kc], g.rows[0][kc]))
			}
		}
	}
	for _, k := range order {
		g := groups[k]
		if next[k] < len(g.ids)/c.N {
			res.Add(pbt.D("missing-batch", "key %q: %d of %d complete batches delivered (N=%d, rows=%d)", k, next[k], len(g.ids)/c.N, c.N, len(g.ids)))
		}
	}
	if len(c.Keys) > 0 && sentinelSeen != 1 {
		res.Add(pbt.D("sentinel", "sentinel batch seen %d times", sentinelSeen))
	}
	res.NonTrivial = len(groups) >= 2 && multi2 >= 1
	if len(c.Keys) == 0 {
		res.Class("nokey")
	}
	if remainder {
		res.Class("remainder")
	}
	if c.N == 1 {
		res.Class("N=1")
	}
	if len(groups) >= 3 {
		res.Class("groups>=3")
	}
	if c.OutBuf > 0 {
		res.Class("backpressure")
	}
	if len(features(c)) > 0 {
		res.Class("colliding-pair")
	}
	return
}

func features(c Case) []string {
	var f []string
	if c.Nested && len(c.Keys) > 0 {
		f = append(f, "nested-key")
	}
	// two distinct tuples whose "|"-join (cast.ToString) coincides
	seen := map[string]string{}
	for _, r := range c.Rows {
		parts := make([]string, len(c.Keys))
		for i, k := range c.Keys {
			v := r[k]
			switch {
			case v.IsNull():
				parts[i] = ""
			case v.K == "str":
				parts[i] = v.S
			default:
				parts[i] = fmt.Sprint(v.Go())
			}
		}
		j := strings.Join(parts, "|")
		tk := tupleKey(c.Keys, r)
		if o, ok := seen[j]; ok && o != tk {
			f = append(f, "sep-collision")
			break
		}
		seen[j] = tk
	}
	return f
}

var spec = pbt.Spec[Case]{
	ID:          "C09",
	Rule:        "generated: N in 1..7, 0-2 key columns (the first one, one time in four, nested under a map column: GROUP BY dev.k1; one scalar type per column; strings from a separator-bearing pool, ints, floats, NULL, missing), 0-60 rows drawn from a pool of 1-5 key tuples, producer pauses; oracle: per typed key tuple the i-th delivery is rows (i-1)N+1..iN (collect/count/first/last/sum/key columns), no remainder delivery, no row twice. non-trivial = >=2 distinct key tuples and at least one key reaching a second batch; distinct = hash of the case JSON",
	Assumptions: []string{"input never dropped: WithOverflowStrategy(block,0)", "a sentinel key's full batch acts as barrier (window goroutine is sequential)", "missing key column is the same group as NULL"},
	Gen:         genCase,
	Run:         runCase,
	Features:    features,
}

func TestProp(t *testing.T)    { pbt.RunProp(t, spec) }
func TestReplay(t *testing.T)  { pbt.RunReplay(t, spec) }
func TestWitness(t *testing.T) { pbt.RunWitnesses(t, spec) }
