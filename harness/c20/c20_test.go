package c20

import (
	"encoding/json"
	"fmt"
	"reflect"
	"sort"
	"strings"
	"sync"
	"testing"
	"time"

	"pgregory.net/rapid"
	"verifharness/internal/et"
	"verifharness/internal/gen"
	"verifharness/internal/pbt"
	"verifharness/internal/run"
)

// query kinds
var kinds = []string{"projection", "analytic-select", "analytic-where", "fnkey-counting", "join", "tumbling", "global", "unnest", "regexp-digits", "regexp-alpha", "array-fns", "join-dotted", "nested-dotted", "pctl-explicit", "pctl-default", "pctl-low", "literal-upper", "literal-lower", "column-upper", "column-lower"}

type Side struct {
	Kind string    `json:"kind"`
	Rows []gen.Row `json:"rows"` // id, a, s, k, dx, dl (nested d.x, d.l)
	Sync bool      `json:"sync"` // drive with EmitSync where the kind allows it
}

type Case struct {
	A          Side  `json:"a"`
	B          *Side `json:"b,omitempty"` // second instance (independence); nil = only caller-data checks
	Order      []int `json:"order"`       // interleaving: 0 = next row of A, 1 = next row of B
	Concurrent bool  `json:"concurrent"`  // feed the two instances from two goroutines
	Repeat     int   `json:"repeat,omitempty"` // concurrent mode: each side's rows are fed this many times over (longer overlap)
}

func sqlOf(kind string) string {
	switch kind {
	case "projection":
		return "SELECT id, a, d.x AS dx, upper(s) AS us, a * 2 AS a2 FROM stream WHERE a >= 0"
	case "analytic-select":
		return "SELECT id, lag(a) OVER (PARTITION BY k) AS la, a - lag(a, 1, 0) OVER (PARTITION BY k) AS da FROM stream"
	case "analytic-where":
		return "SELECT id, a FROM stream WHERE acc_count(a) OVER (PARTITION BY k) >= 1"
	case "fnkey-counting":
		return "SELECT upper(s) AS us, count(*) AS c, collect(id) AS ids FROM stream GROUP BY upper(s), CountingWindow(2)"
	case "join":
		return "SELECT id, a, m.name AS name FROM stream JOIN meta m ON k = m.k"
	case "join-dotted": // the same un-aliased item m.name: a joined column here, ...
		return "SELECT id, m.name FROM stream JOIN meta m ON k = m.k"
	case "nested-dotted": // ... a path into the row's own map column m there
		return "SELECT id, m.name FROM stream"
	case "tumbling":
		return "SELECT k, count(*) AS c, sum(a) AS sa, collect(id) AS ids FROM stream GROUP BY k, TumblingWindow('1s') " + et.With("ms", 0, 0)
	case "unnest":
		// unnest over an array of objects next to other columns (expanded on the asynchronous path only)
		return "SELECT id, s, unnest(objs) AS o FROM stream"
	case "pctl-explicit": // the parameter of one instance's aggregate must not become another instance's default
		return "SELECT k, percentile(a, 0.5) AS p, collect(id) AS ids FROM stream GROUP BY k, CountingWindow(3)"
	case "pctl-default":
		return "SELECT k, percentile(a) AS p, collect(id) AS ids FROM stream GROUP BY k, CountingWindow(3)"
	case "pctl-low":
		return "SELECT k, percentile(a, 0.1) AS p, collect(id) AS ids FROM stream GROUP BY k, CountingWindow(3)"
	case "array-fns": // functions that build a new array from arrays nested in the caller's row
		return "SELECT id, array_remove(arr, 'b') AS ar, array_distinct(arr) AS ad, array_union(arr, arr2) AS au, array_except(d.arr, arr2) AS ae, array_intersect(arr, arr2) AS ai FROM stream"
	case "literal-upper": // literal-upper / literal-lower differ only in the case of a letter inside a string literal
		return "SELECT id, concat(s, '_A') AS r, upper(k) AS uk FROM stream"
	case "literal-lower":
		return "SELECT id, concat(s, '_a') AS r, upper(k) AS uk FROM stream"
	case "column-upper": // column-upper / column-lower differ only in the case of a column name (K and k are two columns)
		return "SELECT id, concat(K, '-') AS r FROM stream"
	case "column-lower":
		return "SELECT id, concat(k, '-') AS r FROM stream"
	case "regexp-digits":
		return "SELECT id, regexp_replace(s, '[0-9]+', '#') AS r, upper(k) AS uk FROM stream"
	case "regexp-alpha":
		return "SELECT id, regexp_replace(s, '[a-z]+', '-') AS r, lower(k) AS lk FROM stream"
	default:
		return "SELECT k, count(*) AS c, collect(id) AS ids FROM stream GROUP BY k, GLOBAL WINDOW TRIGGER WHEN count(*) >= 2"
	}
}

// twinOf: kinds whose SQL differs from their twin's only in letter case
var twinOf = map[string]string{"literal-upper": "literal-lower", "literal-lower": "literal-upper", "column-upper": "column-lower", "column-lower": "column-upper"}

func syncable(kind string) bool {
	return kind == "projection" || kind == "analytic-select" || kind == "analytic-where" || kind == "join" || kind == "join-dotted" || kind == "nested-dotted" || kind == "regexp-digits" || kind == "regexp-alpha" || kind == "array-fns" || twinOf[kind] != ""
}

func genRows(t *rapid.T, label string, typed int) []gen.Row {
	n := rapid.IntRange(1, 12).Draw(t, label+"n")
	var rows []gen.Row
	for i := 0; i < n; i++ {
		var a gen.Val
		switch typed {
		case 0:
			a = gen.Int(int64(rapid.IntRange(-3, 9).Draw(t, label+"ai")))
		case 1:
			a = gen.Float(float64(rapid.IntRange(-6, 18).Draw(t, label+"af")) / 2)
		default:
			if rapid.Bool().Draw(t, label+"mix") {
				a = gen.Int(int64(rapid.IntRange(-3, 9).Draw(t, label+"ai")))
			} else {
				a = gen.Float(float64(rapid.IntRange(-6, 18).Draw(t, label+"af")) / 2)
			}
		}
		r := gen.Row{
			"id": gen.Int(int64(i)),
			"a":  a,
			"s":  gen.Str(rapid.SampledFrom([]string{"x", "X", "y", "Yy", "z"}).Draw(t, label+"s")),
			"k":  gen.Str(rapid.SampledFrom([]string{"k1", "k2", "k3"}).Draw(t, label+"k")),
			"dx": gen.Int(int64(rapid.IntRange(0, 5).Draw(t, label+"dx"))),
			"dl": gen.List(gen.Int(1), gen.Str("e")),
		}
		if rapid.IntRange(0, 7).Draw(t, label+"nulla") == 0 {
			r["a"] = gen.Nil()
		}
		rows = append(rows, r)
	}
	return rows
}

func genCase(t *rapid.T) Case {
	ks := kinds
	var c Case
	c.A = Side{Kind: rapid.SampledFrom(ks).Draw(t, "kindA"), Rows: genRows(t, "A", rapid.IntRange(0, 2).Draw(t, "typedA"))}
	c.A.Sync = syncable(c.A.Kind) && rapid.Bool().Draw(t, "syncA")
	if rapid.IntRange(0, 3).Draw(t, "pair") > 0 {
		b := Side{Kind: rapid.SampledFrom(ks).Draw(t, "kindB"), Rows: genRows(t, "B", rapid.IntRange(0, 2).Draw(t, "typedB"))}
		if rapid.Bool().Draw(t, "sameSQL") {
			b.Kind = c.A.Kind
		}
		if tw := twinOf[c.A.Kind]; tw != "" && rapid.IntRange(0, 3).Draw(t, "twin") > 0 {
			b.Kind = tw
		}
		if strings.HasSuffix(c.A.Kind, "-dotted") && rapid.IntRange(0, 3).Draw(t, "dottedtwin") > 0 {
			b.Kind = map[string]string{"join-dotted": "nested-dotted", "nested-dotted": "join-dotted"}[c.A.Kind]
		}
		if strings.HasPrefix(c.A.Kind, "pctl-") && rapid.IntRange(0, 3).Draw(t, "pctltwin") > 0 {
			b.Kind = rapid.SampledFrom([]string{"pctl-explicit", "pctl-default", "pctl-low"}).Draw(t, "pctlkind")
		}
		// the same function with another literal argument: whatever the function object keeps between calls is shared
		reTwin := false
		if strings.HasPrefix(c.A.Kind, "regexp-") && rapid.IntRange(0, 3).Draw(t, "retwin") > 0 {
			b.Kind = map[string]string{"regexp-digits": "regexp-alpha", "regexp-alpha": "regexp-digits"}[c.A.Kind]
			reTwin = true
		}
		b.Sync = syncable(b.Kind) && rapid.Bool().Draw(t, "syncB")
		c.B = &b
		na, nb := len(c.A.Rows), len(b.Rows)
		for na > 0 || nb > 0 {
			pickB := nb > 0 && (na == 0 || rapid.Bool().Draw(t, "ord"))
			if pickB {
				c.Order = append(c.Order, 1)
				nb--
			} else {
				c.Order = append(c.Order, 0)
				na--
			}
		}
		c.Concurrent = rapid.IntRange(0, 2).Draw(t, "conc") == 0
		if c.Concurrent {
			c.Repeat = rapid.SampledFrom([]int{1, 1, 8, 30}).Draw(t, "repeat")
		}
		if reTwin && rapid.IntRange(0, 3).Draw(t, "retwinconc") > 0 {
			c.Concurrent, c.Repeat = true, 30
		}
	}
	return c
}

func engineRow(kind string, r gen.Row, i int) map[string]any {
	m := map[string]any{"id": r["id"].Go(), "s": r["s"].Go(), "k": r["k"].Go()}
	if kind == "array-fns" {
		base := []any{"a", "b", "c", "b", "d", "a", "e"}
		mk := func(off, n int) []any {
			out := make([]any, 0, n)
			for j := 0; j < n; j++ {
				out = append(out, base[(off+j)%len(base)])
			}
			return out
		}
		m["arr"] = mk(i%5, 2+i%4)
		m["arr2"] = mk((i+3)%7, 1+i%3)
		m["darr"] = mk((i+1)%5, 3+i%3) // moved under d below
	}
	if kind == "nested-dotted" {
		m["m"] = map[string]any{"name": "own-" + r["s"].S, "k": "x"}
	}
	if kind == "column-upper" || kind == "column-lower" {
		m["K"] = "UP-" + r["s"].S // another column than k
	}
	if !r["a"].IsMissing() {
		m["a"] = r["a"].Go()
	}
	m["d"] = map[string]any{"x": r["dx"].Go(), "l": r["dl"].Go(), "m": map[string]any{"deep": []any{1, "two"}}}
	if da, ok := m["darr"]; ok {
		m["d"].(map[string]any)["arr"] = da
		delete(m, "darr")
	}
	if kind == "unnest" {
		m["objs"] = []any{map[string]any{"p": i, "q": "a"}, map[string]any{"p": i + 1, "q": "b"}}
	}
	if kind == "regexp-digits" || kind == "regexp-alpha" {
		m["s"] = fmt.Sprintf("dev%d-%s-%d", i, r["s"].Go(), i*7)
	}
	if kind == "tumbling" {
		m["ts"] = et.Base + int64(i)*400 // in order, several windows
	}
	return m
}

// session drives one instance and records what the property is about.
type session struct {
	kind    string
	in      *run.Inst
	inputs  []map[string]any // references handed to the engine
	copies  []map[string]any // deep copies taken before
	res     *pbt.Result
	label   string
	syncOut []map[string]any
}

func open(kind, label string, res *pbt.Result) *session {
	in, err := run.Open(sqlOf(kind))
	if err != nil {
		res.Add(pbt.D("execute-error", "%s: %v for %s", label, err, sqlOf(kind)))
		return nil
	}
	in.KeepRaw = true
	if kind == "join" || kind == "join-dotted" {
		rows := []map[string]any{{"k": "k1", "name": "one"}, {"k": "k2", "name": "two"}, {"k": "zz", "name": "sentinel"}}
		if _, err := in.S.RegisterTable("meta", rows); err != nil {
			res.Add(pbt.D("execute-error", "%s: RegisterTable: %v", label, err))
			in.Stop()
			return nil
		}
	}
	return &session{kind: kind, in: in, res: res, label: label}
}

func (s *session) emit(row map[string]any, sync bool) {
	cp := run.DeepCopy(row).(map[string]any)
	s.inputs = append(s.inputs, row)
	s.copies = append(s.copies, cp)
	if sync {
		out, _ := s.in.S.EmitSync(row)
		if out != nil {
			s.syncOut = append(s.syncOut, run.DeepCopy(out).(map[string]any))
		}
		return
	}
	s.in.Emit(row)
}

// finish emits the sentinel rows that act as barrier, waits, and checks caller data + retained sink rows.
func (s *session) finish(n int) [][]map[string]any {
	sent := func(id int, over map[string]any) map[string]any {
		m := map[string]any{"id": id, "a": 1, "s": "zz", "k": "zz", "d": map[string]any{"x": 0, "l": []any{}}, "objs": []any{map[string]any{"p": -1}}}
		for k, v := range over {
			m[k] = v
		}
		return m
	}
	isSentinel := func(r map[string]any) bool {
		if f, ok := gen.ToFloat(r["id"]); ok && f < 0 {
			return true
		}
		if l, ok := r["ids"].([]any); ok && len(l) > 0 {
			if f, ok := gen.ToFloat(l[0]); ok && f < 0 {
				return true
			}
		}
		return r["k"] == "zz" || r["us"] == "ZZ"
	}
	switch s.kind {
	case "fnkey-counting", "global":
		s.emit(sent(-1, nil), false)
		s.emit(sent(-2, nil), false)
	case "pctl-explicit", "pctl-default", "pctl-low":
		s.emit(sent(-1, nil), false)
		s.emit(sent(-2, nil), false)
		s.emit(sent(-3, nil), false)
	case "tumbling":
		// one row far later fires every earlier window; it stays buffered itself. The last data window's
		// delivery is the barrier, so add a sentinel data row in its own (later) window first.
		s.emit(sent(-1, map[string]any{"ts": et.Base + int64(n)*400 + 5000}), false)
		s.emit(sent(-2, map[string]any{"ts": et.Base + int64(n)*400 + 60000}), false)
	default:
		s.emit(sent(-1, nil), false)
	}
	ok := s.in.WaitFor(pbt.Wait(4*time.Second), func(ds []run.Delivery) bool {
		for _, d := range ds {
			for _, r := range d.Rows {
				if isSentinel(r) {
					return true
				}
			}
		}
		return false
	})
	if !ok {
		s.res.Add(pbt.D("barrier-lost", "%s (%s): the sentinel row's result never arrived", s.label, s.kind))
	}
	s.in.Settle(time.Millisecond)
	ds := s.in.Deliveries()
	// (a) caller's maps untouched
	for i := range s.inputs {
		if !reflect.DeepEqual(s.inputs[i], s.copies[i]) {
			s.res.Add(pbt.D("caller-map-modified", "%s (%s): the map passed to Emit/EmitSync changed: before %v after %v", s.label, s.kind, s.copies[i], s.inputs[i]))
			break
		}
	}
	// (b) rows handed to the sink are not altered afterwards
	for _, d := range ds {
		for j := range d.Raw {
			if !reflect.DeepEqual(d.Raw[j], d.Rows[j]) {
				s.res.Add(pbt.D("sink-row-altered", "%s (%s): a row given to the sink changed afterwards: at delivery %v now %v", s.label, s.kind, d.Rows[j], d.Raw[j]))
			}
		}
	}
	var out [][]map[string]any
	for _, d := range ds {
		var batch []map[string]any
		for _, r := range d.Rows {
			if isSentinel(r) {
				continue
			}
			batch = append(batch, r)
		}
		if len(batch) > 0 {
			out = append(out, batch)
		}
	}
	// for the two kinds that write the same item text m.name, the documented output name is part of the oracle: state
	// kept per process cannot hide behind "alone and paired agree"
	if want, ok := map[string]string{"nested-dotted": "m.name", "join-dotted": "name"}[s.kind]; ok {
		for _, b := range out {
			for _, r := range b {
				if _, has := r[want]; !has || len(r) != 2 {
					s.res.Add(pbt.D("wrong-output-name", "%s (%s): result %v, want the columns id and %s", s.label, s.kind, r, want))
					break
				}
			}
		}
	}
	s.in.Stop()
	return out
}

// canon renders deliveries for comparison; processing-time window bounds are wall-clock and stripped.
func canon(kind string, ds [][]map[string]any, syncOut []map[string]any) string {
	strip := kind != "tumbling"
	var parts []string
	for _, b := range ds {
		var rows []string
		for _, r := range b {
			m := map[string]any{}
			for k, v := range r {
				if strip && (k == "window_id" || k == "window_start" || k == "window_end") {
					continue
				}
				m[k] = v
			}
			j, _ := json.Marshal(m)
			rows = append(rows, string(j))
		}
		sort.Strings(rows) // rows of one batch (groups) come in map order
		parts = append(parts, fmt.Sprint(rows))
	}
	j, _ := json.Marshal(syncOut)
	return fmt.Sprint(parts) + " sync=" + string(j)
}

// expand builds the engine rows of one side: the generated rows, fed `rep` times over with fresh ids.
func expand(side Side, rep int) []map[string]any {
	if rep < 1 {
		rep = 1
	}
	var out []map[string]any
	for k := 0; k < rep; k++ {
		for i, r := range side.Rows {
			m := engineRow(side.Kind, r, k*len(side.Rows)+i)
			if id, ok := m["id"].(int); ok {
				m["id"] = id + k*1000
			}
			out = append(out, m)
		}
	}
	return out
}

func solo(side Side, rep int, label string, res *pbt.Result) (string, bool) {
	s := open(side.Kind, label, res)
	if s == nil {
		return "", false
	}
	rows := expand(side, rep)
	for _, r := range rows {
		s.emit(r, side.Sync)
	}
	out := s.finish(len(rows))
	return canon(side.Kind, out, s.syncOut), true
}

func runCase(c Case) (res pbt.Result) {
	// "alone" means alone in the process: the expression bridge's process-wide caches start empty for every run
	run.ResetExprCaches()
	soloA, ok := solo(c.A, c.Repeat, "A alone", &res)
	if !ok {
		return
	}
	res.Class("kind:" + c.A.Kind)
	derived := c.A.Kind == "analytic-select" || c.A.Kind == "analytic-where" || c.A.Kind == "fnkey-counting"
	if c.B == nil {
		res.NonTrivial = derived
		return
	}
	run.ResetExprCaches()
	soloB, ok := solo(*c.B, c.Repeat, "B alone", &res)
	if !ok {
		return
	}
	res.Class("kind:" + c.B.Kind)
	run.ResetExprCaches()
	a := open(c.A.Kind, "A paired", &res)
	b := open(c.B.Kind, "B paired", &res)
	if a == nil || b == nil {
		return
	}
	if c.Concurrent {
		var wg sync.WaitGroup
		wg.Add(2)
		ra, rb := expand(c.A, c.Repeat), expand(*c.B, c.Repeat)
		go func() {
			defer wg.Done()
			for _, r := range ra {
				a.emit(r, c.A.Sync)
			}
		}()
		go func() {
			defer wg.Done()
			for _, r := range rb {
				b.emit(r, c.B.Sync)
			}
		}()
		wg.Wait()
		res.Class("concurrent")
	} else {
		ia, ib := 0, 0
		for _, o := range c.Order {
			if o == 0 {
				a.emit(engineRow(c.A.Kind, c.A.Rows[ia], ia), c.A.Sync)
				ia++
			} else {
				b.emit(engineRow(c.B.Kind, c.B.Rows[ib], ib), c.B.Sync)
				ib++
			}
		}
	}
	rep := c.Repeat
	if rep < 1 {
		rep = 1
	}
	pa := canon(c.A.Kind, a.finish(len(c.A.Rows)*rep), a.syncOut)
	pb := canon(c.B.Kind, b.finish(len(c.B.Rows)*rep), b.syncOut)
	if pa != soloA {
		res.Add(pbt.D("instances-interfere", "instance A (%s) alone delivers\n    %s\n  but next to instance B (%s) it delivers\n    %s", c.A.Kind, soloA, c.B.Kind, pa))
	}
	if pb != soloB {
		res.Add(pbt.D("instances-interfere", "instance B (%s) alone delivers\n    %s\n  but next to instance A (%s) it delivers\n    %s", c.B.Kind, soloB, c.A.Kind, pb))
	}
	res.Class("pair")
	if c.A.Kind == c.B.Kind {
		res.Class("same-sql")
	}
	if twinOf[c.A.Kind] == c.B.Kind {
		res.Class("sql-differs-in-case-only")
	}
	res.NonTrivial = derived || c.B.Kind == "analytic-select" || c.B.Kind == "analytic-where" || c.B.Kind == "fnkey-counting" || c.A.Kind == c.B.Kind
	return
}

func features(c Case) []string {
	var f []string
	add := func(k string) {
		switch k {
		case "analytic-select", "analytic-where":
			f = append(f, "analytic-writes-caller-map")
		case "fnkey-counting":
			f = append(f, "fnkey-writes-caller-map")
		}
	}
	add(c.A.Kind)
	if c.B != nil {
		add(c.B.Kind)
	}
	return f
}

var spec = pbt.Spec[Case]{
	ID:   "C20",
	Rule: "generated: one or two instances from {projection, analytic in SELECT, analytic in WHERE, function-expression group key over a counting window, stream-table JOIN, event-time tumbling, global window, unnest, regexp_replace with two patterns, and pairs of queries that differ only in the letter case of a string literal or of a column name}, every run starting from empty process-wide expression caches (alone = alone in the process), rows with nested maps and slices and int/float/mixed typing per instance, Emit or EmitSync, an arbitrary interleaving of the two inputs from one goroutine or two concurrent producers; built with -race. oracle: (a) every map passed to Emit/EmitSync is deep-equal to a copy taken before, after the row's effects were observed (sentinel barrier); (b) rows handed to the sink are deep-equal to copies taken on receipt at the end of the run; (c) each instance delivers exactly the sequence it delivers when run alone on the same input. non-trivial = the query writes derived values (analytic, function group key) or both instances share the SQL text; distinct by case hash",
	Assumptions: []string{"processing-time window bounds (window_id/start/end of counting and global windows) are wall-clock and excluded from the solo/paired comparison", "rows of one batch are compared as a multiset (group order inside a batch is unspecified)"},
	Gen:      genCase,
	Run:      runCase,
	Features: features,
	WAL:      true,
}

func TestProp(t *testing.T)    { pbt.RunProp(t, spec) }
func TestReplay(t *testing.T)  { pbt.RunReplay(t, spec) }
func TestWitness(t *testing.T) { pbt.RunWitnesses(t, spec) }
