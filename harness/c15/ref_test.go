package c15

import "strings"

// Brute-force reference matcher for MATCH_RECOGNIZE, written from the property text:
// for one partition (rows in arrival order) and one start position it enumerates every labeling
// the PATTERN accepts (recursive descent over the pattern tree with backtracking; no automaton),
// evaluating each variable's DEFINE condition against the match so far and the WITHIN bound.

type prow struct {
	id  int
	v   int
	ts  int64 // normalised (ns for epoch-ms stamps, raw for small sequence numbers)
	noV bool  // the row has no column v
	w   int
}

type matcher struct {
	defs   map[string]Def
	rows   []prow
	within int64

	start  int
	labels []string
	forced []string // when non-nil only this labeling (prefix) is explored

	alive map[int]bool // filled by explore

	steps int // successful row consumptions (each is one partial match the engine keeps alive)
	work  int // all consumption attempts
	limit int
	over  bool
}

// accepted labelings of one start
type startInfo struct {
	maxLen  int
	lens    map[int]bool
	longest map[string]bool // labelings of maximal length, "A,B,B"
	// alive[d]: some valid partial labeling of d rows is still waiting for a further row
	alive map[int]bool
}

func (m *matcher) cond(sym string, pos int) bool {
	d, ok := m.defs[sym]
	if !ok {
		return true // undefined variable: always true
	}
	r := m.rows[pos]
	switch d.Kind {
	case "gt":
		return !r.noV && r.v > d.C
	case "lt":
		return !r.noV && r.v < d.C
	case "gtw":
		return !r.noV && r.v > d.C && r.w == d.K
	case "gtprev": // PREV on the first row of the match is NULL -> condition not satisfied
		if pos == m.start {
			return false
		}
		return r.v > m.rows[pos-1].v
	case "ltprev":
		if pos == m.start {
			return false
		}
		return r.v < m.rows[pos-1].v
	case "sumlt": // SUM(Ref.v) over rows classified Ref so far, the candidate row included
		s := 0
		for i, l := range m.labels {
			if l == d.Ref {
				s += m.rows[m.start+i].v
			}
		}
		if sym == d.Ref {
			s += r.v
		}
		return s < d.C
	case "countlt": // COUNT(*) over the match so far, the candidate row included
		return pos-m.start+1 < d.C
	}
	panic("unknown define kind " + d.Kind)
}

func (m *matcher) node(n *Pat, pos int, k func(pos int)) {
	if m.over {
		return
	}
	switch n.K {
	case "lit":
		if m.alive != nil && pos > m.start {
			m.alive[pos-m.start] = true
		}
		if pos >= len(m.rows) {
			return
		}
		m.work++
		if m.work > m.limit {
			m.over = true
			return
		}
		if m.forced != nil && (pos-m.start >= len(m.forced) || m.forced[pos-m.start] != n.S) {
			return
		}
		if m.rows[pos].ts-m.rows[m.start].ts > m.within {
			return
		}
		if !m.cond(n.S, pos) {
			return
		}
		m.labels = append(m.labels, n.S)
		m.steps++
		k(pos + 1)
		m.labels = m.labels[:len(m.labels)-1]
	case "grp":
		m.node(&n.C[0], pos, k)
	case "seq":
		m.seq(n.C, pos, k)
	case "alt":
		for i := range n.C {
			m.node(&n.C[i], pos, k)
		}
	case "perm":
		idx := make([]int, len(n.C))
		for i := range idx {
			idx[i] = i
		}
		permute(idx, 0, func(p []int) {
			ch := make([]Pat, len(p))
			for i, j := range p {
				ch[i] = n.C[j]
			}
			m.seq(ch, pos, k)
		})
	case "rep":
		m.rep(n, 0, pos, k)
	default:
		panic("unknown pattern kind " + n.K)
	}
}

func (m *matcher) seq(ch []Pat, pos int, k func(pos int)) {
	if len(ch) == 0 {
		k(pos)
		return
	}
	m.node(&ch[0], pos, func(p int) { m.seq(ch[1:], p, k) })
}

// rep enumerates X{Min,Max}. Bounded: Min mandatory copies followed by Max-Min copies each of which is
// independently taken or left out (the definition the engine documents for {n,m}; it also makes the
// number of partial labelings visited here an upper bound of the partial matches the engine keeps, which
// is what the guard-risk rule needs). Unbounded: Min copies, then any number of further non-empty ones.
func (m *matcher) rep(n *Pat, count, pos int, k func(pos int)) {
	if m.over {
		return
	}
	if count < n.Min {
		m.node(&n.C[0], pos, func(p int) { m.rep(n, count+1, p, k) })
		return
	}
	if n.Max < 0 {
		k(pos)
		m.node(&n.C[0], pos, func(p int) {
			if p == pos {
				return // an empty iteration adds nothing
			}
			m.rep(n, count, p, k)
		})
		return
	}
	if count >= n.Max {
		k(pos)
		return
	}
	m.rep(n, count+1, pos, k) // leave this optional copy out
	m.node(&n.C[0], pos, func(p int) {
		if p == pos {
			return
		}
		m.rep(n, count+1, p, k)
	})
}

func permute(a []int, i int, f func([]int)) {
	if i == len(a) {
		f(a)
		return
	}
	for j := i; j < len(a); j++ {
		a[i], a[j] = a[j], a[i]
		permute(a, i+1, f)
		a[i], a[j] = a[j], a[i]
	}
}

// explore enumerates all accepted non-empty labelings starting at start.
func (m *matcher) explore(p *Pat, start int) startInfo {
	m.start = start
	m.labels = m.labels[:0]
	m.forced = nil
	si := startInfo{lens: map[int]bool{}, longest: map[string]bool{}, alive: map[int]bool{}}
	m.alive = si.alive
	defer func() { m.alive = nil }()
	m.node(p, start, func(pos int) {
		n := pos - start
		if n == 0 {
			return
		}
		si.lens[n] = true
		if n > si.maxLen {
			si.maxLen = n
			si.longest = map[string]bool{}
		}
		if n == si.maxLen {
			si.longest[strings.Join(m.labels, ",")] = true
		}
	})
	return si
}

// valid reports whether labels is an accepted labeling of rows[start:start+len(labels)].
func (m *matcher) valid(p *Pat, start int, labels []string) bool {
	m.start = start
	m.labels = m.labels[:0]
	m.forced = labels
	ok := false
	m.node(p, start, func(pos int) {
		if pos-start == len(labels) {
			ok = true
		}
	})
	m.forced = nil
	return ok
}
