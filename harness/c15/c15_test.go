package c15

import (
	"fmt"
	"sort"
	"strings"
	"testing"
	"time"

	"pgregory.net/rapid"
	"verifharness/internal/gen"
	"verifharness/internal/pbt"
	"verifharness/internal/run"
)

// ---------------------------------------------------------------------------------------------
// Case

// Pat is a pattern tree. K: lit (S), seq, alt, grp (explicit parentheses), rep (Min, Max; Max<0 =
// unbounded; Q = the quantifier text), perm (PERMUTE).
type Pat struct {
	K   string `json:"k"`
	S   string `json:"s,omitempty"`
	C   []Pat  `json:"c,omitempty"`
	Min int    `json:"min,omitempty"`
	Max int    `json:"max,omitempty"`
	Q   string `json:"q,omitempty"`
}

// Def is one DEFINE entry. Kind: gt (v > C), lt (v < C), gtprev (v > PREV(v)), ltprev,
// sumlt (SUM(Ref.v) < C), countlt (COUNT(*) < C), gtw (v > C AND w == K).
type Def struct {
	Sym  string `json:"sym"`
	Kind string `json:"kind"`
	C    int    `json:"c,omitempty"`
	Ref  string `json:"ref,omitempty"`
	K    int    `json:"k,omitempty"`
}

type Event struct {
	ID int   `json:"id"`
	P  int   `json:"p"` // partition index
	V  int   `json:"v"`
	TS int64 `json:"ts"`
	// sparse rows: NoV = the row has no column v at all (a condition that reads v fails for it: not satisfied);
	// W is a second column present in every row (conditions of kind gtw read both)
	NoV bool `json:"nov,omitempty"`
	W   int  `json:"w,omitempty"`
}

type Case struct {
	Pattern     Pat      `json:"pattern"`
	Defs        []Def    `json:"defs"`
	Skip        string   `json:"skip"` // "" (default = past last row), past, next, first, last, var
	SkipSym     string   `json:"skip_sym,omitempty"`
	AllRows     bool     `json:"all_rows"`
	RowsClause  bool     `json:"rows_clause"` // write ONE ROW PER MATCH explicitly
	Partitioned bool     `json:"partitioned"` // PARTITION BY p
	TsMode      string   `json:"ts_mode"`     // seq (small sequence numbers) | epoch (ms since 1970)
	Within      string   `json:"within"`      // SQL text after WITHIN, "" = clause absent (default 1h)
	WithinNs    int64    `json:"within_ns"`   // the bound in the unit of the normalised stamps
	Measures    []string `json:"measures"`    // order of the six MEASURES items
	Events      []Event  `json:"events"`      // arrival order
}

const epochBase = int64(1700000000000)

var measureSQL = map[string]string{
	"mn":  "MATCH_NUMBER() AS mn",
	"cls": "CLASSIFIER() AS cls",
	"fid": "FIRST(id) AS fid",
	"lid": "LAST(id) AS lid",
	"cnt": "COUNT(*) AS cnt",
	"sv":  "SUM(v) AS sv",
}

// ---------------------------------------------------------------------------------------------
// SQL rendering

func (p *Pat) render() string {
	switch p.K {
	case "lit":
		return p.S
	case "grp":
		return "(" + p.C[0].render() + ")"
	case "seq":
		parts := make([]string, len(p.C))
		for i := range p.C {
			s := p.C[i].render()
			if p.C[i].K == "alt" || p.C[i].K == "seq" {
				s = "(" + s + ")"
			}
			parts[i] = s
		}
		return strings.Join(parts, " ")
	case "alt":
		parts := make([]string, len(p.C))
		for i := range p.C {
			s := p.C[i].render()
			if p.C[i].K == "alt" {
				s = "(" + s + ")"
			}
			parts[i] = s
		}
		return strings.Join(parts, " | ")
	case "rep":
		s := p.C[0].render()
		if p.C[0].K != "lit" && p.C[0].K != "grp" && p.C[0].K != "perm" {
			s = "(" + s + ")" // also keeps "X+?" (reluctant) from ever being written
		}
		return s + p.Q
	case "perm":
		parts := make([]string, len(p.C))
		for i := range p.C {
			parts[i] = p.C[i].render()
		}
		return "PERMUTE(" + strings.Join(parts, ", ") + ")"
	}
	panic("render: " + p.K)
}

func (d Def) render() string {
	switch d.Kind {
	case "gt":
		return fmt.Sprintf("%s AS v > %d", d.Sym, d.C)
	case "lt":
		return fmt.Sprintf("%s AS v < %d", d.Sym, d.C)
	case "gtprev":
		return fmt.Sprintf("%s AS v > PREV(v)", d.Sym)
	case "ltprev":
		return fmt.Sprintf("%s AS v < PREV(v)", d.Sym)
	case "sumlt":
		return fmt.Sprintf("%s AS SUM(%s.v) < %d", d.Sym, d.Ref, d.C)
	case "countlt":
		return fmt.Sprintf("%s AS COUNT(*) < %d", d.Sym, d.C)
	case "gtw":
		return fmt.Sprintf("%s AS v > %d AND w == %d", d.Sym, d.C, d.K)
	}
	panic("def: " + d.Kind)
}

func sql(c Case) string {
	var sb strings.Builder
	sb.WriteString("SELECT * FROM stream MATCH_RECOGNIZE (")
	if c.Partitioned {
		sb.WriteString(" PARTITION BY p")
	}
	sb.WriteString(" ORDER BY ts MEASURES ")
	for i, m := range c.Measures {
		if i > 0 {
			sb.WriteString(", ")
		}
		sb.WriteString(measureSQL[m])
	}
	if c.AllRows {
		sb.WriteString(" ALL ROWS PER MATCH")
	} else if c.RowsClause {
		sb.WriteString(" ONE ROW PER MATCH")
	}
	switch c.Skip {
	case "past":
		sb.WriteString(" AFTER MATCH SKIP PAST LAST ROW")
	case "next":
		sb.WriteString(" AFTER MATCH SKIP TO NEXT ROW")
	case "first":
		sb.WriteString(" AFTER MATCH SKIP TO FIRST " + c.SkipSym)
	case "last":
		sb.WriteString(" AFTER MATCH SKIP TO LAST " + c.SkipSym)
	case "var":
		sb.WriteString(" AFTER MATCH SKIP TO " + c.SkipSym)
	}
	sb.WriteString(" PATTERN (" + c.Pattern.render() + ")")
	if c.Within != "" {
		sb.WriteString(" WITHIN " + c.Within)
	}
	if len(c.Defs) > 0 {
		sb.WriteString(" DEFINE ")
		for i, d := range c.Defs {
			if i > 0 {
				sb.WriteString(", ")
			}
			sb.WriteString(d.render())
		}
	}
	sb.WriteString(" )")
	return sb.String()
}

// ---------------------------------------------------------------------------------------------
// pattern facts (syntactic)

func (p *Pat) symbols(into map[string]bool) {
	if p.K == "lit" {
		into[p.S] = true
	}
	for i := range p.C {
		p.C[i].symbols(into)
	}
}

func (p *Pat) has(kind string) bool {
	if p.K == kind {
		return true
	}
	for i := range p.C {
		if p.C[i].has(kind) {
			return true
		}
	}
	return false
}

func (p *Pat) nullable() bool {
	switch p.K {
	case "lit":
		return false
	case "grp":
		return p.C[0].nullable()
	case "seq", "perm":
		for i := range p.C {
			if !p.C[i].nullable() {
				return false
			}
		}
		return true
	case "alt":
		for i := range p.C {
			if p.C[i].nullable() {
				return true
			}
		}
		return false
	case "rep":
		return p.Min == 0 || p.C[0].nullable()
	}
	return false
}

// ---------------------------------------------------------------------------------------------
// generator

var allSyms = []string{"A", "B", "C", "D"}

func genQuant(t *rapid.T) (min, max int, q string) {
	switch rapid.IntRange(0, 8).Draw(t, "quant") {
	case 0, 1:
		return 0, 1, "?"
	case 2, 3:
		return 0, -1, "*"
	case 4, 5:
		return 1, -1, "+"
	case 6:
		n := rapid.IntRange(1, 3).Draw(t, "n")
		return n, n, fmt.Sprintf("{%d}", n)
	case 7:
		n := rapid.IntRange(0, 2).Draw(t, "n")
		return n, -1, fmt.Sprintf("{%d,}", n)
	default:
		n := rapid.IntRange(0, 2).Draw(t, "n")
		m := rapid.IntRange(n, 3).Draw(t, "m")
		if m == 0 {
			m = 1
		}
		return n, m, fmt.Sprintf("{%d,%d}", n, m)
	}
}

// genLit: successive literals walk through the variables (offset drawn), so that patterns use several
// variables although rapid favours small draws.
func genLit(t *rapid.T, syms []string) Pat {
	k := litCount[t]
	litCount[t] = k + 1
	return Pat{K: "lit", S: syms[(k+rapid.IntRange(0, len(syms)-1).Draw(t, "sym"))%len(syms)]}
}

var litCount = map[*rapid.T]int{}

func genPat(t *rapid.T, depth int, syms []string) Pat {
	if depth <= 0 {
		return genLit(t, syms)
	}
	switch rapid.IntRange(2, 15).Draw(t, "node") {
	case 2, 3:
		return genLit(t, syms)
	case 4, 5, 6:
		n := rapid.IntRange(2, 3).Draw(t, "nseq")
		p := Pat{K: "seq"}
		for i := 0; i < n; i++ {
			p.C = append(p.C, genPat(t, depth-1, syms))
		}
		return p
	case 7, 8:
		n := rapid.IntRange(2, 3).Draw(t, "nalt")
		p := Pat{K: "alt"}
		for i := 0; i < n; i++ {
			p.C = append(p.C, genPat(t, depth-1, syms))
		}
		return p
	case 9, 10, 11, 14, 15:
		p := Pat{K: "rep", C: []Pat{genPat(t, depth-1, syms)}}
		p.Min, p.Max, p.Q = genQuant(t)
		return p
	case 12:
		return Pat{K: "grp", C: []Pat{genPat(t, depth-1, syms)}}
	default:
		n := rapid.IntRange(2, 3).Draw(t, "nperm")
		p := Pat{K: "perm"}
		for i := 0; i < n; i++ {
			d := depth - 1
			if d > 1 {
				d = 1
			}
			p.C = append(p.C, genPat(t, d, syms))
		}
		return p
	}
}

func genCase(t *rapid.T) Case {
	var c Case
	litCount[t] = 0
	defer delete(litCount, t)
	nsym := []int{2, 3, 2, 4, 3, 1}[rapid.IntRange(0, 5).Draw(t, "nsym")]
	syms := allSyms[:nsym]
	// top level: mostly a sequence, so that most patterns need several rows
	if rapid.IntRange(0, 3).Draw(t, "top") > 0 {
		n := rapid.IntRange(2, 4).Draw(t, "ntop")
		p := Pat{K: "seq"}
		for i := 0; i < n; i++ {
			p.C = append(p.C, genPat(t, 2, syms))
		}
		c.Pattern = p
	} else {
		c.Pattern = genPat(t, 3, syms)
	}
	if pbt.Open("C15", "tail-overrun") && tailOverrun(&c.Pattern) {
		// known finding: build around it with a mandatory last variable (no complete match can then be extended)
		last := genLit(t, syms)
		if c.Pattern.K == "seq" {
			c.Pattern.C = append(c.Pattern.C, last)
		} else {
			c.Pattern = Pat{K: "seq", C: []Pat{c.Pattern, last}}
		}
	}
	calmClock := false
	if pbt.Open("C15", "within-expires-extendable-match") && extendableAccept(&c.Pattern) {
		// known finding: either close the pattern with a mandatory last variable or keep WITHIN from binding
		if rapid.Bool().Draw(t, "closePattern") {
			last := genLit(t, syms)
			if c.Pattern.K == "seq" {
				c.Pattern.C = append(c.Pattern.C, last)
			} else {
				c.Pattern = Pat{K: "seq", C: []Pat{c.Pattern, last}}
			}
		} else {
			calmClock = true
		}
	}
	used := map[string]bool{}
	c.Pattern.symbols(used)
	var usedSyms []string
	for _, s := range allSyms {
		if used[s] {
			usedSyms = append(usedSyms, s)
		}
	}
	sparse := rapid.IntRange(0, 3).Draw(t, "sparse") == 0 // some rows lack v: only conditions whose value is then fixed
	for _, s := range usedSyms {
		d := Def{Sym: s}
		dk := rapid.IntRange(1, 13).Draw(t, "defkind")
		if sparse && (dk == 6 || dk == 7 || dk == 8) {
			dk = 12
		}
		switch dk {
		case 12, 13:
			d.Kind, d.C, d.K = "gtw", rapid.IntRange(0, 5).Draw(t, "c"), rapid.IntRange(0, 2).Draw(t, "k")
		case 10, 11:
			continue // undefined: always true
		case 1, 2, 3:
			d.Kind, d.C = "gt", rapid.IntRange(0, 5).Draw(t, "c")
		case 4, 5:
			d.Kind, d.C = "lt", 9-rapid.IntRange(0, 5).Draw(t, "c")
		case 6:
			d.Kind = "gtprev"
		case 7:
			d.Kind = "ltprev"
		case 8:
			d.Kind, d.C, d.Ref = "sumlt", 30-rapid.IntRange(0, 28).Draw(t, "c"), rapid.SampledFrom(usedSyms).Draw(t, "ref")
		case 9:
			d.Kind, d.C = "countlt", 7-rapid.IntRange(0, 5).Draw(t, "c")
		}
		c.Defs = append(c.Defs, d)
	}
	skips := []string{"", "past", "next", "next", "first", "last", "var"}
	if pbt.Open("C15", "skip-to-symbol") {
		skips = skips[:4] // known finding
	}
	c.Skip = rapid.SampledFrom(skips).Draw(t, "skip")
	if c.Skip == "first" || c.Skip == "last" || c.Skip == "var" {
		c.SkipSym = rapid.SampledFrom(usedSyms).Draw(t, "skipsym")
	}
	c.AllRows = rapid.Bool().Draw(t, "allrows")
	c.RowsClause = rapid.Bool().Draw(t, "rowsclause")
	c.Measures = rapid.Permutation([]string{"mn", "cls", "fid", "lid", "cnt", "sv"}).Draw(t, "measures")

	nparts := rapid.IntRange(1, 3).Draw(t, "nparts")
	c.Partitioned = nparts > 1 || rapid.Bool().Draw(t, "partclause")
	lens := make([]int, nparts)
	total := 0
	for i := range lens {
		// spread over 0..14 although rapid favours small draws (0 still shrinks to an empty partition)
		lens[i] = rapid.IntRange(0, 1<<16).Draw(t, "plen") * 7919 % 15
		total += lens[i]
	}
	tsmode := rapid.IntRange(0, 7).Draw(t, "tsmode")
	if calmClock && tsmode == 2 {
		tsmode = 0
	}
	switch tsmode {
	case 0, 1:
		c.TsMode = "seq"
		c.WithinNs = int64(time.Hour)
		c.Within = rapid.SampledFrom([]string{"", "'1h'"}).Draw(t, "within")
	case 2:
		c.TsMode = "seq"
		n := rapid.IntRange(1, 8).Draw(t, "withinN")
		c.WithinNs = int64(n)
		if rapid.Bool().Draw(t, "withinform") {
			c.Within = fmt.Sprintf("'%dns'", n)
		} else {
			c.Within = fmt.Sprintf("%d NS", n)
		}
	default:
		c.TsMode = "epoch"
		w := rapid.SampledFrom([][2]string{{"", "3600"}, {"'1h'", "3600"}, {"60 MINUTES", "3600"}, {"'30m'", "1800"}, {"2 HOURS", "7200"}}).Draw(t, "within")
		c.Within = w[0]
		var secs int64
		fmt.Sscan(w[1], &secs)
		c.WithinNs = secs * int64(time.Second)
	}
	// arrival order: interleaving of the partitions
	remaining := append([]int(nil), lens...)
	contiguous := c.Skip != "next" && pbt.Open("C15", "interleaved-skip")
	cur := -1
	ts := int64(0)
	if c.TsMode == "epoch" {
		ts = epochBase
	}
	for id := 0; id < total; id++ {
		var live []int
		for p, r := range remaining {
			if r > 0 {
				live = append(live, p)
			}
		}
		p := live[0]
		if contiguous && cur >= 0 && remaining[cur] > 0 {
			p = cur // known finding: keep each partition's rows adjacent in arrival order
		} else if len(live) > 1 {
			p = live[rapid.IntRange(0, len(live)-1).Draw(t, "who")]
		}
		cur = p
		remaining[p]--
		if c.TsMode == "seq" {
			ts += int64(rapid.IntRange(0, 2).Draw(t, "dseq"))
			if ts == 0 {
				ts = 1
			}
		} else {
			g := rapid.IntRange(0, 9).Draw(t, "gap")
			if calmClock {
				g = g % 8 // <= 1 s per step: 42 rows stay far inside every generated WITHIN
			}
			switch g {
			case 0, 1, 2, 3:
				ts += 1
			case 4, 5, 6, 7:
				ts += 1000
			case 8:
				ts += rapid.SampledFrom([]int64{600000, 1800000}).Draw(t, "mid")
			default:
				ts += rapid.SampledFrom([]int64{3599999, 3600000, 3600001, 7200000}).Draw(t, "edge")
			}
		}
		ev := Event{ID: id, P: p, V: rapid.IntRange(0, 9).Draw(t, "v"), TS: ts, W: rapid.IntRange(0, 2).Draw(t, "w")}
		if sparse && rapid.IntRange(0, 3).Draw(t, "nov") == 0 {
			ev.NoV, ev.V = true, 0
		}
		c.Events = append(c.Events, ev)
	}
	if pbt.Open("C15", "emit-order") {
		// known finding: end the partition just before the row at which the engine would report a later
		// start ahead of an earlier one (everything still open is then resolved, in order, by the flush)
		for {
			p, at := emitOrderOffense(c)
			if p < 0 {
				break
			}
			var kept []Event
			k := 0
			for _, e := range c.Events {
				if e.P == p {
					k++
					if k > at {
						continue
					}
				}
				kept = append(kept, e)
			}
			c.Events = kept
		}
	}
	return c
}

// ---------------------------------------------------------------------------------------------
// run + oracle

func normTs(c Case, ts int64) int64 {
	if c.TsMode == "epoch" {
		return ts * 1000000 // epoch milliseconds are compared in nanoseconds
	}
	return ts
}

type engMatch struct {
	part   int
	start  int      // index in the partition
	n      int      // rows
	labels []string // ALL ROWS: every label; ONE ROW: nil
	last   string   // label of the last row
	mn     int
	desc   string
}

const (
	maxSteps = 8000   // successful consumptions per partition: stays below the engine's 10000-run guard
	maxWork  = 400000 // reference work budget per partition
)

func num(row map[string]any, k string) (int, bool) {
	f, ok := gen.ToFloat(row[k])
	if !ok || f != float64(int(f)) {
		return 0, false
	}
	return int(f), true
}

func runCase(c Case) (res pbt.Result) {
	q := sql(c)
	// ---- reference data per partition
	nparts := 0
	for _, e := range c.Events {
		if e.P+1 > nparts {
			nparts = e.P + 1
		}
	}
	parts := make([][]prow, nparts)
	evByID := map[int]Event{}
	idxInPart := map[int]int{}
	for _, e := range c.Events {
		idxInPart[e.ID] = len(parts[e.P])
		parts[e.P] = append(parts[e.P], prow{id: e.ID, v: e.V, ts: normTs(c, e.TS), noV: e.NoV, w: e.W})
		evByID[e.ID] = e
	}
	defs := map[string]Def{}
	for _, d := range c.Defs {
		defs[d.Sym] = d
	}

	// ---- engine
	in, err := run.Open(q)
	if err != nil {
		res.Class("rejected-at-execute")
		res.Add(pbt.D("execute-error", "%v for %s", err, q))
		return
	}
	defer in.Stop()
	for _, e := range c.Events {
		row := map[string]any{"id": e.ID, "v": e.V, "w": e.W, "ts": int(e.TS), "p": fmt.Sprintf("p%d", e.P)}
		if e.NoV {
			delete(row, "v")
		}
		in.Emit(row)
	}
	// barrier: every emitted row has been taken by the (single) processing goroutine; Stop joins it
	// (the row in progress is finished) and then flushes.
	deadline := time.Now().Add(pbt.Wait(10 * time.Second))
	for in.S.GetStats()["data_chan_len"] > 0 {
		if time.Now().After(deadline) {
			// slowness is not a violation of C15 (the run guards bound the work, not the time): no verdict
			res.Class("no-verdict:slow")
			return
		}
		time.Sleep(20 * time.Microsecond)
	}
	in.Stop()

	// ---- parse engine output into matches per partition
	eng := make([][]engMatch, nparts)
	bad := func(kind, f string, a ...any) {
		res.Add(pbt.D(kind, "%s | sql: %s", fmt.Sprintf(f, a...), q))
	}
	for _, d := range in.Deliveries() {
		rows := d.Rows
		for i := 0; i < len(rows); {
			r := rows[i]
			fid, ok1 := num(r, "fid")
			mn, ok2 := num(r, "mn")
			if !ok1 || !ok2 {
				bad("bad-row", "output row without integer fid/mn: %v", r)
				return
			}
			fe, known := evByID[fid]
			if !known {
				bad("bad-row", "FIRST(id)=%d was never emitted: %v", fid, r)
				return
			}
			part := parts[fe.P]
			m := engMatch{part: fe.P, start: idxInPart[fid], mn: mn}
			if !c.AllRows {
				lid, ok3 := num(r, "lid")
				cnt, ok4 := num(r, "cnt")
				sv, ok5 := num(r, "sv")
				cls, ok6 := r["cls"].(string)
				if !ok3 || !ok4 || !ok6 {
					bad("bad-row", "output row with missing/non-integer measures: %v", r)
					return
				}
				m.n, m.last = cnt, cls
				m.desc = fmt.Sprintf("%v", r)
				if cnt < 1 || m.start+cnt > len(part) {
					bad("bad-measures", "partition p%d: COUNT(*)=%d from start id %d exceeds the partition (%d rows): %v", fe.P, cnt, fid, len(part), r)
					return
				}
				if part[m.start+cnt-1].id != lid {
					bad("bad-measures", "partition p%d: match FIRST(id)=%d COUNT(*)=%d must end at id %d (consecutive rows of the partition) but LAST(id)=%d: %v", fe.P, fid, cnt, part[m.start+cnt-1].id, lid, r)
					return
				}
				want := 0
				sparseMatch := false // SUM(v) over a match with a row that has no v is not fixed by the property
				for _, pr := range part[m.start : m.start+cnt] {
					want += pr.v
					if pr.noV {
						sparseMatch = true
					}
				}
				if !sparseMatch && !ok5 {
					bad("bad-row", "output row with missing/non-integer SUM(v): %v", r)
					return
				}
				if !sparseMatch && sv != want {
					bad("bad-measures", "partition p%d: SUM(v)=%d want %d for ids %d..%d: %v", fe.P, sv, want, fid, lid, r)
					return
				}
				if len(r) != 6 {
					bad("bad-row", "ONE ROW PER MATCH row must expose exactly the 6 MEASURES columns: %v", r)
					return
				}
				i++
			} else {
				// consecutive rows with the same FIRST(id) and MATCH_NUMBER form one match
				j := i
				sum := 0
				sparseSoFar := false
				for j < len(rows) {
					rr := rows[j]
					f2, _ := num(rr, "fid")
					m2, _ := num(rr, "mn")
					cnt, okc := num(rr, "cnt")
					if f2 != fid || m2 != mn || !okc || (j > i && cnt == 1) {
						break
					}
					k := j - i
					id, ok3 := num(rr, "id")
					lid, ok4 := num(rr, "lid")
					sv, ok5 := num(rr, "sv")
					cls, ok6 := rr["cls"].(string)
					if !ok3 || !ok4 || !ok6 {
						bad("bad-row", "ALL ROWS row with missing/non-integer columns: %v", rr)
						return
					}
					if m.start+k >= len(part) || part[m.start+k].id != id {
						bad("bad-measures", "partition p%d: row %d of the match starting at id %d is id %d, not the next row of the partition: %v", fe.P, k+1, fid, id, rows[i:j+1])
						return
					}
					sum += part[m.start+k].v
					e := evByID[id]
					vcol, _ := num(rr, "v")
					tcol, _ := gen.ToFloat(rr["ts"])
					if part[m.start+k].noV {
						sparseSoFar = true
					}
					if sparseSoFar {
						sv, vcol = sum, e.V // a row without v: the running SUM(v) and the v column are not fixed by the property
					} else if !ok5 {
						bad("bad-row", "ALL ROWS row with missing/non-integer SUM(v): %v", rr)
						return
					}
					if cnt != k+1 || lid != id || sv != sum || vcol != e.V || int64(tcol) != e.TS || rr["p"] != fmt.Sprintf("p%d", e.P) {
						bad("bad-measures", "partition p%d: row %d of match at id %d: want cnt=%d lid=%d sv=%d v=%d ts=%d p=p%d, got %v", fe.P, k+1, fid, k+1, id, sum, e.V, e.TS, e.P, rr)
						return
					}
					m.labels = append(m.labels, cls)
					j++
				}
				if j == i {
					bad("bad-row", "ALL ROWS row that starts no match (cnt must be 1): %v", r)
					return
				}
				m.n = j - i
				m.last = m.labels[m.n-1]
				m.desc = fmt.Sprintf("ids %d..%d labels %v mn=%d", fid, part[m.start+m.n-1].id, m.labels, mn)
				i = j
			}
			eng[fe.P] = append(eng[fe.P], m)
		}
	}

	// ---- reference and comparison, partition by partition
	totalMatches := 0
	multiLen := false
	guardRisk := false
	flushMatch := false
	absentSkipSym := false
	for p := 0; p < nparts; p++ {
		m, infos, ok := exploreAll(c, defs, parts[p])
		for s := range infos {
			if len(infos[s].lens) >= 2 {
				multiLen = true
			}
		}
		if !ok {
			guardRisk = true
			continue // the engine's run-count guard could be hit: no verdict for this partition
		}
		ds, st := checkPartition(c, p, parts[p], infos, m, eng[p], 0, 0, 0)
		if m.over {
			guardRisk = true
			continue
		}
		for _, d := range ds {
			res.Add(pbt.D(d.Kind, "%s | sql: %s", d.Detail, q))
		}
		totalMatches += len(eng[p])
		flushMatch = flushMatch || st.flush
		absentSkipSym = absentSkipSym || st.absent
	}

	// ---- classes / non-triviality
	res.NonTrivial = totalMatches >= 1 && multiLen && (c.Pattern.has("rep") || c.Pattern.has("alt"))
	sk := c.Skip
	if sk == "" {
		sk = "default"
	}
	res.Class("skip=" + sk)
	if c.AllRows {
		res.Class("all-rows")
	} else {
		res.Class("one-row")
	}
	res.Class("ts=" + c.TsMode)
	if c.Within != "" {
		res.Class("within-clause")
	}
	res.Class(fmt.Sprintf("partitions=%d", nparts))
	for _, k := range []string{"alt", "rep", "perm", "grp"} {
		if c.Pattern.has(k) {
			res.Class("pat-" + k)
		}
	}
	for _, d := range c.Defs {
		res.Class("def-" + d.Kind)
	}
	if len(c.Defs) == 0 {
		res.Class("def-none")
	}
	if extendableAccept(&c.Pattern) {
		res.Class("pat-complete-match-extendable")
	}
	if c.Pattern.nullable() {
		res.Class("pat-nullable")
	}
	if withinCanBind(c) {
		res.Class("within-can-bind")
	}
	if interleaved(c) {
		res.Class("partitions-interleaved")
	}
	switch {
	case totalMatches == 0:
		res.Class("matches=0")
	case totalMatches <= 3:
		res.Class("matches=1-3")
	default:
		res.Class("matches>=4")
	}
	if multiLen {
		res.Class("candidates-of-different-length")
	}
	if guardRisk {
		res.Class("no-verdict-guard-risk")
	}
	if flushMatch {
		res.Class("match-ends-at-end-of-stream")
	}
	if absentSkipSym {
		res.Class("skip-symbol-absent-from-match")
	}
	return
}

type pstat struct{ flush, absent bool }

func splitPartitions(c Case) (parts [][]prow) {
	for _, e := range c.Events {
		for e.P >= len(parts) {
			parts = append(parts, nil)
		}
		parts[e.P] = append(parts[e.P], prow{id: e.ID, v: e.V, ts: normTs(c, e.TS), noV: e.NoV, w: e.W})
	}
	return
}

func defMap(c Case) map[string]Def {
	defs := map[string]Def{}
	for _, d := range c.Defs {
		defs[d.Sym] = d
	}
	return defs
}

// exploreAll runs the reference enumeration for every start of one partition; ok=false when the
// budgets were exceeded (no verdict).
func exploreAll(c Case, defs map[string]Def, rows []prow) (m *matcher, infos []startInfo, ok bool) {
	m = &matcher{defs: defs, rows: rows, within: c.WithinNs, limit: maxWork}
	infos = make([]startInfo, len(rows))
	for s := range rows {
		infos[s] = m.explore(&c.Pattern, s)
	}
	return m, infos, !m.over && m.steps <= maxSteps
}

// emitOrderOffense: partition index and row index of the first out-of-order emission, or -1.
func emitOrderOffense(c Case) (part, at int) {
	defs := defMap(c)
	for p, rows := range splitPartitions(c) {
		_, infos, ok := exploreAll(c, defs, rows)
		if !ok {
			continue
		}
		if t := firstOffense(c, infos, len(rows)); t >= 0 {
			return p, t
		}
	}
	return -1, -1
}

// checkPartition walks the engine's matches of one partition from match i with next allowed start ns.
func checkPartition(c Case, p int, rows []prow, infos []startInfo, m *matcher, eng []engMatch, i, ns, depth int) ([]pbt.Disc, pstat) {
	var st pstat
	ids := func(s, n int) string {
		if n <= 0 {
			return "[]"
		}
		return fmt.Sprintf("ids %d..%d (%d rows)", rows[s].id, rows[s+n-1].id, n)
	}
	ctx := func() string {
		var sb strings.Builder
		fmt.Fprintf(&sb, "partition p%d rows(id:v,w@ts; v=- for a row without v)=", p)
		for _, r := range rows {
			if r.noV {
				fmt.Fprintf(&sb, "%d:-,%d@%d ", r.id, r.w, r.ts)
			} else {
				fmt.Fprintf(&sb, "%d:%d,%d@%d ", r.id, r.v, r.w, r.ts)
			}
		}
		fmt.Fprintf(&sb, "engine matches=[")
		for _, e := range eng {
			fmt.Fprintf(&sb, "{%s} ", e.desc)
		}
		sb.WriteString("]")
		return sb.String()
	}
	for ; ; i++ {
		want := -1
		for s := ns; s < len(rows); s++ {
			if infos[s].maxLen >= 1 {
				want = s
				break
			}
		}
		if i == len(eng) {
			if want >= 0 {
				return []pbt.Disc{pbt.D("missing-match", "match #%d not reported: %s is the longest valid match from the leftmost allowed start (next allowed start index %d) | %s", i+1, ids(want, infos[want].maxLen), ns, ctx())}, st
			}
			return nil, st
		}
		e := eng[i]
		if e.mn != i+1 {
			return []pbt.Disc{pbt.D("match-number", "match #%d of the partition carries MATCH_NUMBER()=%d | %s", i+1, e.mn, ctx())}, st
		}
		if e.start < ns {
			return []pbt.Disc{pbt.D("skip-violated", "match #%d %s starts before the next allowed start (row index %d, id %d) given by AFTER MATCH SKIP | %s", i+1, ids(e.start, e.n), ns, idAt(rows, ns), ctx())}, st
		}
		if want < 0 || e.start < want {
			return []pbt.Disc{pbt.D("invalid-match", "match #%d %s: no valid match starts at id %d | %s", i+1, ids(e.start, e.n), rows[e.start].id, ctx())}, st
		}
		if e.start > want {
			return []pbt.Disc{pbt.D("missing-match", "match #%d should be %s (leftmost allowed start, longest) but the engine's next match is %s | %s", i+1, ids(want, infos[want].maxLen), ids(e.start, e.n), ctx())}, st
		}
		L := infos[want].maxLen
		if e.n < L {
			return []pbt.Disc{pbt.D("not-longest", "match #%d %s but the longest valid match from that start is %s (e.g. %v) | %s", i+1, ids(e.start, e.n), ids(want, L), keys(infos[want].longest), ctx())}, st
		}
		if e.n > L {
			return []pbt.Disc{pbt.D("invalid-match", "match #%d %s is longer than any valid match from that start (longest %d rows) | %s", i+1, ids(e.start, e.n), L, ctx())}, st
		}
		if e.start+e.n == len(rows) {
			st.flush = true
		}
		// classification: validity predicate
		var cands [][]string
		if e.labels != nil {
			if !m.valid(&c.Pattern, e.start, e.labels) {
				if m.over {
					return nil, st
				}
				return []pbt.Disc{pbt.D("invalid-classification", "match #%d %s: CLASSIFIER() labels %v do not spell a word of the pattern that satisfies DEFINE (valid labelings of that length: %v) | %s", i+1, ids(e.start, e.n), e.labels, keys(infos[want].longest), ctx())}, st
			}
			cands = [][]string{e.labels}
		} else {
			for _, k := range allKeys(infos[want].longest) {
				l := strings.Split(k, ",")
				if l[len(l)-1] == e.last {
					cands = append(cands, l)
				}
			}
			if len(cands) == 0 {
				return []pbt.Disc{pbt.D("invalid-classification", "match #%d %s: CLASSIFIER()=%q on the last row but the valid labelings of that length are %v | %s", i+1, ids(e.start, e.n), e.last, keys(infos[want].longest), ctx())}, st
			}
		}
		// next allowed start per AFTER MATCH SKIP
		nexts := map[int]bool{}
		for _, l := range cands {
			n, absent := nextStart(c, e.start, l)
			if absent {
				st.absent = true
			}
			nexts[n] = true
		}
		if len(nexts) == 1 {
			for n := range nexts {
				ns = n
			}
			continue
		}
		// ONE ROW PER MATCH hides the labeling: accept any continuation consistent with a valid labeling
		var order []int
		for n := range nexts {
			order = append(order, n)
		}
		sort.Ints(order)
		var first []pbt.Disc
		for k, n := range order {
			ds, st2 := checkPartition(c, p, rows, infos, m, eng, i+1, n, depth+1)
			if len(ds) == 0 {
				st.flush = st.flush || st2.flush
				st.absent = st.absent || st2.absent
				return nil, st
			}
			if k == 0 {
				first = ds
			}
		}
		return first, st
	}
}

func idAt(rows []prow, i int) int {
	if i < len(rows) {
		return rows[i].id
	}
	return -1
}

func allKeys(m map[string]bool) []string {
	out := make([]string, 0, len(m))
	for k := range m {
		out = append(out, k)
	}
	sort.Strings(out)
	return out
}

// keys: at most six, for messages
func keys(m map[string]bool) []string {
	out := allKeys(m)
	if len(out) > 6 {
		out = append(out[:6], "...")
	}
	return out
}

// nextStart applies the AFTER MATCH SKIP rule to a match (start, labels).
// SKIP TO FIRST/LAST X resumes at the first/last row classified X (SKIP TO X = TO LAST X). Two outcomes
// the property leaves open are taken as the engine handles them: X absent from the match -> past the
// last row; the target row being the match's own first row (a loop in the standard) -> next row.
func nextStart(c Case, start int, labels []string) (next int, absent bool) {
	switch c.Skip {
	case "", "past":
		return start + len(labels), false
	case "next":
		return start + 1, false
	}
	pos := -1
	for i, l := range labels {
		if l == c.SkipSym {
			pos = i
			if c.Skip == "first" {
				break
			}
		}
	}
	if pos < 0 {
		return start + len(labels), true
	}
	if pos == 0 {
		return start + 1, false
	}
	return start + pos, false
}

// interleaved: some partition has a foreign row between two of its own rows (arrival order).
func interleaved(c Case) bool {
	closed := map[int]bool{}
	prev := -1
	for _, e := range c.Events {
		if e.P != prev {
			if closed[e.P] {
				return true
			}
			if prev >= 0 {
				closed[prev] = true
			}
			prev = e.P
		}
	}
	return false
}

// withinCanBind: two rows of one partition are further apart than WITHIN.
func withinCanBind(c Case) bool {
	lo := map[int]int64{}
	for _, e := range c.Events {
		ts := normTs(c, e.TS)
		if first, ok := lo[e.P]; !ok {
			lo[e.P] = ts
		} else if ts-first > c.WithinNs {
			return true
		}
	}
	return false
}

func features(c Case) []string {
	var f []string
	if tailOverrun(&c.Pattern) {
		f = append(f, "tail-overrun")
	}
	if extendableAccept(&c.Pattern) && withinCanBind(c) {
		f = append(f, "within-expires-extendable-match")
	}
	if c.Skip == "first" || c.Skip == "last" || c.Skip == "var" {
		f = append(f, "skip-to-symbol")
	}
	if p, _ := emitOrderOffense(c); p >= 0 {
		f = append(f, "emit-order")
	}
	if c.Skip != "next" && interleaved(c) {
		f = append(f, "interleaved-skip")
	}
	return f
}

var spec = pbt.Spec[Case]{
	ID:   "C15",
	Rule: "generated: pattern trees over <=4 variables (sequence, alternation, groups, ? * + {n} {n,} {n,m}, PERMUTE of 2-3, greedy only), DEFINE per variable from {v>c, v<c, v>PREV(v), v<PREV(v), SUM(X.v)<c, COUNT(*)<c, v>c AND w==k, undefined}; one case in four is sparse (a quarter of its rows have no column v; conditions then only from the kinds whose value is fixed for such a row: not satisfied), 1-3 interleaved partitions of 0-14 events, all AFTER MATCH SKIP modes, ONE ROW / ALL ROWS PER MATCH, the six MEASURES in random order, WITHIN absent/'1h'/other durations over epoch-ms stamps with gaps around the bound or small sequence numbers, Stop() flushes; oracle: own backtracking matcher over the pattern tree enumerates every accepted labeling per start, engine matches per partition must be exactly leftmost-allowed start + longest length in order with MATCH_NUMBER 1,2,3.., classification valid, MEASURES recomputed. non-trivial = >=1 match, quantifier or alternation present, some start with accepted labelings of two different lengths; distinct = hash of the case JSON",
	Assumptions: []string{
		"input never dropped: WithOverflowStrategy(block,0); all rows consumed before Stop (data_chan_len==0, Stop joins the processor)",
		"PREV on the first row of a match is NULL and fails the comparison; aggregates in DEFINE include the candidate row (cep/eval.go rowsLabels)",
		"empty matches are never reported",
		"partitions whose reference enumeration exceeds 8000 partial matches get no verdict (engine guard maxRuns=10000)",
		"SKIP TO FIRST/LAST X resumes at the row classified X; X absent -> past last row; target = first row of the match -> next row",
		"timestamps non-decreasing in arrival order; stamps >= 1e12 are milliseconds (cep/engine.go normalizeTs); WITHIN defaults to 1h",
	},
	Gen:      genCase,
	Run:      runCase,
	Features: features,
}

func TestProp(t *testing.T)    { pbt.RunProp(t, spec) }
func TestReplay(t *testing.T)  { pbt.RunReplay(t, spec) }
func TestWitness(t *testing.T) { pbt.RunWitnesses(t, spec) }
