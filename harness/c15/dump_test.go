package c15

import (
	"fmt"
	"testing"

	"pgregory.net/rapid"
)

func TestDump(t *testing.T) {
	hist := map[string]int{}
	n := 0
	rapid.Check(t, func(rt *rapid.T) {
		c := genCase(rt)
		u := map[string]bool{}
		c.Pattern.symbols(u)
		hist[fmt.Sprintf("used=%d defs=%d", len(u), len(c.Defs))]++
		n++
	})
	fmt.Println(n, hist)
}
