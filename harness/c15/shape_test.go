package c15

// Position analysis of a pattern (Glushkov construction over the same unrolling the engine uses:
// X{n,m} = n copies followed by m-n optional copies, X{n,} = n copies and a star, PERMUTE = every
// ordering with fresh copies). It is NOT part of the oracle; it only describes, for known findings,
// the pattern shapes in which the engine's bookkeeping can be in a given situation, so that the
// generator can build around them and the finding filter stays narrow.

type posFrag struct {
	nullable    bool
	first, last []int
}

type positions struct {
	sym    []string
	follow []map[int]bool
	top    posFrag
}

func analyse(p *Pat) *positions {
	g := &positions{}
	g.top = g.build(p)
	return g
}

func (g *positions) build(p *Pat) posFrag {
	switch p.K {
	case "lit":
		g.sym = append(g.sym, p.S)
		g.follow = append(g.follow, map[int]bool{})
		x := len(g.sym) - 1
		return posFrag{first: []int{x}, last: []int{x}}
	case "grp":
		return g.build(&p.C[0])
	case "seq":
		return g.seq(p.C)
	case "alt":
		var out posFrag
		for i := range p.C {
			f := g.build(&p.C[i])
			out.nullable = out.nullable || f.nullable
			out.first = append(out.first, f.first...)
			out.last = append(out.last, f.last...)
		}
		return out
	case "perm":
		var out posFrag
		idx := make([]int, len(p.C))
		for i := range idx {
			idx[i] = i
		}
		permute(idx, 0, func(o []int) {
			ch := make([]Pat, len(o))
			for i, j := range o {
				ch[i] = p.C[j]
			}
			f := g.seq(ch)
			out.nullable = out.nullable || f.nullable
			out.first = append(out.first, f.first...)
			out.last = append(out.last, f.last...)
		})
		return out
	case "rep":
		acc := posFrag{nullable: true}
		for i := 0; i < p.Min; i++ {
			acc = g.concat(acc, g.build(&p.C[0]))
		}
		if p.Max < 0 {
			f := g.build(&p.C[0])
			for _, x := range f.last {
				for _, y := range f.first {
					g.follow[x][y] = true
				}
			}
			f.nullable = true
			return g.concat(acc, f)
		}
		for i := p.Min; i < p.Max; i++ {
			f := g.build(&p.C[0])
			f.nullable = true
			acc = g.concat(acc, f)
		}
		return acc
	}
	panic("analyse: " + p.K)
}

func (g *positions) seq(ch []Pat) posFrag {
	acc := posFrag{nullable: true}
	for i := range ch {
		acc = g.concat(acc, g.build(&ch[i]))
	}
	return acc
}

func (g *positions) concat(a, b posFrag) posFrag {
	for _, x := range a.last {
		for _, y := range b.first {
			g.follow[x][y] = true
		}
	}
	out := posFrag{nullable: a.nullable && b.nullable}
	out.first = append(out.first, a.first...)
	if a.nullable {
		out.first = append(out.first, b.first...)
	}
	out.last = append(out.last, b.last...)
	if b.nullable {
		out.last = append(out.last, a.last...)
	}
	return out
}

func (g *positions) final() map[int]bool {
	f := map[int]bool{}
	for _, x := range g.top.last {
		f[x] = true
	}
	return f
}

// tailOverrun: some accepting position can be followed by a non-accepting one, i.e. a partial match
// that already is a complete match can consume a further row and then no longer be one
// (e.g. A (B C)?, (A B)+, (A A)*).
func tailOverrun(p *Pat) bool {
	g := analyse(p)
	fin := g.final()
	for x := range g.sym {
		if !fin[x] {
			continue
		}
		for y := range g.follow[x] {
			if !fin[y] {
				return true
			}
		}
	}
	return false
}

// extendableAccept: some accepting position has a follower, i.e. a complete match may still be
// waiting for further rows (A A?, A B*, A+).
func extendableAccept(p *Pat) bool {
	g := analyse(p)
	for x := range g.final() {
		if len(g.follow[x]) > 0 {
			return true
		}
	}
	return false
}

// ---- emission order (known finding "emit-order") ---------------------------------------------
// The engine reports the pending longest match of a start as soon as that start has no partial match
// left, even while an EARLIER start still has one; the SKIP rule then discards the earlier start.
// firstOffense says at which row (index in the partition) that first happens for a start that is
// not the leftmost allowed one with a valid match; -1 if never. Derived from the reference's own
// enumeration (complete lengths and lengths of partial labelings still waiting for a row).

func readyAt(si *startInfo, s, n int) int {
	for t := s; t < n; t++ {
		d := t - s + 1
		if si.alive[d] {
			continue
		}
		for l := range si.lens {
			if l <= d {
				return t
			}
		}
	}
	return n // only the flush at Stop resolves it
}

func firstOffense(c Case, infos []startInfo, n int) int {
	ns := 0
	for {
		s := -1
		for x := ns; x < n; x++ {
			if infos[x].maxLen >= 1 {
				s = x
				break
			}
		}
		if s < 0 {
			return -1
		}
		T := readyAt(&infos[s], s, n)
		off := -1
		for s2 := s + 1; s2 < n && s2 <= T; s2++ {
			if infos[s2].maxLen < 1 {
				continue
			}
			if t2 := readyAt(&infos[s2], s2, n); t2 < T && (off < 0 || t2 < off) {
				off = t2
			}
		}
		if off >= 0 {
			return off
		}
		switch c.Skip {
		case "", "past":
			ns = s + infos[s].maxLen
		default:
			ns = s + 1 // smallest possible next start
		}
	}
}
