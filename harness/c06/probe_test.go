package c06

import (
	"bufio"
	"encoding/json"
	"fmt"
	"os"
	"strings"
	"testing"

	"github.com/rulego/streamsql"
	_ "verifharness/internal/run"
)

// TestProbe: PROBE=file with lines "ROW <json>" / "SQL <sql>"; each SQL gets a fresh instance fed every row so far declared.
func TestProbe(t *testing.T) {
	p := os.Getenv("PROBE")
	if p == "" {
		t.Skip()
	}
	f, _ := os.Open(p)
	defer f.Close()
	sc := bufio.NewScanner(f)
	var rows []map[string]any
	for sc.Scan() {
		l := strings.TrimSpace(sc.Text())
		if strings.HasPrefix(l, "ROW ") {
			var m map[string]any
			d := json.NewDecoder(strings.NewReader(l[4:]))
			d.UseNumber()
			if err := d.Decode(&m); err != nil {
				t.Fatal(err)
			}
			for k, v := range m {
				if n, ok := v.(json.Number); ok {
					if i, err := n.Int64(); err == nil && !strings.ContainsAny(n.String(), ".eE") {
						m[k] = int(i)
					} else {
						fl, _ := n.Float64()
						m[k] = fl
					}
				}
			}
			rows = append(rows, m)
			continue
		}
		if l == "CLEAR" {
			rows = nil
			continue
		}
		if !strings.HasPrefix(l, "SQL ") {
			continue
		}
		q := l[4:]
		s := streamsql.New()
		if err := s.Execute(q); err != nil {
			fmt.Printf("%-70s EXECERR %v\n", q, err)
			continue
		}
		var outs []string
		for _, r := range rows {
			cp := map[string]any{}
			for k, v := range r {
				cp[k] = v
			}
			func() {
				defer func() {
					if x := recover(); x != nil {
						outs = append(outs, fmt.Sprintf("PANIC(%v)", x))
					}
				}()
				res, err := s.EmitSync(cp)
				if err != nil {
					outs = append(outs, "ERR:"+err.Error())
				} else if res == nil {
					outs = append(outs, "<filtered>")
				} else {
					outs = append(outs, fmt.Sprintf("%#v", res))
				}
			}()
		}
		s.Stop()
		fmt.Printf("%-70s %s\n", q, strings.Join(outs, " | "))
	}
}
