package c06

import (
	"strconv"
	"strings"
	"verifharness/internal/gen"
)

// Node is one node of a typed expression tree. Plain JSON.
//
//	Op: col num str neg ari cmp and or not par case scase call isnull notnull
//	V : column name | literal text | operator symbol | function name
//	T : static type  n (numeric)  s (text)  b (boolean)
//	K : children. case: c1 r1 c2 r2 ... [else]; scase: subject v1 r1 v2 r2 ... [else]
//	E : CASE has an ELSE (last child)
type Node struct {
	Op string  `json:"op"`
	V  string  `json:"v,omitempty"`
	T  string  `json:"t"`
	K  []*Node `json:"k,omitempty"`
	E  bool    `json:"e,omitempty"`
}

func col(name, t string) *Node { return &Node{Op: "col", V: name, T: t} }
func numLit(txt string) *Node  { return &Node{Op: "num", V: txt, T: "n"} }
func strLit(s string) *Node    { return &Node{Op: "str", V: s, T: "s"} }
func par(n *Node) *Node        { return &Node{Op: "par", T: n.T, K: []*Node{n}} }
func bin(op, v, t string, l, r *Node) *Node {
	return &Node{Op: op, V: v, T: t, K: []*Node{l, r}}
}
func call(name, t string, args ...*Node) *Node { return &Node{Op: "call", V: name, T: t, K: args} }

// precedence of a node when it appears as an operand (higher binds tighter)
func prec(n *Node) int {
	switch n.Op {
	case "or":
		return 1
	case "and":
		return 2
	case "not":
		return 3
	case "cmp", "isnull", "notnull":
		return 4
	case "ari":
		if n.V == "+" || n.V == "-" {
			return 5
		}
		return 6
	case "neg":
		return 7
	case "num":
		if strings.HasPrefix(n.V, "-") {
			return 7
		}
	}
	return 9
}

// wrap inserts a par node when child needs one under a parent of precedence p.
// right: child is the right operand of a left-associative operator.
func wrap(child *Node, p int, right bool) *Node {
	cp := prec(child)
	if cp < p || (right && cp == p) {
		return par(child)
	}
	return child
}

// normalize inserts the parentheses the grammar requires so that the rendered text parses back
// to the same tree. Generated trees are always normalized; par nodes are therefore explicit.
func normalize(n *Node) *Node {
	if n == nil {
		return nil
	}
	for i, k := range n.K {
		n.K[i] = normalize(k)
	}
	switch n.Op {
	case "or", "and":
		p := prec(n)
		n.K[0] = wrap(n.K[0], p, false)
		n.K[1] = wrap(n.K[1], p, true)
	case "not":
		// NOT x: operand must bind at least as tight as a comparison; we always parenthesise
		// non-atomic operands (NOT a > 3 is not accepted by the engine's WHERE, see DESIGN 3.2)
		if n.K[0].Op != "par" && n.K[0].Op != "col" && n.K[0].Op != "call" {
			n.K[0] = par(n.K[0])
		}
	case "cmp":
		n.K[0] = wrap(n.K[0], 5, false)
		n.K[1] = wrap(n.K[1], 5, false)
	case "isnull", "notnull":
		n.K[0] = wrap(n.K[0], 9, false)
	case "ari":
		p := prec(n)
		n.K[0] = wrap(n.K[0], p, false)
		n.K[1] = wrap(n.K[1], p, true)
		// a - -3 is fine, a--3 is not produced (we always put spaces); keep negative literal as is
	case "neg":
		n.K[0] = wrap(n.K[0], 8, false)
	}
	return n
}

func quote(s string) string { return "'" + s + "'" }

// render produces the SQL text of the tree (upper-case keywords).
func render(n *Node) string { return renderStyle(n, false) }

// renderStyle: lower=true writes and / or / not in lower case (SQL keywords are case-insensitive).
func renderStyle(n *Node, lower bool) string { return renderStyle2(n, lower, false) }

// titleFns makes renderTo write function names with an initial capital.
var titleFns bool

func fnName(s string) string {
	if titleFns && s != "" {
		return strings.ToUpper(s[:1]) + s[1:]
	}
	return s
}

// keywordNames: column names that start with or contain SQL keywords (or, is, and, not, in); used when a case
// sets Names. The expression trees and the reference keep the short names.
var keywordNames = map[string]string{"a": "order_id", "b": "is_ok", "s": "island", "u": "notes", "f": "android", "n": "nothing_n", "m": "inner_m"}

// colAlias is consulted by renderTo for column nodes (nil: names as they are).
var colAlias map[string]string

// renderCase renders the case's expression the way the case writes it (keyword case, function-name case, column names).
func renderCase(c Case) string {
	if c.Names {
		colAlias = keywordNames
		defer func() { colAlias = nil }()
	}
	return renderStyle2(c.Expr, c.Lower, c.Title)
}

// engineRow is the row as the engine gets it (columns renamed when the case sets Names).
func engineRow(c Case, r gen.Row) map[string]any {
	m := r.Go()
	if !c.Names {
		return m
	}
	out := make(map[string]any, len(m))
	for k, v := range m {
		if nk, ok := keywordNames[k]; ok {
			out[nk] = v
		} else {
			out[k] = v
		}
	}
	return out
}

func renderStyle2(n *Node, lower, title bool) string {
	var sb strings.Builder
	titleFns = title
	renderTo(&sb, n)
	titleFns = false
	out := sb.String()
	if lower {
		out = lowerLogic(out)
	}
	return out
}

// lowerLogic lower-cases AND / OR / NOT outside string literals.
func lowerLogic(s string) string {
	var sb strings.Builder
	inq := false
	for i := 0; i < len(s); i++ {
		ch := s[i]
		if ch == '\'' {
			inq = !inq
		}
		if !inq {
			for _, kw := range []string{" AND ", " OR ", "NOT "} {
				if strings.HasPrefix(s[i:], kw) && (kw[0] == ' ' || i == 0 || s[i-1] == ' ' || s[i-1] == '(') && !(kw == "NOT " && strings.HasSuffix(s[:i], "IS ")) {
					sb.WriteString(strings.ToLower(kw))
					i += len(kw) - 1
					goto next
				}
			}
		}
		sb.WriteByte(ch)
	next:
	}
	return sb.String()
}

func renderTo(sb *strings.Builder, n *Node) {
	switch n.Op {
	case "col":
		if a, ok := colAlias[n.V]; ok {
			sb.WriteString(a)
		} else {
			sb.WriteString(n.V)
		}
	case "num":
		sb.WriteString(n.V)
	case "str":
		sb.WriteString(quote(n.V))
	case "neg":
		sb.WriteString("-")
		renderTo(sb, n.K[0])
	case "par":
		sb.WriteString("(")
		renderTo(sb, n.K[0])
		sb.WriteString(")")
	case "ari", "cmp":
		renderTo(sb, n.K[0])
		sb.WriteString(" " + n.V + " ")
		renderTo(sb, n.K[1])
	case "and":
		renderTo(sb, n.K[0])
		sb.WriteString(" AND ")
		renderTo(sb, n.K[1])
	case "or":
		renderTo(sb, n.K[0])
		sb.WriteString(" OR ")
		renderTo(sb, n.K[1])
	case "not":
		sb.WriteString("NOT ")
		renderTo(sb, n.K[0])
	case "isnull":
		renderTo(sb, n.K[0])
		sb.WriteString(" IS NULL")
	case "notnull":
		renderTo(sb, n.K[0])
		sb.WriteString(" IS NOT NULL")
	case "call":
		sb.WriteString(fnName(n.V) + "(")
		for i, k := range n.K {
			if i > 0 {
				sb.WriteString(", ")
			}
			renderTo(sb, k)
		}
		sb.WriteString(")")
	case "case":
		sb.WriteString("CASE")
		m := len(n.K)
		if n.E {
			m--
		}
		for i := 0; i+1 < m; i += 2 {
			sb.WriteString(" WHEN ")
			renderTo(sb, n.K[i])
			sb.WriteString(" THEN ")
			renderTo(sb, n.K[i+1])
		}
		if n.E {
			sb.WriteString(" ELSE ")
			renderTo(sb, n.K[len(n.K)-1])
		}
		sb.WriteString(" END")
	case "scase":
		sb.WriteString("CASE ")
		renderTo(sb, n.K[0])
		m := len(n.K)
		if n.E {
			m--
		}
		for i := 1; i+1 < m; i += 2 {
			sb.WriteString(" WHEN ")
			renderTo(sb, n.K[i])
			sb.WriteString(" THEN ")
			renderTo(sb, n.K[i+1])
		}
		if n.E {
			sb.WriteString(" ELSE ")
			renderTo(sb, n.K[len(n.K)-1])
		}
		sb.WriteString(" END")
	default:
		sb.WriteString("?" + n.Op + "?")
	}
}

// walk visits every node with its parent (nil for the root).
func walk(n, parent *Node, f func(n, parent *Node)) {
	if n == nil {
		return
	}
	f(n, parent)
	for _, k := range n.K {
		walk(k, n, f)
	}
}

func depth(n *Node) int {
	d := 0
	for _, k := range n.K {
		if x := depth(k); x > d {
			d = x
		}
	}
	if n.Op == "par" {
		return d // parentheses are layout, not depth
	}
	return d + 1
}

func has(n *Node, pred func(*Node) bool) bool {
	found := false
	walk(n, nil, func(x, _ *Node) {
		if pred(x) {
			found = true
		}
	})
	return found
}

func hasOp(n *Node, ops ...string) bool {
	return has(n, func(x *Node) bool {
		for _, o := range ops {
			if x.Op == o {
				return true
			}
		}
		return false
	})
}

func strip(n *Node) *Node { // skip layout parentheses
	for n != nil && n.Op == "par" {
		n = n.K[0]
	}
	return n
}

func itoa(i int) string { return strconv.Itoa(i) }
