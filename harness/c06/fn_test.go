package c06

import (
	"fmt"
	"math"
	"sort"
	"strconv"
	"strings"
	"sync"

	"github.com/rulego/streamsql/functions"
	"pgregory.net/rapid"
	"verifharness/internal/gen"
	"verifharness/internal/pbt"
)

// ---- direct function mode ----

type directFn struct {
	name     string
	min, max int
}

var (
	directOnce sync.Once
	directList []directFn
)

// excluded from the direct mode: non-deterministic, time/zone dependent, row-context or multi-row functions
var directExclude = map[string]bool{
	"rand": true, "now": true, "current_time": true, "current_date": true, "expr": true, "expression": true,
	"unnest": true, "convert_tz": true, "case_when": false,
}

func directFns() []directFn {
	directOnce.Do(func() {
		all := functions.ListAll()
		seen := map[string]bool{}
		for key, f := range all {
			switch f.GetType() {
			case functions.TypeAggregation, functions.TypeWindow, functions.TypeAnalytical, functions.TypeDateTime:
				continue
			}
			if directExclude[f.GetName()] || directExclude[key] {
				continue
			}
			if key != f.GetName() { // alias entries: keep the canonical name only
				continue
			}
			if seen[key] {
				continue
			}
			seen[key] = true
			directList = append(directList, directFn{name: key, min: f.GetMinArgs(), max: f.GetMaxArgs()})
		}
		sort.Slice(directList, func(i, j int) bool { return directList[i].name < directList[j].name })
	})
	return directList
}

var longStr = strings.Repeat("ab", 600)

func hostileVals() []gen.Val {
	return []gen.Val{
		gen.Nil(), gen.Str(""), gen.Str("abc"), gen.Str("12"), gen.Str("-5.5"), gen.Str("NaN"), gen.Str("Inf"), gen.Str(" "),
		gen.Str("%"), gen.Str("["), gen.Str("(?"), gen.Str("\\"), gen.Str("a,b"), gen.Str("{\"k\":[1,2]}"), gen.Str("$.k"), gen.Str("zz"),
		gen.Str("base64"), gen.Str("hex"), gen.Str("int"), gen.Str("string"), gen.Str("2024-01-02 03:04:05"), gen.Str(longStr),
		gen.Float(math.NaN()), gen.Float(math.Inf(1)), gen.Float(math.Inf(-1)), gen.Float(1e308), gen.Float(-1e308), gen.Float(5e-324),
		gen.Float(0), gen.Float(-0.5), gen.Float(2.5), gen.Float(1e6), gen.Float(9.3e18), gen.Float(-9.3e18),
		gen.Int(0), gen.Int(1), gen.Int(-1), gen.Int(7), gen.Int(200), gen.Int(1000000), gen.Int(math.MaxInt64), gen.Int(math.MinInt64),
		gen.Int64(math.MaxInt64), gen.Int64(-3), {K: "uint64", U: math.MaxUint64}, {K: "uint8", U: 255}, {K: "int8", I: -128}, {K: "float32", F: "1.5"},
		gen.Bool(true), gen.Bool(false),
		gen.List(gen.Int(1), gen.Str("a"), gen.Nil()), gen.List(), gen.Map(map[string]gen.Val{"k": gen.Int(1)}), gen.Map(map[string]gen.Val{}),
	}
}

func (s *g) inDomainVal(code string) gen.Val {
	switch code {
	case "n", "x":
		if code == "n" && s.pick("dtie", 3) == 0 {
			// exact ties at the decimal places 0, 1 and 2, both signs
			return gen.Float(rapid.SampledFrom([]float64{-2.5, -0.5, -7.5, -0.25, -2.25, -1.125, -0.125, 2.5, 0.5, 0.25, 1.125, 3.5, -3.5, 0.375, -0.375}).Draw(s.t, "dtieval"))
		}
		if s.pick("dn", 2) == 0 {
			return gen.Int(int64(rapid.IntRange(-5, 12).Draw(s.t, "di")))
		}
		return gen.Float(float64(rapid.IntRange(-40, 80).Draw(s.t, "dq")) / 4)
	case "p":
		return gen.Float(float64(rapid.IntRange(0, 80).Draw(s.t, "dp")) / 4)
	case "q":
		return gen.Float(1 + float64(rapid.IntRange(0, 80).Draw(s.t, "dq1"))/4)
	case "k":
		return gen.Int(int64(rapid.IntRange(0, 4).Draw(s.t, "dk")))
	case "i":
		return gen.Int(int64(rapid.IntRange(-2, 3).Draw(s.t, "dii")))
	case "g":
		return gen.Int(int64(rapid.SampledFrom([]int{2, 10, 3}).Draw(s.t, "dg")))
	case "z":
		v := rapid.IntRange(1, 9).Draw(s.t, "dz")
		if s.pick("dzs", 2) == 0 {
			return gen.Int(int64(-v))
		}
		return gen.Float(float64(v) / 2)
	case "s":
		return gen.Str(s.oneOf("ds", strVals))
	case "l":
		return gen.Str(s.oneOf("dl", []string{"a", "b", "ab", "", "x", "0", "0.0", "0.00", " "}))
	case "tn":
		return gen.Str(s.oneOf("dtn", []string{"int", "float", "bigint"}))
	case "ts":
		return gen.Str("string")
	case "e":
		return gen.Str(s.oneOf("de", []string{"base64", "hex", "url"}))
	case "b":
		return gen.Bool(s.pick("db", 2) == 0)
	}
	return gen.Nil()
}

func genFn(s *g) Case {
	c := Case{Mode: "fn"}
	list := directFns()
	var cands []directFn
	for _, f := range list {
		if !s.block["fn:"+f.name] {
			cands = append(cands, f)
		}
	}
	f := cands[s.pick("dfn", len(cands))]
	// one case in eight goes to the rounding family, whose sharp edges (exact ties, negative ties, the decimal place
	// given as second argument) a uniform choice among ~100 functions meets a few times per million cases only
	if s.pick("roundfam", 6) == 0 {
		var fam []directFn
		for _, x := range cands {
			switch x.name {
			case "round", "trunc", "floor", "ceil", "ceiling", "mod", "sign", "abs":
				fam = append(fam, x)
			}
		}
		if len(fam) > 0 {
			f = fam[s.pick("dfam", len(fam))]
		}
	}
	c.Fn = f.name
	hv := hostileVals()
	// in-domain arguments for table functions half of the time
	var spec *fnSpec
	if s.pick("indomain", 2) == 0 {
		var specs []*fnSpec
		for _, t := range fnTable {
			if t.name == f.name {
				specs = append(specs, t)
			}
		}
		if len(specs) > 0 {
			spec = specs[s.pick("spec", len(specs))]
		}
	}
	if spec != nil && s.block[spec.key()] {
		spec = nil // open finding on this documented signature: only the hostile class below, with another arity
	}
	if spec != nil {
		codes := append([]string{}, spec.args...)
		if spec.vmax > 0 {
			for i, n := 0, s.pick("extra", spec.vmax+1); i < n; i++ {
				codes = append(codes, spec.va)
			}
		}
		xs := s.pick("xs", 2) == 0
		for _, code := range codes {
			if code == "x" && xs {
				code = "s"
			}
			c.Args = append(c.Args, s.inDomainVal(code))
		}
		// round(x, d) / trunc(x, d): half of the time the decimal place is the one at which x is an exact tie
		if len(codes) == 2 && codes[0] == "n" && codes[1] == "k" && c.Args[0].K == "float64" && s.pick("tieplace", 2) == 0 {
			if f, ok := gen.ToFloat(c.Args[0].Go()); ok {
				for d := 0; d <= 2; d++ {
					scaled := math.Abs(f) * math.Pow(10, float64(d))
					if scaled-math.Floor(scaled) == 0.5 {
						c.Args[1] = gen.Int(int64(d))
						break
					}
				}
			}
		}
		return c
	}
	n := f.min
	max := f.max
	if max < 0 || max > f.min+2 {
		max = f.min + 2
	}
	if max > n {
		n += s.pick("arity", max-n+1)
	}
	for s.block["fn:"+f.name+"/"+itoa(n)] && n < f.min+3 {
		n++
	}
	for i := 0; i < n; i++ {
		c.Args = append(c.Args, hv[s.pick("hv", len(hv))])
	}
	avoidOpenFnFindings(&c)
	return c
}

// avoidOpenFnFindings replaces the argument an open per-argument finding names by a plain value.
func avoidOpenFnFindings(c *Case) {
	for _, f := range pbt.OpenFindings(prop) {
		parts := strings.Split(f.Feature, ":")
		if len(parts) != 3 || parts[0] != "fn" || parts[1] != c.Fn {
			continue
		}
		for pass := 0; pass < 4 && contains(fnFeatures(*c), f.Feature); pass++ {
			for i := range c.Args {
				probe := *c
				probe.Args = append([]gen.Val{}, c.Args...)
				probe.Args[i] = gen.Int(7)
				if !contains(fnFeatures(probe), f.Feature) {
					c.Args[i] = gen.Int(7)
					break
				}
			}
		}
	}
}

func fnFeatures(c Case) []string {
	out := []string{"fn:" + c.Fn + "/" + itoa(len(c.Args))}
	ints, floats := 0, 0
	for _, a := range c.Args {
		switch a.K {
		case "float32", "float64":
			floats++
		case "nil", "missing", "str", "bool", "list", "map", "":
		default:
			ints++
		}
	}
	if ints > 0 && floats > 0 {
		out = append(out, "fn:"+c.Fn+":intfloat")
	}
	for i, a := range c.Args {
		if a.IsNull() {
			out = append(out, "fn-null-arg", fmt.Sprintf("fn:%s:null%d", c.Fn, i))
		}
		if f, ok := a.Num(); ok && (math.IsNaN(f) || math.IsInf(f, 0)) {
			out = append(out, "fn-nonfinite-arg", "fn:"+c.Fn+":nonfinite")
		}
		if a.K == "list" || a.K == "map" {
			out = append(out, "fn-compound-arg", "fn:"+c.Fn+":compound")
		}
		if a.K == "str" {
			out = append(out, "fn:"+c.Fn+":str"+itoa(i))
		}
		if a.K == "bool" {
			out = append(out, "fn:"+c.Fn+":bool"+itoa(i))
		}
		if f, ok := a.Num(); ok {
			out = append(out, "fn:"+c.Fn+":num"+itoa(i))
			if math.Abs(f) >= 1e15 {
				out = append(out, "fn:"+c.Fn+":huge"+itoa(i))
			}
		}
	}
	return out
}

func cleanArgs(spec *fnSpec, args []gen.Val) ([]rv, bool) {
	codes := append([]string{}, spec.args...)
	for len(codes) < len(args) {
		codes = append(codes, spec.va)
	}
	out := make([]rv, len(args))
	xk := byte(0)
	for i, a := range args {
		if a.IsNull() {
			return nil, false
		}
		v := fromGo(a.Go())
		if v.k == 'n' && (math.IsNaN(v.f) || math.IsInf(v.f, 0) || math.Abs(v.f) > 1e6) {
			return nil, false
		}
		switch codes[i] {
		case "n", "p", "q", "z", "g":
			if v.k != 'n' || a.K == "uint64" {
				return nil, false
			}
		case "k", "i":
			if v.k != 'n' || !v.isInt || math.Abs(v.f) > 4 {
				return nil, false
			}
		case "s", "l", "tn", "ts", "e":
			if v.k != 's' || len(v.s) > 100 {
				return nil, false
			}
		case "x":
			if v.k != 'n' && v.k != 's' {
				return nil, false
			}
			if v.k == 's' {
				if _, err := strconv.ParseFloat(strings.TrimSpace(v.s), 64); err == nil {
					return nil, false // numeric-looking text: the function's ordering convention is not documented
				}
			}
			if xk != 0 && xk != v.k {
				return nil, false
			}
			xk = v.k
		case "b":
			if v.k != 'b' {
				return nil, false
			}
		}
		out[i] = v
	}
	return out, true
}

func runFn(c Case, res *pbt.Result) {
	res.Class("mode:fn")
	goArgs := make([]any, len(c.Args))
	argText := make([]string, len(c.Args))
	for i, a := range c.Args {
		goArgs[i] = a.Go()
		argText[i] = a.String()
		if len(argText[i]) > 60 {
			argText[i] = argText[i][:60] + "..."
		}
	}
	callText := c.Fn + "(" + strings.Join(argText, ", ") + ")"
	out, err, p := execDirect(c.Fn, goArgs)
	if p != nil {
		res.Add(pbt.D("fn:panic", "%s: panic escaped Execute: %v", callText, p))
	}
	if err != nil {
		res.Class("fn:error")
	} else {
		res.Class("fn:value")
	}
	// reference and laws for clean in-domain arguments
	inDomain := false
	for _, spec := range fnTable {
		if spec.name != c.Fn || len(c.Args) < len(spec.args) || len(c.Args) > len(spec.args)+spec.vmax {
			continue
		}
		args, ok := cleanArgs(spec, c.Args)
		if !ok {
			continue
		}
		inDomain = true
		if p != nil {
			break
		}
		if spec.ref != nil {
			want, why := spec.ref(args)
			switch {
			case why == errDomain:
				if err == nil && out != nil {
					if f, isNum := gen.ToFloat(out); !isNum || !(math.IsNaN(f) || math.IsInf(f, 0)) {
						res.Add(pbt.D("fn:value-outside-domain", "%s is outside the function's domain but Execute returned %s", callText, show(out)))
					}
				}
			case why == "":
				if err != nil {
					res.Add(pbt.D("fn:error-in-domain", "%s: expected %s, Execute failed: %v", callText, want, err))
				} else if ok, cat := same(want, out); !ok {
					res.Add(pbt.D("fn:"+cat, "%s: expected %s, Execute returned %s", callText, want, show(out)))
				}
			}
		}
		if spec.laws != nil && err == nil {
			if msg := spec.laws(args, fromGo(out)); msg != "" {
				res.Add(pbt.D("fn:law", "%s", msg))
			}
		}
		break
	}
	if inDomain {
		res.Class("fn:in-domain")
		res.NonTrivial = true
	} else {
		res.Class("fn:hostile")
		res.NonTrivial = len(c.Args) > 0
	}
	// the same call through SQL: columns x1..xk carry the arguments
	row := gen.Row{"id": gen.Int(1)}
	names := make([]string, len(c.Args))
	for i, a := range c.Args {
		names[i] = "x" + itoa(i+1)
		row[names[i]] = a
	}
	sql := "SELECT " + c.Fn + "(" + strings.Join(names, ", ") + ") AS r FROM stream"
	in, oerr := open(sql)
	if oerr != nil {
		if strings.HasPrefix(oerr.Error(), "PANIC") {
			res.Add(pbt.D("fn:sql-panic", "%v for %s", oerr, sql))
		} else {
			res.Class("fn:sql-rejected")
		}
		return
	}
	defer in.s.Stop()
	var obs [2]any
	for k := 0; k < 2; k++ {
		o := in.emit(row)
		if o.panicked != nil {
			res.Add(pbt.D("fn:sql-panic", "panic %v; %s with %s", o.panicked, sql, callText))
			return
		}
		if o.err != nil {
			if strings.Contains(o.err.Error(), "aggregation") {
				res.Class("fn:sql-rejected-sync")
				return
			}
			obs[k] = nil
			continue
		}
		if o.res == nil {
			res.Add(pbt.D("fn:sql-no-result", "%s returned no row for %s", sql, callText))
			return
		}
		obs[k] = o.res["r"]
	}
	if !obsEqual(obs[0], obs[1]) {
		res.Add(pbt.D("fn:history", "%s with %s: first evaluation %s, second %s", sql, callText, show(obs[0]), show(obs[1])))
	}
	if p != nil {
		return
	}
	if err != nil {
		if obs[0] != nil {
			res.Add(pbt.D("fn:sql-value-on-error", "%s: Execute fails (%v) but %s yields %s", callText, err, sql, show(obs[0])))
		}
		return
	}
	if !obsEqual(obs[0], out) && fmt.Sprint(obs[0]) != fmt.Sprint(out) {
		res.Add(pbt.D("fn:sql-differs", "%s: Execute returns %s but %s yields %s", callText, show(out), sql, show(obs[0])))
	}
}
