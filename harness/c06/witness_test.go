package c06

import (
	"encoding/json"
	"fmt"
	"math"
	"os"
	"sort"
	"testing"

	"verifharness/internal/gen"
)

// hand-built witness cases for the proposed findings (development aid: WITNESS=1 prints them as JSON together
// with the discrepancies and features they produce on the current tree).

func wrow(id int, a, b, s, u, f gen.Val) gen.Row {
	return gen.Row{"id": gen.Int(int64(id)), "a": a, "b": b, "s": s, "u": u, "f": f, "n": gen.Nil()}
}

func cmpN(op string, l, r *Node) *Node { return bin("cmp", op, "b", l, r) }
func ari(op string, l, r *Node) *Node  { return bin("ari", op, "n", l, r) }
func searched(t string, ks ...*Node) *Node {
	return &Node{Op: "case", T: t, K: ks, E: len(ks)%2 == 1}
}

func witnessCases() map[string]Case {
	basic := wrow(1, gen.Int(7), gen.Float(2.5), gen.Str("abc"), gen.Str("Xy"), gen.Bool(true))
	second := wrow(2, gen.Float(2.5), gen.Int(3), gen.Str(""), gen.Str("q"), gen.Bool(false))
	absentA := wrow(1, gen.Missing(), gen.Int(3), gen.Str("abc"), gen.Str("q"), gen.Bool(true))
	nullA := wrow(1, gen.Nil(), gen.Int(3), gen.Str("abc"), gen.Str("q"), gen.Bool(true))
	w := map[string]Case{}
	mk := func(id string, e *Node, ctxs []string, wrap string, lower bool, rows ...gen.Row) {
		perm := make([]int, len(rows))
		for i := range perm {
			perm[i] = i
		}
		w[id] = Case{Mode: "expr", Expr: normalize(e), Ctxs: ctxs, Wrap: wrap, Lower: lower, Rows: rows, Perm: perm}
	}
	mk("F-C06-OPERATORLESS", numLit("5"), []string{"select"}, "abs", false, basic)
	mk("F-C06-CASEBRIDGE", searched("n", cmpN(">", call("abs", "n", col("a", "n")), numLit("3")), numLit("1"), numLit("0")), []string{"select"}, "abs", false, basic)
	mk("F-C06-CASEOPERAND", ari("+", numLit("1"), searched("n", cmpN(">", col("a", "n"), numLit("3")), numLit("1"), numLit("0"))), []string{"select"}, "abs", false, basic)
	mk("F-C06-SQLOPS", bin("and", "", "b", cmpN(">", col("a", "n"), numLit("3")), cmpN(">", col("b", "n"), numLit("2"))), []string{"paren"}, "coalesce:false", false, basic)
	mk("F-C06-CALLTAIL", ari("+", call("power", "n", col("a", "n"), numLit("2")), call("mod", "n", col("a", "n"), numLit("4"))), []string{"select"}, "abs", false, basic)
	mk("F-C06-NOTWHERE", &Node{Op: "not", T: "b", K: []*Node{cmpN(">", col("a", "n"), numLit("5"))}}, []string{"where"}, "coalesce:false", false, second)
	mk("F-C06-NOTHAND", &Node{Op: "not", T: "b", K: []*Node{col("f", "b")}}, []string{"when"}, "coalesce:false", true, second)
	mk("F-C06-HANDABSENT", searched("s", cmpN(">", col("a", "n"), numLit("3")), strLit("x"), strLit("y")), []string{"select"}, "upper", false, absentA)
	mk("F-C06-EQNULL", cmpN("!=", col("a", "n"), numLit("5")), []string{"where"}, "coalesce:false", false, absentA)
	mk("F-C06-NILERR", bin("or", "", "b", cmpN(">", col("n", "n"), numLit("3")), cmpN(">", col("a", "n"), numLit("3"))), []string{"where"}, "coalesce:false", false, basic)
	mk("F-C06-EXECTEXT", col("a", "n"), []string{"arg"}, "if_null:-9999", false, absentA)
	mk("F-C06-EXECQUOTE", cmpN("==", strLit("END"), strLit("abc")), []string{"arg"}, "if_null:false", false, basic)
	mk("F-C06-FALLBACKBUILTIN", call("round", "n", col("a", "n"), numLit("0")), []string{"arg"}, "abs", false, nullA)
	mk("F-C06-NUMTEXT", cmpN(">=", strLit("b"), col("u", "s")), []string{"when"}, "coalesce:false", false, wrow(1, gen.Int(1), gen.Int(1), gen.Str("ab"), gen.Str("10"), gen.Bool(true)))
	mk("F-C06-NEGAFTEROP", cmpN(">", col("a", "n"), &Node{Op: "neg", T: "n", K: []*Node{col("a", "n")}}), []string{"when"}, "coalesce:false", false, basic)
	mk("F-C06-NESTEDNULLARITH", cmpN("==", ari("-", ari("-", col("a", "n"), col("n", "n")), numLit("3")), numLit("1")), []string{"when"}, "coalesce:false", false, basic)
	mk("F-C06-PARENLIT", cmpN("==", col("s", "s"), strLit("it)")), []string{"when"}, "coalesce:false", false, wrow(1, gen.Int(1), gen.Int(1), gen.Str("it)"), gen.Str("q"), gen.Bool(true)))
	mk("F-C06-NULLIF", call("null_if", "n", numLit("0"), col("a", "n")), []string{"select"}, "abs", false, wrow(1, gen.Int(0), gen.Int(1), gen.Str("x"), gen.Str("q"), gen.Bool(true)))
	mk("F-C06-SCASENULL", &Node{Op: "scase", T: "n", E: true, K: []*Node{col("s", "s"), col("s", "s"), col("a", "n"), col("b", "n")}}, []string{"select"}, "abs", false, wrow(1, gen.Int(-2), gen.Float(-0.5), gen.Nil(), gen.Str("q"), gen.Bool(true)))
	mk("F-C06-LOG2", call("log", "n", numLit("2"), numLit("8")), []string{"select"}, "abs", false, basic)
	mk("F-C06-TRUNC1", call("trunc", "n", numLit("2.5")), []string{"select"}, "abs", false, basic)
	mk("F-C06-MIXEDCASEFN", call("abs", "n", ari("-", col("a", "n"), numLit("10"))), []string{"select"}, "abs", false, basic)
	if c := w["F-C06-MIXEDCASEFN"]; true {
		c.Title = true
		w["F-C06-MIXEDCASEFN"] = c
	}
	// ill-typed: the value for the f=true row depends on which row the process-wide program cache saw first
	ill := Case{Mode: "ill", Ctxs: []string{"select"}, Wrap: "coalesce:false", Lower: true,
		Expr: normalize(bin("and", "", "b", cmpN("==", col("f", "s"), call("concat", "s", col("s", "s"), col("s", "s"))),
			bin("and", "", "b", call("startswith", "b", col("f", "s"), strLit("a")), cmpN("==", strLit("a+b"), col("f", "s"))))),
		Rows: []gen.Row{wrow(1, gen.Int(0), gen.Int(1), gen.Nil(), gen.Nil(), gen.Bool(true)), wrow(2, gen.Int(0), gen.Int(1), gen.Nil(), gen.Nil(), gen.Missing())},
		Perm: []int{1, 0}}
	w["F-C06-ILLHISTORY"] = ill
	w["F-C06-NULLIF-FN"] = Case{Mode: "fn", Fn: "null_if", Args: []gen.Val{gen.Int(2), gen.Float(2)}}
	w["F-C06-LPADPANIC"] = Case{Mode: "fn", Fn: "lpad", Args: []gen.Val{gen.Str("abc"), gen.Int(math.MaxInt64), gen.Str("abc")}}
	w["F-C06-RPADPANIC"] = Case{Mode: "fn", Fn: "rpad", Args: []gen.Val{gen.Str("abc"), gen.Int(math.MaxInt64), gen.Str("abc")}}
	return w
}

func TestShowWitnesses(t *testing.T) {
	if os.Getenv("WITNESS") == "" {
		t.Skip()
	}
	ws := witnessCases()
	ids := make([]string, 0, len(ws))
	for id := range ws {
		ids = append(ids, id)
	}
	sort.Strings(ids)
	out := map[string]json.RawMessage{}
	for _, id := range ids {
		c := ws[id]
		// JSON round trip, as the framework does
		b, _ := json.Marshal(c)
		var c2 Case
		if err := json.Unmarshal(b, &c2); err != nil {
			t.Fatal(err)
		}
		r := runCase(c2)
		fmt.Printf("%s  features=%v\n", id, features(c2))
		if c2.Mode != "fn" {
			for _, ctx := range c2.Ctxs {
				fmt.Printf("    %s  [%s]\n", sqlFor(ctx, c2), routeOf(ctx, &c2))
			}
		}
		for _, d := range r.Discs {
			fmt.Printf("    %s: %.200s\n", d.Kind, d.Detail)
		}
		out[id] = b
	}
	if p := os.Getenv("WITNESS_OUT"); p != "" {
		b, _ := json.MarshalIndent(out, "", " ")
		_ = os.WriteFile(p, b, 0o644)
	}
}
