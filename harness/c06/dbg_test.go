package c06

import (
	"fmt"
	"os"
	"strings"
	"testing"

	exprlang "github.com/expr-lang/expr"
	hexpr "github.com/rulego/streamsql/expr"
	"github.com/rulego/streamsql/functions"
	"github.com/rulego/streamsql/rsql"
)

func TestDbgBridge(t *testing.T) {
	e := os.Getenv("DBG")
	if e == "" {
		t.Skip()
	}
	for _, x := range strings.Split(e, ";;") {
		for _, data := range []map[string]any{{"n": nil, "a": 7, "b": 2.5, "s": "abc", "f": true}, {"a": 2.5, "b": 3, "s": "", "f": false}} {
			r, err := functions.GetExprBridge().EvaluateExpression(x, data)
			fmt.Printf("%-40s %v -> %#v err=%v\n", x, data, r, err)
		}
	}
}

func TestDbgHand(t *testing.T) {
	e := os.Getenv("DBGH")
	if e == "" {
		t.Skip()
	}
	for _, x := range strings.Split(e, ";;") {
		ex, err := hexpr.NewExpression(x)
		if err != nil {
			fmt.Printf("%-50s PARSE ERR %v\n", x, err)
			continue
		}
		for _, data := range []map[string]any{{"n": nil, "a": 7, "b": 2.5, "s": "abc", "f": true}} {
			r, isNull, err := ex.EvaluateValueWithNull(data)
			fmt.Printf("%-50s -> %#v null=%v err=%v\n", x, r, isNull, err)
		}
	}
}

func TestDbgParse(t *testing.T) {
	e := os.Getenv("DBGP")
	if e == "" {
		t.Skip()
	}
	for _, x := range strings.Split(e, ";;") {
		cfg, cond, err := rsql.Parse(x)
		if err != nil {
			fmt.Printf("%s\n  ERR %v\n", x, err)
			continue
		}
		fmt.Printf("%s\n  simple=%q\n  exprs=%+v\n  select=%v alias=%v cond=%q needWindow=%v\n", x, cfg.SimpleFields, cfg.FieldExpressions, cfg.SelectFields, cfg.FieldAlias, cond, cfg.NeedWindow)
	}
}

func TestDbgEval(t *testing.T) {
	e := os.Getenv("DBGE")
	if e == "" {
		t.Skip()
	}
	b := functions.GetExprBridge()
	for _, x := range strings.Split(e, ";;") {
		data := map[string]any{"n": nil, "a": 7, "b": 2.5, "s": "abc", "f": true}
		prog, err := b.CompileExpressionWithStreamSQLFunctions(x, data)
		fmt.Printf("%s\n  compile err=%v\n", x, err)
		if err == nil {
			r, err := exprlang.Run(prog, data)
			fmt.Printf("  run -> %#v err=%v\n", r, err)
		}
		env := b.CreateEnhancedExprEnvironment(data)
		r, err := exprlang.Eval(x, env)
		fmt.Printf("  eval(env) -> %#v err=%v\n", r, err)
	}
}
