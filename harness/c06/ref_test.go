package c06

import (
	"fmt"
	"math"
	"strconv"

	"verifharness/internal/gen"
)

// rv is a value of the reference interpreter.
//
//	k: 'N' NULL, 'n' number, 's' text, 'b' boolean (tv 1 true / 0 false / -1 unknown), 'o' other (raw Go value in o)
type rv struct {
	k     byte
	f     float64
	isInt bool
	s     string
	tv    int8
	o     any
}

var (
	rNull    = rv{k: 'N'}
	rTrue    = rv{k: 'b', tv: 1}
	rFalse   = rv{k: 'b', tv: 0}
	rUnknown = rv{k: 'b', tv: -1}
)

func rNum(f float64) rv { return rv{k: 'n', f: f, isInt: f == math.Trunc(f) && math.Abs(f) < 1e15} }
func rFlt(f float64) rv { return rv{k: 'n', f: f} }
func rStr(s string) rv  { return rv{k: 's', s: s} }
func rBool(b bool) rv {
	if b {
		return rTrue
	}
	return rFalse
}
func (v rv) null() bool { return v.k == 'N' || (v.k == 'b' && v.tv == -1) }

func (v rv) String() string {
	switch v.k {
	case 'N':
		return "NULL"
	case 'n':
		return strconv.FormatFloat(v.f, 'g', -1, 64)
	case 's':
		return strconv.Quote(v.s)
	case 'b':
		switch v.tv {
		case 1:
			return "TRUE"
		case 0:
			return "FALSE"
		}
		return "UNKNOWN"
	}
	return fmt.Sprintf("%#v", v.o)
}

// goVal converts to the Go value handed to functions.Execute.
func (v rv) goVal() any {
	switch v.k {
	case 'n':
		if v.isInt {
			return int(v.f)
		}
		return v.f
	case 's':
		return v.s
	case 'b':
		if v.tv == -1 {
			return nil
		}
		return v.tv == 1
	case 'o':
		return v.o
	}
	return nil
}

func fromGo(x any) rv {
	switch t := x.(type) {
	case nil:
		return rNull
	case bool:
		return rBool(t)
	case string:
		return rStr(t)
	}
	if f, ok := gen.ToFloat(x); ok {
		r := rFlt(f)
		switch x.(type) {
		case float32, float64:
		default:
			r.isInt = true
		}
		return r
	}
	return rv{k: 'o', o: x}
}

func fromVal(v gen.Val, t string) rv {
	if v.IsNull() {
		if t == "b" {
			return rUnknown
		}
		return rNull
	}
	return fromGo(v.Go())
}

// evalCtx carries per-row evaluation state.
type evalCtx struct {
	row     gen.Row
	sawErr  bool         // an error / out-of-domain / non-finite value occurred somewhere: only the weak oracle applies
	why     string       // first reason
	diffFn  bool         // a differential (Execute-defined) function value was used
	tr      map[*Node]rv // optional trace: value of every node
	negZero bool         // float64 arithmetic produced -0 (normalised to 0): text renderings of it are not compared
}

func (c *evalCtx) fail(format string, a ...any) rv {
	if !c.sawErr {
		c.sawErr = true
		c.why = fmt.Sprintf(format, a...)
	}
	return rNull
}

func typedNull(t string) rv {
	if t == "b" {
		return rUnknown
	}
	return rNull
}

// eval is the reference interpreter: SQL semantics over float64, Kleene logic, eager (no short circuit,
// so that an error anywhere marks the row as weak-oracle only).
func (c *evalCtx) eval(n *Node) rv {
	v := c.eval1(n)
	if c.tr != nil {
		c.tr[n] = v
	}
	return v
}

func (c *evalCtx) eval1(n *Node) rv {
	switch n.Op {
	case "col":
		v, ok := c.row[n.V]
		if !ok {
			return typedNull(n.T)
		}
		r := fromVal(v, n.T)
		if r.k == 'n' && (math.IsNaN(r.f) || math.IsInf(r.f, 0)) {
			c.fail("non-finite column %s", n.V)
		}
		return r
	case "num":
		f, err := strconv.ParseFloat(n.V, 64)
		if err != nil {
			return c.fail("bad literal %q", n.V)
		}
		r := rFlt(f)
		r.isInt = isIntLit(n.V)
		return r
	case "str":
		return rStr(n.V)
	case "par":
		return c.eval(n.K[0])
	case "neg":
		x := c.eval(n.K[0])
		if x.null() {
			return rNull
		}
		if x.k != 'n' {
			return c.fail("neg of non-number")
		}
		x.f = -x.f
		return x
	case "ari":
		l, r := c.eval(n.K[0]), c.eval(n.K[1])
		if l.null() || r.null() {
			return rNull
		}
		if l.k != 'n' || r.k != 'n' {
			return c.fail("arithmetic on non-numbers")
		}
		var f float64
		isInt := l.isInt && r.isInt
		switch n.V {
		case "+":
			f = l.f + r.f
		case "-":
			f = l.f - r.f
		case "*":
			f = l.f * r.f
		case "/":
			if r.f == 0 {
				return c.fail("division by zero")
			}
			f = l.f / r.f
			isInt = false
		default:
			return c.fail("unknown operator %s", n.V)
		}
		if math.IsNaN(f) || math.IsInf(f, 0) || math.Abs(f) > 1e15 {
			return c.fail("non-finite or huge arithmetic result")
		}
		if f == 0 {
			if math.Signbit(f) {
				c.negZero = true
			}
			f = 0 // no negative zero: its sign is not part of the property
		}
		return rv{k: 'n', f: f, isInt: isInt && f == math.Trunc(f)}
	case "cmp":
		l, r := c.eval(n.K[0]), c.eval(n.K[1])
		if l.null() || r.null() {
			return rUnknown
		}
		var cv int
		switch {
		case l.k == 'n' && r.k == 'n':
			switch {
			case l.f < r.f:
				cv = -1
			case l.f > r.f:
				cv = 1
			}
		case l.k == 's' && r.k == 's':
			switch {
			case l.s < r.s:
				cv = -1
			case l.s > r.s:
				cv = 1
			}
		case l.k == 'b' && r.k == 'b':
			cv = int(l.tv) - int(r.tv)
		default:
			c.fail("comparison of different kinds")
			return rUnknown
		}
		switch n.V {
		case "=", "==":
			return rBool(cv == 0)
		case "!=", "<>":
			return rBool(cv != 0)
		case "<":
			return rBool(cv < 0)
		case "<=":
			return rBool(cv <= 0)
		case ">":
			return rBool(cv > 0)
		case ">=":
			return rBool(cv >= 0)
		}
		c.fail("unknown comparison %s", n.V)
		return rUnknown
	case "and":
		l, r := c.truth(n.K[0]), c.truth(n.K[1])
		switch {
		case l == 0 || r == 0:
			return rFalse
		case l == 1 && r == 1:
			return rTrue
		}
		return rUnknown
	case "or":
		l, r := c.truth(n.K[0]), c.truth(n.K[1])
		switch {
		case l == 1 || r == 1:
			return rTrue
		case l == 0 && r == 0:
			return rFalse
		}
		return rUnknown
	case "not":
		switch c.truth(n.K[0]) {
		case 1:
			return rFalse
		case 0:
			return rTrue
		}
		return rUnknown
	case "isnull":
		return rBool(c.eval(n.K[0]).null())
	case "notnull":
		return rBool(!c.eval(n.K[0]).null())
	case "case":
		m := len(n.K)
		if n.E {
			m--
		}
		// eager evaluation of everything (error detection), then selection
		vals := make([]rv, len(n.K))
		for i, k := range n.K {
			vals[i] = c.eval(k)
		}
		for i := 0; i+1 < m; i += 2 {
			if vals[i].k == 'b' && vals[i].tv == 1 {
				return vals[i+1]
			}
		}
		if n.E {
			return vals[len(vals)-1]
		}
		return typedNull(n.T)
	case "scase":
		m := len(n.K)
		if n.E {
			m--
		}
		vals := make([]rv, len(n.K))
		for i, k := range n.K {
			vals[i] = c.eval(k)
		}
		subj := vals[0]
		for i := 1; i+1 < m; i += 2 {
			w := vals[i]
			if subj.null() || w.null() {
				continue
			}
			eq := false
			switch {
			case subj.k == 'n' && w.k == 'n':
				eq = subj.f == w.f
			case subj.k == 's' && w.k == 's':
				eq = subj.s == w.s
			case subj.k == 'b' && w.k == 'b':
				eq = subj.tv == w.tv
			default:
				c.fail("simple CASE compares different kinds")
			}
			if eq {
				return vals[i+1]
			}
		}
		if n.E {
			return vals[len(vals)-1]
		}
		return typedNull(n.T)
	case "call":
		return c.evalCall(n)
	}
	return c.fail("unknown node %s", n.Op)
}

func (c *evalCtx) truth(n *Node) int8 {
	v := c.eval(n)
	if v.k == 'b' {
		return v.tv
	}
	if v.k == 'N' {
		return -1
	}
	c.fail("non-boolean operand of logic operator")
	return -1
}

func isIntLit(s string) bool {
	for i, ch := range s {
		if ch == '-' && i == 0 {
			continue
		}
		if ch < '0' || ch > '9' {
			return false
		}
	}
	return true
}
