package c06

import (
	"crypto/md5"
	"crypto/sha1"
	"crypto/sha256"
	"crypto/sha512"
	"fmt"
	"math"
	"strconv"
	"strings"
	"unicode/utf8"

	"github.com/rulego/streamsql/functions"
	"verifharness/internal/gen"
)

// fnSpec describes one deterministic built-in scalar function for the generator and the oracle.
//
// Arg codes: n numeric expr, s text expr, b boolean expr, x numeric or text expr (same kind for all x of a call),
// p numeric expr >= 0 (abs(..)), q numeric expr >= 1 (abs(..) + 1), k small non-negative int literal,
// i small int literal (may be negative), z non-zero numeric literal, t cast type name literal,
// e encoding name literal, r regexp literal, l small text literal
type fnSpec struct {
	name string
	args []string // codes for the fixed parameters
	va   string   // code of additional variadic parameters ("" none)
	vmax int      // max number of extra variadic args
	ret  string   // n s b; "x" = same kind as the x arguments
	// ref computes the documented / ordinary-SQL value from non-erroneous arguments. nil => differential:
	// functions.Get(name).Execute(args) is the definition.
	ref func(a []rv) (rv, string)
	// nullStrict: any NULL argument gives NULL without consulting ref (ordinary SQL for math functions; the
	// engine reports an error for them, which the SELECT path turns into NULL).
	nullStrict bool
	// nullDiff: with a NULL argument the value is taken from Execute (guide is silent, SQL dialects differ).
	nullDiff bool
	// laws checked in the direct function mode
	laws func(a []rv, out rv) string
}

const errDomain = "domain"

func num1(f func(x float64) (float64, bool)) func(a []rv) (rv, string) {
	return func(a []rv) (rv, string) {
		if a[0].k != 'n' {
			return rNull, "kind"
		}
		y, ok := f(a[0].f)
		if !ok || math.IsNaN(y) || math.IsInf(y, 0) {
			return rNull, errDomain
		}
		return rFlt(y), ""
	}
}

func num2(f func(x, y float64) (float64, bool)) func(a []rv) (rv, string) {
	return func(a []rv) (rv, string) {
		if a[0].k != 'n' || a[1].k != 'n' {
			return rNull, "kind"
		}
		y, ok := f(a[0].f, a[1].f)
		if !ok || math.IsNaN(y) || math.IsInf(y, 0) {
			return rNull, errDomain
		}
		return rFlt(y), ""
	}
}

func str1(f func(s string) string) func(a []rv) (rv, string) {
	return func(a []rv) (rv, string) {
		if a[0].k != 's' {
			return rNull, "kind"
		}
		return rStr(f(a[0].s)), ""
	}
}

func always(f func(x float64) float64) func(x float64) (float64, bool) {
	return func(x float64) (float64, bool) { return f(x), true }
}

func hashRef(h func(string) string) func(a []rv) (rv, string) {
	return func(a []rv) (rv, string) {
		if a[0].k != 's' {
			return rNull, "kind"
		}
		return rStr(h(a[0].s)), ""
	}
}

func extremum(greatest bool) func(a []rv) (rv, string) {
	return func(a []rv) (rv, string) {
		best := a[0]
		for _, x := range a[1:] {
			if x.k != best.k {
				return rNull, "kind"
			}
			switch x.k {
			case 'n':
				if (greatest && x.f > best.f) || (!greatest && x.f < best.f) {
					best = x
				}
			case 's':
				// the guide only says "the largest / smallest of the arguments"; the function's own definition
				// compares two texts numerically when both read as numbers ("10" > "2.00") and as text otherwise
				xf, e1 := strconv.ParseFloat(x.s, 64)
				bf, e2 := strconv.ParseFloat(best.s, 64)
				if e1 == nil && e2 == nil {
					if xf == bf {
						return rNull, "numeric-text-tie" // which of two equal-valued spellings is returned is not fixed
					}
					if (greatest && xf > bf) || (!greatest && xf < bf) {
						best = x
					}
				} else if (greatest && x.s > best.s) || (!greatest && x.s < best.s) {
					best = x
				}
			default:
				return rNull, "kind"
			}
		}
		return best, ""
	}
}

var fnTable = []*fnSpec{
	// ---- math: value fixed by the guide / mathematics ----
	{name: "abs", args: []string{"n"}, ret: "n", ref: num1(always(math.Abs)), nullStrict: true},
	{name: "sqrt", args: []string{"p"}, ret: "n", ref: num1(func(x float64) (float64, bool) { return math.Sqrt(x), x >= 0 }), nullStrict: true},
	{name: "power", args: []string{"n", "k"}, ret: "n", ref: num2(func(x, y float64) (float64, bool) { return math.Pow(x, y), true }), nullStrict: true},
	{name: "floor", args: []string{"n"}, ret: "n", ref: num1(always(math.Floor)), nullStrict: true},
	{name: "ceiling", args: []string{"n"}, ret: "n", ref: num1(always(math.Ceil)), nullStrict: true},
	{name: "sign", args: []string{"n"}, ret: "n", ref: num1(func(x float64) (float64, bool) {
		switch {
		case x > 0:
			return 1, true
		case x < 0:
			return -1, true
		}
		return 0, true
	}), nullStrict: true},
	{name: "mod", args: []string{"n", "z"}, ret: "n", ref: num2(func(x, y float64) (float64, bool) { return math.Mod(x, y), y != 0 }), nullStrict: true},
	{name: "exp", args: []string{"i"}, ret: "n", ref: num1(always(math.Exp)), nullStrict: true},
	{name: "ln", args: []string{"q"}, ret: "n", ref: num1(func(x float64) (float64, bool) { return math.Log(x), x > 0 }), nullStrict: true},
	{name: "log10", args: []string{"q"}, ret: "n", ref: num1(func(x float64) (float64, bool) { return math.Log10(x), x > 0 }), nullStrict: true},
	{name: "log2", args: []string{"q"}, ret: "n", ref: num1(func(x float64) (float64, bool) { return math.Log2(x), x > 0 }), nullStrict: true},
	{name: "sin", args: []string{"n"}, ret: "n", ref: num1(always(math.Sin)), nullStrict: true},
	{name: "cos", args: []string{"n"}, ret: "n", ref: num1(always(math.Cos)), nullStrict: true},
	{name: "atan", args: []string{"n"}, ret: "n", ref: num1(always(math.Atan)), nullStrict: true},
	{name: "tanh", args: []string{"n"}, ret: "n", ref: num1(always(math.Tanh)), nullStrict: true},
	// round: half-way convention not stated by the guide -> differential + law |round(x)-x| <= 0.5, integer result
	{name: "round", args: []string{"n"}, ret: "n", nullStrict: true, laws: func(a []rv, out rv) string {
		if a[0].k == 'n' && out.k == 'n' && (math.Abs(out.f-a[0].f) > 0.5+1e-9 || out.f != math.Trunc(out.f)) {
			return fmt.Sprintf("round(%v)=%v is not the nearest integer", a[0].f, out.f)
		}
		return ""
	}},
	// round(x, d): differential as well, plus laws that hold for every half-way convention a function could document:
	// the result is x rounded at the d-th decimal (within half a unit of that place), round(-x, d) = -round(x, d)
	// (the one-argument form rounds half away from zero, so the sign must not matter), and round(x, 0) = round(x)
	{name: "round", args: []string{"n", "k"}, ret: "n", laws: func(a []rv, out rv) string {
		if a[0].k != 'n' || a[1].k != 'n' || out.k != 'n' || a[1].f < 0 || a[1].f > 6 || math.Abs(a[0].f) > 1e9 {
			return ""
		}
		x, d := a[0].f, a[1].f
		shift := math.Pow(10, d)
		if math.Abs(out.f*shift-x*shift) > 0.5+1e-6 || math.Abs(out.f*shift-math.Round(out.f*shift)) > 1e-6 {
			return fmt.Sprintf("round(%v, %v)=%v is not %v rounded at decimal %v", x, d, out.f, x, d)
		}
		fn, ok := functions.Get("round")
		if !ok {
			return ""
		}
		if neg, err := fn.Execute(&functions.FunctionContext{}, []any{-x, d}); err == nil {
			if nf, ok := gen.ToFloat(neg); ok && math.Abs(nf+out.f) > 1e-9 {
				return fmt.Sprintf("round(%v, %v)=%v but round(%v, %v)=%v: the sign changes the rounding", x, d, out.f, -x, d, nf)
			}
		}
		if d == 0 {
			if one, err := fn.Execute(&functions.FunctionContext{}, []any{x}); err == nil {
				if of, ok := gen.ToFloat(one); ok && math.Abs(of-out.f) > 1e-9 {
					return fmt.Sprintf("round(%v, 0)=%v but round(%v)=%v", x, out.f, x, of)
				}
			}
		}
		return ""
	}},
	// the guide documents log(base, number) and trunc(number, [precision])
	{name: "log", args: []string{"g", "q"}, ret: "n", ref: num2(func(b, x float64) (float64, bool) { return math.Log(x) / math.Log(b), b > 0 && b != 1 && x > 0 }), nullStrict: true},
	{name: "trunc", args: []string{"n"}, ret: "n", ref: num1(always(math.Trunc)), nullStrict: true},
	{name: "trunc", args: []string{"n", "k"}, ret: "n"},
	// ---- text ----
	{name: "upper", args: []string{"s"}, ret: "s", ref: str1(strings.ToUpper), nullDiff: true},
	{name: "lower", args: []string{"s"}, ret: "s", ref: str1(strings.ToLower), nullDiff: true},
	{name: "trim", args: []string{"s"}, ret: "s", ref: str1(func(s string) string { return strings.Trim(s, " ") }), nullDiff: true},
	{name: "ltrim", args: []string{"s"}, ret: "s", ref: str1(func(s string) string { return strings.TrimLeft(s, " ") }), nullDiff: true},
	{name: "rtrim", args: []string{"s"}, ret: "s", ref: str1(func(s string) string { return strings.TrimRight(s, " ") }), nullDiff: true},
	{name: "length", args: []string{"s"}, ret: "n", ref: func(a []rv) (rv, string) {
		if a[0].k != 's' {
			return rNull, "kind"
		}
		return rNum(float64(len(a[0].s))), ""
	}, nullDiff: true},
	{name: "concat", args: []string{"s"}, va: "s", vmax: 2, ret: "s", ref: func(a []rv) (rv, string) {
		var sb strings.Builder
		for _, x := range a {
			if x.k != 's' {
				return rNull, "kind"
			}
			sb.WriteString(x.s)
		}
		return rStr(sb.String()), ""
	}, nullDiff: true},
	{name: "startswith", args: []string{"s", "l"}, ret: "b", ref: func(a []rv) (rv, string) {
		if a[0].k != 's' || a[1].k != 's' {
			return rNull, "kind"
		}
		return rBool(strings.HasPrefix(a[0].s, a[1].s)), ""
	}, nullDiff: true},
	{name: "endswith", args: []string{"s", "l"}, ret: "b", ref: func(a []rv) (rv, string) {
		if a[0].k != 's' || a[1].k != 's' {
			return rNull, "kind"
		}
		return rBool(strings.HasSuffix(a[0].s, a[1].s)), ""
	}, nullDiff: true},
	// conventions not fixed by the guide: differential
	{name: "substring", args: []string{"s", "k"}, ret: "s", nullDiff: true},
	{name: "substring", args: []string{"s", "k", "k"}, ret: "s", nullDiff: true, laws: func(a []rv, out rv) string {
		// (a negative length yields the empty text; lengths count characters, not bytes)
		if a[0].k == 's' && a[2].k == 'n' && out.k == 's' && (float64(utf8.RuneCountInString(out.s)) > math.Max(a[2].f, 0) || !strings.Contains(a[0].s, out.s)) {
			return fmt.Sprintf("substring(%q,%v,%v)=%q is not a substring of at most that length", a[0].s, a[1].f, a[2].f, out.s)
		}
		return ""
	}},
	{name: "indexof", args: []string{"s", "l"}, ret: "n", nullDiff: true},
	{name: "replace", args: []string{"s", "l", "l"}, ret: "s", nullDiff: true, laws: func(a []rv, out rv) string {
		if a[0].k == 's' && a[1].k == 's' && a[2].k == 's' && a[1].s == a[2].s && out.k == 's' && out.s != a[0].s {
			return fmt.Sprintf("replace(%q,x,x) with x=%q gives %q", a[0].s, a[1].s, out.s)
		}
		return ""
	}},
	{name: "lpad", args: []string{"s", "k", "l"}, ret: "s", nullDiff: true},
	{name: "rpad", args: []string{"s", "k", "l"}, ret: "s", nullDiff: true},
	// ---- hash: value fixed by the algorithm ----
	{name: "md5", args: []string{"s"}, ret: "s", ref: hashRef(func(s string) string { return fmt.Sprintf("%x", md5.Sum([]byte(s))) }), nullStrict: true},
	{name: "sha1", args: []string{"s"}, ret: "s", ref: hashRef(func(s string) string { return fmt.Sprintf("%x", sha1.Sum([]byte(s))) }), nullStrict: true},
	{name: "sha256", args: []string{"s"}, ret: "s", ref: hashRef(func(s string) string { return fmt.Sprintf("%x", sha256.Sum256([]byte(s))) }), nullStrict: true},
	{name: "sha512", args: []string{"s"}, ret: "s", ref: hashRef(func(s string) string { return fmt.Sprintf("%x", sha512.Sum512([]byte(s))) }), nullStrict: true},
	// ---- conditional (NULL handling is their definition) ----
	{name: "coalesce", args: []string{"x"}, va: "x", vmax: 2, ret: "x", ref: func(a []rv) (rv, string) {
		for _, x := range a {
			if !x.null() {
				return x, ""
			}
		}
		return rNull, ""
	}},
	{name: "if_null", args: []string{"x", "x"}, ret: "x", ref: func(a []rv) (rv, string) {
		if a[0].null() {
			return a[1], ""
		}
		return a[0], ""
	}},
	{name: "null_if", args: []string{"x", "x"}, ret: "x", ref: func(a []rv) (rv, string) {
		if a[0].null() {
			return rNull, ""
		}
		if a[1].null() {
			return a[0], ""
		}
		if a[0].k != a[1].k {
			return rNull, "kind"
		}
		if (a[0].k == 'n' && a[0].f == a[1].f) || (a[0].k == 's' && a[0].s == a[1].s) {
			return rNull, ""
		}
		return a[0], ""
	}},
	{name: "greatest", args: []string{"x", "x"}, va: "x", vmax: 1, ret: "x", ref: extremum(true), nullDiff: true},
	{name: "least", args: []string{"x", "x"}, va: "x", vmax: 1, ret: "x", ref: extremum(false), nullDiff: true},
	// ---- type tests ----
	{name: "is_null", args: []string{"x"}, ret: "b", ref: func(a []rv) (rv, string) { return rBool(a[0].null()), "" }},
	{name: "is_not_null", args: []string{"x"}, ret: "b", ref: func(a []rv) (rv, string) { return rBool(!a[0].null()), "" }},
	{name: "is_numeric", args: []string{"x"}, ret: "b", ref: func(a []rv) (rv, string) { return rBool(a[0].k == 'n'), "" }},
	{name: "is_string", args: []string{"x"}, ret: "b", ref: func(a []rv) (rv, string) { return rBool(a[0].k == 's'), "" }},
	// ---- conversion: differential ----
	{name: "cast", args: []string{"n", "tn"}, ret: "n"},
	{name: "cast", args: []string{"n", "ts"}, ret: "s"},
	{name: "dec2hex", args: []string{"k"}, ret: "s"},
	{name: "chr", args: []string{"k"}, ret: "s"},
	{name: "encode", args: []string{"s", "e"}, ret: "s", nullDiff: true},
	{name: "url_encode", args: []string{"s"}, ret: "s", nullDiff: true},
	{name: "format", args: []string{"n", "l"}, ret: "s"},
}

// key names the finding feature / production gate of a table entry: fn:<name>/<fixed parameter count>
func (f *fnSpec) key() string { return "fn:" + f.name + "/" + itoa(len(f.args)) }

func fnByNameArity(name string, n int) *fnSpec {
	for _, f := range fnTable {
		if f.name != name {
			continue
		}
		if n >= len(f.args) && n <= len(f.args)+f.vmax {
			return f
		}
	}
	return nil
}

// execDirect calls the registered function directly. panicked: a panic escaped Execute.
func execDirect(name string, args []any) (out any, err error, panicked any) {
	fn, ok := functions.Get(name)
	if !ok {
		return nil, fmt.Errorf("function %s not registered", name), nil
	}
	defer func() {
		if r := recover(); r != nil {
			panicked = r
		}
	}()
	if e := fn.Validate(args); e != nil {
		return nil, e, nil
	}
	out, err = fn.Execute(&functions.FunctionContext{Data: map[string]any{}}, args)
	return
}

func (c *evalCtx) evalCall(n *Node) rv {
	args := make([]rv, len(n.K))
	for i, k := range n.K {
		args[i] = c.eval(k)
	}
	spec := fnByNameArity(n.V, len(n.K))
	if spec == nil {
		return c.fail("no spec for %s/%d", n.V, len(n.K))
	}
	anyNull := false
	for _, a := range args {
		if a.null() {
			anyNull = true
		}
	}
	if anyNull && spec.nullStrict {
		return typedNull(n.T)
	}
	if spec.ref != nil && !(anyNull && spec.nullDiff) {
		out, why := spec.ref(args)
		if why != "" {
			return c.fail("%s: %s", n.V, why)
		}
		if out.null() {
			return typedNull(n.T)
		}
		return out
	}
	// differential definition
	c.diffFn = true
	goArgs := make([]any, len(args))
	for i, a := range args {
		goArgs[i] = a.goVal()
	}
	out, err, p := execDirect(n.V, goArgs)
	if p != nil {
		return c.fail("%s: Execute panicked: %v", n.V, p)
	}
	if err != nil {
		return c.fail("%s: Execute error: %v", n.V, err)
	}
	r := fromGo(out)
	if r.null() {
		return typedNull(n.T)
	}
	if r.k == 'n' && (math.IsNaN(r.f) || math.IsInf(r.f, 0)) {
		return c.fail("%s: non-finite result", n.V)
	}
	return r
}
