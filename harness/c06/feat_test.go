package c06

import (
	"os"
	"sort"
	"strconv"
	"strings"

	"verifharness/internal/pbt"
)

func envInt(k string, def int64) int64 {
	if s := os.Getenv(k); s != "" {
		if n, err := strconv.ParseInt(s, 10, 64); err == nil {
			return n
		}
	}
	return def
}

// A shape is a narrow, structural description of a confirmed-defect region. A finding's feature is either
// "<shape>" (all contexts) or "<shape>@<ctx>". features(c) lists the shapes a case exhibits; the generator
// keeps the main search outside open findings by construction: a production gate, a tree rewrite, or
// leaving out the affected context.
type shape struct {
	name string
	// detect: does the case exhibit the shape in this context?
	detect func(c *Case, ctx string) bool
	// rewrite removes the shape from the case (tree/rows rewrite). nil: the context is left out instead.
	rewrite func(c *Case)
	// gates are generator productions switched off while the shape is open for every context
	gates []string
}

var shapes []shape

func shapeByName(n string) *shape {
	for i := range shapes {
		if shapes[i].name == n {
			return &shapes[i]
		}
	}
	return nil
}

func splitFeature(f string) (name, ctx string) {
	name, ctx, _ = strings.Cut(f, "@")
	return
}

// blockedProductions: gates of shapes whose finding is open without a context restriction.
func blockedProductions() map[string]bool {
	b := map[string]bool{}
	for _, f := range pbt.OpenFindings(prop) {
		name, ctx := splitFeature(f.Feature)
		if ctx != "" {
			continue
		}
		if strings.HasPrefix(name, "fn:") {
			b[name] = true // fn:<name>/<arity> gates the table entry; fn:<name> the direct mode
		}
		if s := shapeByName(name); s != nil {
			for _, g := range s.gates {
				b[g] = true
			}
		}
	}
	return b
}

var allCtxs = []string{"select", "paren", "where", "when", "arg"}

// features lists "<shape>" and "<shape>@<ctx>" for every shape the case exhibits in a context it runs.
func features(c Case) []string {
	set := map[string]bool{}
	if c.Mode == "fn" {
		set["fn:"+c.Fn] = true
		for _, f := range fnFeatures(c) {
			set[f] = true
		}
	} else {
		if (c.Mode == "ill" || hasWildRow(c)) && !identityPerm(c.Perm) {
			set["ill-typed-history"] = true
		}
		walk(c.Expr, nil, func(n, _ *Node) {
			if n.Op == "call" {
				if sp := fnByNameArity(n.V, len(n.K)); sp != nil {
					set[sp.key()] = true
				}
			}
		})
		for i := range shapes {
			s := &shapes[i]
			for _, ctx := range c.Ctxs {
				if s.detect(&c, ctx) {
					set[s.name] = true
					set[s.name+"@"+ctx] = true
				}
			}
		}
	}
	out := make([]string, 0, len(set))
	for k := range set {
		out = append(out, k)
	}
	sort.Strings(out)
	return out
}

// hasWildRow: some row holds text in a numeric column (its own value is ill-typed for most expressions).
func hasWildRow(c Case) bool {
	for _, r := range c.Rows {
		if w, ok := r["wild"]; ok && w.B {
			return true
		}
	}
	return false
}

// avoidOpenFindings moves a freshly generated case out of every open finding's shape.
func avoidOpenFindings(c *Case) {
	open := pbt.OpenFindings(prop)
	if (c.Mode == "ill" || hasWildRow(*c)) && pbt.Open(prop, "ill-typed-history") && !identityPerm(c.Perm) {
		// both instances then see the same history: the order-dependence of ill-typed expressions cannot show
		for i := range c.Perm {
			c.Perm[i] = i
		}
		c.Excl = append(c.Excl, "ill-typed-history~")
	}
	for pass := 0; pass < 3; pass++ {
		changed := false
		for _, f := range open {
			name, fctx := splitFeature(f.Feature)
			s := shapeByName(name)
			if s == nil {
				continue
			}
			for _, ctx := range append([]string{}, c.Ctxs...) {
				if fctx != "" && fctx != ctx {
					continue
				}
				if !s.detect(c, ctx) {
					continue
				}
				if s.rewrite != nil && fctx == "" {
					s.rewrite(c)
					c.Expr = normalize(c.Expr)
					changed = true
					if !s.detect(c, ctx) {
						c.Excl = append(c.Excl, s.name+"~")
						continue
					}
				}
				dropCtx(c, ctx)
				c.Excl = append(c.Excl, s.name+"@"+ctx)
				changed = true
			}
		}
		if !changed {
			break
		}
	}
	if len(c.Ctxs) == 0 {
		// nothing left to run for this expression: keep the case (it is counted as excluded)
		c.Ctxs = nil
	}
}

func identityPerm(p []int) bool {
	for i, x := range p {
		if x != i {
			return false
		}
	}
	return true
}

func dropCtx(c *Case, ctx string) {
	out := c.Ctxs[:0:0]
	for _, x := range c.Ctxs {
		if x != ctx {
			out = append(out, x)
		}
	}
	c.Ctxs = out
}

// shapeSig is a coarse signature used by the survey to group discrepancies.
func shapeSig(c Case) []string {
	if c.Mode == "fn" {
		return []string{"fn:" + c.Fn}
	}
	set := map[string]bool{}
	walk(c.Expr, nil, func(n, _ *Node) {
		switch n.Op {
		case "col", "num", "str":
		case "call":
			set["call"] = true
		case "cmp":
			set["cmp"+n.V] = true
		default:
			set[n.Op] = true
		}
	})
	out := []string{c.Mode + ":" + c.Expr.T}
	if c.Lower {
		out[0] += ":lower"
	}
	var ks []string
	for k := range set {
		ks = append(ks, k)
	}
	sort.Strings(ks)
	return append(out, ks...)
}
