package c06

import (
	"fmt"
	"os"
	"sort"
	"testing"

	"github.com/rulego/streamsql/functions"
)

func TestListFns(t *testing.T) {
	if os.Getenv("LISTFNS") == "" {
		t.Skip()
	}
	all := functions.ListAll()
	var names []string
	for n := range all {
		names = append(names, n)
	}
	sort.Strings(names)
	for _, n := range names {
		f := all[n]
		fmt.Printf("%-18s name=%-18s type=%-12s cat=%-14s args=%d..%d aliases=%v\n", n, f.GetName(), f.GetType(), f.GetCategory(), f.GetMinArgs(), f.GetMaxArgs(), f.GetAliases())
	}
}
