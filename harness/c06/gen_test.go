package c06

import (
	"math"
	"strconv"

	"pgregory.net/rapid"
	"verifharness/internal/gen"
)

// Case is one generated test case.
//
//	Mode expr: well-typed expression tree Expr rendered into the contexts Ctxs, fed the history Rows through
//	           instance A (in order) and a second instance B with the same SQL text (order Perm), interleaved.
//	Mode ill : ill-typed expression (text in arithmetic, mixed comparisons ...): weak oracle only.
//	Mode fn  : direct call of built-in Fn with argument values Args (in- and out-of-domain) + the same call in SQL.
type Case struct {
	Mode   string    `json:"mode"`
	Expr   *Node     `json:"expr,omitempty"`
	Ctxs   []string  `json:"ctxs,omitempty"`
	Wrap   string    `json:"wrap,omitempty"` // function used by the "arg" context
	Rows   []gen.Row `json:"rows,omitempty"`
	Perm   []int     `json:"perm,omitempty"`
	Fn     string    `json:"fn,omitempty"`
	Args   []gen.Val `json:"args,omitempty"`
	Lower  bool      `json:"lower,omitempty"`  // write and / or / not in lower case
	Title  bool      `json:"title,omitempty"`  // write function names with an initial capital (Abs, Upper): names are case-insensitive
	Poison bool      `json:"poison,omitempty"` // a case-twin of every statement runs first in the process (see caseTwin)
	Names  bool      `json:"names,omitempty"`  // columns are called order_id, is_ok, island, notes, android, nothing_n, inner_m (names that contain keywords) instead of a, b, s, u, f, n, m
	Excl   []string  `json:"excl,omitempty"`   // open-finding shapes the generator steered this case away from (shape@ctx: context left out, shape~: rewritten)
}

var (
	numLits     = []string{"0", "1", "2", "3", "5", "7", "10", "-1", "-3", "2.5", "0.5", "-0.25", "100", "1.5"}
	nonzeroLits = []string{"1", "2", "3", "5", "7", "10", "-1", "-3", "2.5", "0.5", "-0.25", "100", "1.5", "4"}
	smallK      = []string{"0", "1", "2", "3", "4"}
	smallI      = []string{"0", "1", "2", "-1", "-2", "3"}
	strLits     = []string{"abc", "Xy", "", "a b", "A", "10", "abc ", " x", "b", "ab", "x IS NULL", "a LIKE b"}
	oddStrLits  = []string{"a+b", "x,y", "CASE", "a(b", "it)", "AND", "-", "a=b", "1 + 1", "NULL", "a.b", "END", "x > 1", "%", "_a", "a\"b", "\""}
	strVals     = []string{"abc", "Xy", "", "a b", "ABC", "abc ", "10", " x", "b", "ab", "a+b", "x,y", "a(b", "A", "a\"b"}
	cmpOps      = []string{"=", "==", "!=", "<>", "<", "<=", ">", ">="}
)

type g struct {
	t *rapid.T
	// production gates (set from the open findings so that the search avoids confirmed-defect shapes by construction)
	block map[string]bool
	// literals of the expression: column values are aimed at them
	numPool []float64
	strPool []string
	// numbers already drawn for this case: a later column value may sit a hair next to one of them
	seenNums []float64
}

func (s *g) collectLiterals(n *Node) {
	walk(n, nil, func(x, _ *Node) {
		switch x.Op {
		case "num":
			if f, err := strconv.ParseFloat(x.V, 64); err == nil {
				s.numPool = append(s.numPool, f)
			}
		case "str":
			s.strPool = append(s.strPool, x.V)
		}
	})
}

func (s *g) pick(label string, n int) int { return rapid.IntRange(0, n-1).Draw(s.t, label) }
func (s *g) oneOf(label string, pool []string) string {
	return rapid.SampledFrom(pool).Draw(s.t, label)
}
func (s *g) ok(prod string) bool { return !s.block[prod] }

func (s *g) numLeaf() *Node {
	switch x := s.pick("numleaf", 12); {
	case x < 4:
		return col("a", "n")
	case x < 7:
		return col("b", "n")
	case x == 7:
		return col("n", "n")
	case x == 8:
		return col("m", "n")
	default:
		return numLit(s.oneOf("numlit", numLits))
	}
}

func (s *g) strLeaf() *Node {
	switch x := s.pick("strleaf", 12); {
	case x < 4:
		return col("s", "s")
	case x < 7:
		return col("u", "s")
	case x == 7:
		return col("n", "s")
	case x == 8:
		return col("m", "s")
	case x == 9 && s.ok("oddstr"):
		return strLit(s.oneOf("oddstr", oddStrLits))
	default:
		return strLit(s.oneOf("strlit", strLits))
	}
}

func (s *g) num(d int) *Node {
	if d <= 1 {
		return s.numLeaf()
	}
	switch x := s.pick("numprod", 20); {
	case x < 3:
		return s.numLeaf()
	case x < 10:
		op := s.oneOf("ari", []string{"+", "-", "*", "/", "+", "*", "-"})
		l := s.num(d - 1)
		var r *Node
		if op == "/" {
			// divisor: non-zero literal or the column constrained non-zero
			if s.pick("divisor", 2) == 0 {
				r = numLit(s.oneOf("nz", nonzeroLits))
			} else {
				r = col("b", "n")
			}
		} else {
			r = s.num(d - 1)
		}
		return bin("ari", op, "n", l, r)
	case x < 11:
		return par(s.num(d - 1))
	case x < 12 && s.ok("neg"):
		return &Node{Op: "neg", T: "n", K: []*Node{s.numLeafCol()}}
	case x < 14 && s.ok("case"):
		return s.caseOf("n", d)
	case x < 15 && s.ok("scase"):
		return s.scaseOf("n", d)
	default:
		return s.callRet("n", d)
	}
}

func (s *g) numLeafCol() *Node {
	if s.pick("negcol", 2) == 0 {
		return col("a", "n")
	}
	return col("b", "n")
}

func (s *g) str(d int) *Node {
	if d <= 1 {
		return s.strLeaf()
	}
	switch x := s.pick("strprod", 12); {
	case x < 3:
		return s.strLeaf()
	case x < 5 && s.ok("case"):
		return s.caseOf("s", d)
	case x < 6 && s.ok("scase"):
		return s.scaseOf("s", d)
	case x < 7:
		return par(s.str(d - 1))
	default:
		return s.callRet("s", d)
	}
}

func (s *g) boolean(d int) *Node {
	if d <= 1 {
		return col("f", "b")
	}
	switch x := s.pick("boolprod", 24); {
	case x >= 20 && x < 23:
		return s.fastCmp()
	case x == 23:
		// flat chain of column-vs-literal comparisons under one connective (the WHERE compound fast path)
		op := "and"
		if s.pick("chainop", 2) == 0 {
			op = "or"
		}
		n := s.fastCmp()
		for i, m := 0, 1+s.pick("chainlen", 2); i < m; i++ {
			n = bin(op, "", "b", n, s.fastCmp())
		}
		return n
	case x < 6:
		return s.cmp(d)
	case x < 9:
		return bin("and", "", "b", s.boolean(d-1), s.boolean(d-1))
	case x < 12:
		return bin("or", "", "b", s.boolean(d-1), s.boolean(d-1))
	case x < 14 && s.ok("not"):
		return &Node{Op: "not", T: "b", K: []*Node{s.boolean(d - 1)}}
	case x < 15:
		return par(s.boolean(d - 1))
	case x < 16:
		return col("f", "b")
	case x < 17 && s.ok("isnull"):
		op := "isnull"
		if s.pick("isnot", 2) == 0 {
			op = "notnull"
		}
		var c *Node
		if s.pick("isnullarg", 2) == 0 {
			c = s.numLeafAnyCol()
		} else {
			c = s.strLeafAnyCol()
		}
		return &Node{Op: op, T: "b", K: []*Node{c}}
	default:
		return s.callRet("b", d)
	}
}

// fastCmp: column OP literal, the shape the WHERE fast path recognises
func (s *g) fastCmp() *Node {
	op := s.oneOf("fcmpop", cmpOps)
	if s.pick("fcmpkind", 3) == 0 {
		return bin("cmp", op, "b", s.strLeafAnyCol(), strLit(s.oneOf("fstr", strLits)))
	}
	return bin("cmp", op, "b", s.numLeafAnyCol(), numLit(s.oneOf("fnum", numLits)))
}

func (s *g) numLeafAnyCol() *Node {
	return col(s.oneOf("ncol", []string{"a", "b", "n", "m"}), "n")
}
func (s *g) strLeafAnyCol() *Node {
	return col(s.oneOf("scol", []string{"s", "u", "n", "m"}), "s")
}

func (s *g) cmp(d int) *Node {
	if d < 2 {
		d = 2
	}
	op := s.oneOf("cmpop", cmpOps)
	if s.pick("cmpkind", 3) == 0 {
		return bin("cmp", op, "b", s.str(d-1), s.str(d-1))
	}
	return bin("cmp", op, "b", s.num(d-1), s.num(d-1))
}

func (s *g) typed(t string, d int) *Node {
	switch t {
	case "n":
		return s.num(d)
	case "s":
		return s.str(d)
	}
	return s.boolean(d)
}

func (s *g) caseOf(t string, d int) *Node {
	n := &Node{Op: "case", T: t}
	nb := 1 + s.pick("branches", 2)
	for i := 0; i < nb; i++ {
		n.K = append(n.K, s.boolean(d-1), s.typed(t, d-1))
	}
	if s.pick("else", 3) > 0 {
		n.E = true
		n.K = append(n.K, s.typed(t, d-1))
	}
	return n
}

func (s *g) scaseOf(t string, d int) *Node {
	n := &Node{Op: "scase", T: t}
	st := "n"
	if s.pick("subjkind", 3) == 0 {
		st = "s"
	}
	var subj *Node
	if st == "n" {
		subj = s.num(minInt(d-1, 2))
	} else {
		subj = s.str(minInt(d-1, 2))
	}
	// planted: subject and first WHEN value are both operator results over columns that are often NULL - a NULL that
	// comes out of an operator must not match another such NULL any more than two NULL columns match
	plant := st == "n" && d >= 2 && s.pick("scasenullplant", 4) == 0
	if plant {
		nullish := func(l string) *Node { return col([]string{"n", "m", "a", "b"}[s.pick(l, 4)], "n") }
		subj = bin("ari", "+", "n", nullish("plantsubj"), s.numLeaf())
	}
	n.K = append(n.K, subj)
	nb := 1 + s.pick("branches", 2)
	for i := 0; i < nb; i++ {
		var w *Node
		if plant && i == 0 {
			w = bin("ari", []string{"+", "-", "*"}[s.pick("plantop", 3)], "n", col([]string{"n", "m", "a", "b"}[s.pick("plantwhen", 4)], "n"), s.numLeaf())
			n.K = append(n.K, w, s.typed(t, d-1))
			continue
		}
		if s.pick("whenval", 4) == 0 {
			// may be a column (NULL when-values included) or, half of the time, arithmetic / a call over columns:
			// a NULL produced by an operator is as little equal to another NULL as a NULL column is
			w = s.typed(st, 1+s.pick("whendepth", 2))
		} else if st == "n" {
			w = numLit(s.oneOf("whenlit", numLits))
		} else {
			w = strLit(s.oneOf("whenstr", strLits))
		}
		n.K = append(n.K, w, s.typed(t, d-1))
	}
	if s.pick("else", 3) > 0 {
		n.E = true
		n.K = append(n.K, s.typed(t, d-1))
	}
	return n
}

func minInt(a, b int) int {
	if a < b {
		return a
	}
	return b
}

// callRet draws a call of a table function with result type t.
func (s *g) callRet(t string, d int) *Node {
	var cands []*fnSpec
	for _, f := range fnTable {
		if s.block[f.key()] {
			continue
		}
		if f.ret == t || (f.ret == "x" && t != "b") {
			cands = append(cands, f)
		}
	}
	if len(cands) == 0 {
		return s.typed(t, 1)
	}
	f := cands[s.pick("fn", len(cands))]
	return s.callOf(f, t, d)
}

func (s *g) callOf(f *fnSpec, t string, d int) *Node {
	xk := t
	if f.ret != "x" {
		xk = "n"
		if s.pick("xkind", 2) == 0 {
			xk = "s"
		}
	}
	n := &Node{Op: "call", V: f.name, T: t}
	codes := append([]string{}, f.args...)
	if f.vmax > 0 {
		extra := s.pick("extra", f.vmax+1)
		for i := 0; i < extra; i++ {
			codes = append(codes, f.va)
		}
	}
	for _, c := range codes {
		n.K = append(n.K, s.arg(c, xk, d-1))
	}
	return n
}

func (s *g) arg(code, xk string, d int) *Node {
	if d < 1 {
		d = 1
	}
	switch code {
	case "n":
		return s.num(d)
	case "s":
		return s.str(d)
	case "b":
		return s.boolean(d)
	case "x":
		return s.typed(xk, d)
	case "p":
		if d < 2 {
			return numLit(s.oneOf("plit", []string{"0", "1", "4", "2.5", "100"}))
		}
		return call("abs", "n", s.num(d-1))
	case "q":
		if d < 3 {
			return numLit(s.oneOf("qlit", []string{"1", "2", "10", "2.5", "100"}))
		}
		return bin("ari", "+", "n", call("abs", "n", s.num(d-2)), numLit("1"))
	case "k":
		return numLit(s.oneOf("k", smallK))
	case "i":
		return numLit(s.oneOf("i", smallI))
	case "z":
		return numLit(s.oneOf("z", nonzeroLits))
	case "g":
		return numLit(s.oneOf("g", []string{"2", "10", "3", "2.5"}))
	case "tn":
		return strLit(s.oneOf("tn", []string{"int", "float", "bigint"}))
	case "ts":
		return strLit("string")
	case "e":
		return strLit(s.oneOf("enc", []string{"base64", "hex", "url"}))
	case "l":
		return strLit(s.oneOf("l", []string{"a", "b", "ab", "", "x", "0", "0.0", "0.00", " ", "\"", "a\"b", "x,y", "b)", "(a"}))
	}
	panic("unknown arg code " + code)
}

// ---- rows ----

func (s *g) numVal(nonzero bool, label string) gen.Val {
	v := s.numVal0(nonzero, label)
	if f, ok := v.Num(); ok {
		s.seenNums = append(s.seenNums, f)
	}
	return v
}

func (s *g) numVal0(nonzero bool, label string) gen.Val {
	for {
		var v gen.Val
		// near-equality aiming: a value unequal to, but within 1e-9 of, a literal or an earlier value (an
		// evaluator that compares with a tolerance, or through a lossy conversion, decides differently)
		if pool := append(append([]float64{}, s.numPool...), s.seenNums...); len(pool) > 0 && s.pick(label+"near", 12) == 0 {
			f := pool[s.pick(label+"nearof", len(pool))]
			d := []float64{1e-10, -3e-10, 5e-13}[s.pick(label+"neard", 3)]
			nf := f + d
			if nf == f {
				nf = math.Nextafter(f, math.Inf(1))
			}
			if !(nonzero && nf == 0) {
				return gen.Float(nf)
			}
		}
		// boundary aiming: a value equal to a numeric literal of the expression, as int or as float64
		if len(s.numPool) > 0 && s.pick(label+"aim", 4) == 0 {
			f := s.numPool[s.pick(label+"lit", len(s.numPool))]
			if f == float64(int64(f)) && s.pick(label+"asint", 2) == 0 {
				v = gen.Int(int64(f))
			} else {
				v = gen.Float(f)
			}
			if nonzero && f == 0 {
				v = gen.Int(1)
			}
			return v
		}
		switch x := s.pick(label+"kind", 20); {
		case x < 7:
			v = gen.Int(int64(rapid.IntRange(-5, 12).Draw(s.t, label+"i")))
		case x < 14:
			v = gen.Float(float64(rapid.IntRange(-40, 80).Draw(s.t, label+"q")) / 4)
		case x == 14:
			v = gen.Int(int64(rapid.IntRange(-1000000, 1000000).Draw(s.t, label+"bigi")))
		case x == 15:
			v = gen.Float(float64(rapid.IntRange(-1000000, 1000000).Draw(s.t, label+"bigf")) / 1000)
		case x < 18:
			return gen.Nil()
		default:
			return gen.Missing()
		}
		if f, _ := v.Num(); nonzero && f == 0 {
			// construction, not rejection: shift zero to one
			if v.K == "int" {
				return gen.Int(1)
			}
			return gen.Float(1.5)
		}
		return v
	}
}

func (s *g) strVal(label string) gen.Val {
	switch x := s.pick(label+"kind", 12); {
	case x == 0:
		return gen.Nil()
	case x == 1:
		return gen.Missing()
	}
	if len(s.strPool) > 0 && s.pick(label+"aim", 4) == 0 {
		return gen.Str(s.strPool[s.pick(label+"lit", len(s.strPool))])
	}
	pool := strVals
	if !s.ok("oddstrval") {
		pool = []string{"abc", "Xy", "", "a b", "ABC", "abc ", "10", " x", "b", "ab", "A"}
	}
	return gen.Str(s.oneOf(label, pool))
}

func (s *g) rows() []gen.Row {
	n := rapid.IntRange(2, 6).Draw(s.t, "nrows")
	rows := make([]gen.Row, n)
	for i := range rows {
		r := gen.Row{"id": gen.Int(int64(i + 1))}
		r["a"] = s.numVal(false, "a")
		r["b"] = s.numVal(true, "b")
		r["s"] = s.strVal("s")
		r["u"] = s.strVal("u")
		switch x := s.pick("fkind", 10); {
		case x == 0:
			r["f"] = gen.Nil()
		case x == 1:
			r["f"] = gen.Missing()
		default:
			r["f"] = gen.Bool(x%2 == 0)
		}
		r["n"] = gen.Nil()
		// m is always absent
		rows[i] = r
	}
	// a wild row: the numeric columns hold text (sensor glitch). Its own value is not fixed by the property, but it is
	// part of the history the later rows must not depend on; most often it is the very first row an expression sees.
	if s.pick("wild", 6) == 0 {
		i := 0
		if s.pick("wildpos", 3) == 0 {
			i = s.pick("wildat", n)
		}
		rows[i]["a"] = gen.Str(s.oneOf("wilda", []string{"n/a", "12", "", "x"}))
		if s.pick("wildb", 2) == 0 {
			rows[i]["b"] = gen.Str("n/a")
		}
		rows[i]["wild"] = gen.Bool(true)
	}
	return rows
}

func (s *g) perm(n int) []int {
	p := make([]int, n)
	for i := range p {
		p[i] = i
	}
	// Fisher-Yates from rapid draws
	for i := n - 1; i > 0; i-- {
		j := rapid.IntRange(0, i).Draw(s.t, "perm")
		p[i], p[j] = p[j], p[i]
	}
	return p
}
