package c06

import "strings"

func bridgeLike(r string) bool {
	return r == "bridge" || r == "execfn" || r == "multihead" || r == "case-paren"
}
func handLike(r string) bool { return r == "hand" || r == "hand-q" || r == "case-hand" }

func hasCmp(n *Node, ops ...string) bool {
	return has(n, func(x *Node) bool {
		if x.Op != "cmp" {
			return false
		}
		for _, o := range ops {
			if x.V == o {
				return true
			}
		}
		return false
	})
}

func rewriteTree(n *Node, f func(*Node) *Node) *Node {
	if n == nil {
		return nil
	}
	for i, k := range n.K {
		n.K[i] = rewriteTree(k, f)
	}
	return f(n)
}

func isExpr(c *Case) bool { return c.Mode != "fn" && c.Expr != nil }

func init() {
	shapes = []shape{
		{
			// SELECT 5 AS r: the literal is looked up as a column name
			name: "num-literal-item",
			detect: func(c *Case, ctx string) bool {
				return isExpr(c) && ctx == "select" && routeOf(ctx, c) == "simple" && strip(c.Expr).Op == "num" && c.Expr.Op == "num"
			},
		},
		{
			// a CASE expression inside a SELECT item that contains a parenthesis is handed to expr-lang, which has no CASE
			name: "case-in-bridge",
			detect: func(c *Case, ctx string) bool {
				if !isExpr(c) || ctx == "where" {
					return false
				}
				r := routeOf(ctx, c)
				return bridgeLike(r) && (hasOp(c.Expr, "case", "scase") || ctx == "when")
			},
		},
		{
			// upper-case AND / OR / NOT in a SELECT item evaluated by expr-lang
			name: "upper-kw-bridge",
			detect: func(c *Case, ctx string) bool {
				return isExpr(c) && ctx != "where" && !c.Lower && bridgeLike(routeOf(ctx, c)) && hasOp(c.Expr, "and", "or", "not")
			},
			rewrite: func(c *Case) { c.Lower = true },
		},
		{
			// single = in a SELECT item evaluated by expr-lang
			name: "single-eq-bridge",
			detect: func(c *Case, ctx string) bool {
				return isExpr(c) && ctx != "where" && bridgeLike(routeOf(ctx, c)) && hasCmp(c.Expr, "=")
			},
			rewrite: func(c *Case) {
				c.Expr = rewriteTree(c.Expr, func(n *Node) *Node {
					if n.Op == "cmp" && n.V == "=" {
						n.V = "=="
					}
					return n
				})
			},
		},
		{
			// item that starts with a call of a >=2-parameter function and continues after it
			name: "multihead",
			detect: func(c *Case, ctx string) bool {
				return isExpr(c) && ctx != "where" && routeOf(ctx, c) == "multihead"
			},
		},
		{
			name: "not-where",
			detect: func(c *Case, ctx string) bool {
				return isExpr(c) && ctx == "where" && hasOp(c.Expr, "not")
			},
		},
	}
	_ = strings.Contains
}
