package c06

import (
	"regexp"
	"strings"

	"github.com/rulego/streamsql/functions"
)

func bridgeLike(r string) bool {
	return r == "bridge" || r == "execfn" || r == "multihead" || r == "case-paren"
}
func handLike(r string) bool { return r == "hand" || r == "hand-q" || r == "case-hand" }

// exprLangSem: is the item (or condition) evaluated with expr-lang's nil semantics in this context?
// Besides the bridge routes and WHERE this is the case for quoted items (bridge first) and for items the
// hand-written parser rejects (NOT, "op - x") and that therefore fall back to the bridge.
func exprLangSem(c *Case, ctx string) bool {
	r := routeOf(ctx, c)
	if bridgeLike(r) || r == "where" || r == "hand-q" {
		return true
	}
	if r == "hand" && (hasOp(c.Expr, "not") || negFails(itemText(ctx, c))) {
		return true
	}
	return false
}

func hasCmp(n *Node, ops ...string) bool {
	return has(n, func(x *Node) bool {
		if x.Op != "cmp" {
			return false
		}
		for _, o := range ops {
			if x.V == o {
				return true
			}
		}
		return false
	})
}

func rewriteTree(n *Node, f func(*Node) *Node) *Node {
	if n == nil {
		return nil
	}
	for i, k := range n.K {
		n.K[i] = rewriteTree(k, f)
	}
	return f(n)
}

func isExpr(c *Case) bool { return c.Mode != "fn" && c.Expr != nil }

// traces evaluates the expression on every row with a full node trace.
func traces(c *Case) []map[*Node]rv {
	out := make([]map[*Node]rv, len(c.Rows))
	for i, r := range c.Rows {
		ec := &evalCtx{row: r, tr: map[*Node]rv{}}
		ec.eval(c.Expr)
		out[i] = ec.tr
	}
	return out
}

// anyNode: does some node on some row satisfy pred (given the row's trace)?
func anyNode(c *Case, pred func(n *Node, tr map[*Node]rv) bool) bool {
	for _, tr := range traces(c) {
		hit := false
		walk(c.Expr, nil, func(n, _ *Node) {
			if !hit && pred(n, tr) {
				hit = true
			}
		})
		if hit {
			return true
		}
	}
	return false
}

// anyRowIdx is like anyNode but also gives the row index to the predicate.
func anyRow(c *Case, pred func(i int, tr map[*Node]rv) bool) bool {
	for i, tr := range traces(c) {
		if pred(i, tr) {
			return true
		}
	}
	return false
}

func nullOperand(n *Node, tr map[*Node]rv) bool {
	for _, k := range n.K {
		if tr[k].null() {
			return true
		}
	}
	return false
}

// strictNullOp: an operation that raises an error in expr-lang when an operand is nil
func strictNullOp(n *Node, tr map[*Node]rv) bool {
	switch n.Op {
	case "ari", "neg":
		return nullOperand(n, tr)
	case "cmp":
		if n.V == "<" || n.V == "<=" || n.V == ">" || n.V == ">=" {
			return nullOperand(n, tr)
		}
	case "and", "or", "not":
		for _, k := range n.K {
			if sk := strip(k); sk.Op == "col" && tr[k].null() {
				return true
			}
		}
	case "call":
		if spec := fnByNameArity(n.V, len(n.K)); spec != nil && (spec.nullStrict || spec.ref == nil) {
			return nullOperand(n, tr)
		}
	}
	return false
}

// expectedDefinite: the observation the context is expected to give on the row is a definite value
// (WHERE: the row passes).
func expectedDefinite(c *Case, ctx string, v rv) bool {
	switch ctx {
	case "where":
		return v.k == 'b' && v.tv == 1
	case "when":
		return true
	case "arg":
		w, ok := expectArg(c.Wrap, v)
		return ok && !w.null()
	}
	return !v.null()
}

func absentCol(c *Case) bool {
	cols := map[string]bool{}
	walk(c.Expr, nil, func(n, _ *Node) {
		if n.Op == "col" {
			cols[n.V] = true
		}
	})
	for _, r := range c.Rows {
		for cn := range cols {
			if v, ok := r[cn]; !ok || v.IsMissing() {
				return true
			}
		}
	}
	return false
}

func nullOrAbsentCol(c *Case) bool {
	cols := map[string]bool{}
	walk(c.Expr, nil, func(n, _ *Node) {
		if n.Op == "col" {
			cols[n.V] = true
		}
	})
	for _, r := range c.Rows {
		for cn := range cols {
			if v, ok := r[cn]; !ok || v.IsNull() {
				return true
			}
		}
	}
	return false
}

// splitArgs splits the argument text of a call at top-level commas.
func splitArgs(s string) []string {
	var out []string
	depth, inq, start := 0, false, 0
	for i := 0; i < len(s); i++ {
		switch ch := s[i]; {
		case ch == '\'':
			inq = !inq
		case inq:
		case ch == '(':
			depth++
		case ch == ')':
			depth--
		case ch == ',' && depth == 0:
			out = append(out, strings.TrimSpace(s[start:i]))
			start = i + 1
		}
	}
	return append(out, strings.TrimSpace(s[start:]))
}

// oneLiteral: the text is exactly one quoted literal
func oneLiteral(a string) bool {
	return len(a) >= 2 && a[0] == '\'' && a[len(a)-1] == '\'' && strings.Count(a, "'") == 2
}

// quoteSpan: an argument that starts and ends with a quote but is not one literal ('x' == 'y')
func quoteSpan(t string) bool {
	for _, a := range execfnArgs(t) {
		if strings.HasPrefix(a, "'") && strings.HasSuffix(a, "'") && !oneLiteral(a) {
			return true
		}
		if strings.Contains(a, "(") {
			if name, whole := headCall(a); name != "" && registered(name) && whole && quoteSpan(a) {
				return true
			}
		}
	}
	return false
}

var exprLangCollisions = map[string]bool{"abs": true, "floor": true, "round": true, "trim": true, "upper": true, "lower": true, "replace": true, "concat": true, "ceil": true, "len": true}

var negAfterOp = regexp.MustCompile(`[+\-*/<>=] -[A-Za-z(]`)

// negFails: the re-joined text ("- a") is rejected by the hand-written validator: unary minus on a non-literal
// at the start of the item or right after an operator character.
func negFails(t string) bool {
	if len(t) >= 2 && t[0] == '-' && !(t[1] >= '0' && t[1] <= '9') && t[1] != '.' {
		return true
	}
	return negAfterOp.MatchString(t)
}

func registered(name string) bool { _, ok := functions.Get(name); return ok }

// execfnArgs returns the top-level argument texts of a whole-call text "f(...)".
func execfnArgs(t string) []string {
	i := strings.Index(t, "(")
	return splitArgs(t[i+1 : len(t)-1])
}

// nestedTail: following stream.parseFunctionArgs, is there a nested argument "g(..) op .." whose head is a
// registered function but which is not exactly one call (the engine then evaluates g(..) and drops the rest)?
func nestedTail(t string) bool {
	for _, a := range execfnArgs(t) {
		if oneLiteral(a) || !strings.Contains(a, "(") {
			continue
		}
		name, whole := headCall(a)
		if name == "" || !registered(name) {
			continue // evaluated by the bridge as a whole
		}
		if !whole {
			return true
		}
		if nestedTail(a) {
			return true
		}
	}
	return false
}

func isNumberText(s string) bool {
	if s == "" {
		return false
	}
	dot := false
	for i, ch := range s {
		switch {
		case ch == '-' && i == 0:
		case ch == '.' && !dot:
			dot = true
		case ch < '0' || ch > '9':
			return false
		}
	}
	return true
}

// argAsText: following stream.parseFunctionArgs, is there (at any call depth it walks) an argument without
// parenthesis that is neither a quoted literal, a number nor a plain column reference? Such an argument is
// evaluated by the bridge and, when that fails or when it has no operator character, passed as its source text.
func argAsText(t string) bool {
	for _, a := range execfnArgs(t) {
		if strings.HasPrefix(a, "'") && strings.HasSuffix(a, "'") {
			continue // one literal, or the quote-span shape
		}
		if strings.Contains(a, "(") {
			name, whole := headCall(a)
			if name != "" && registered(name) && whole && argAsText(a) {
				return true
			}
			continue
		}
		if isNumberText(a) {
			continue
		}
		if isIdent(a) {
			continue // plain column: present -> value; absent -> shape execfn-absent-col
		}
		return true
	}
	return false
}

func isIdent(s string) bool {
	if s == "" {
		return false
	}
	for i, ch := range s {
		if !(ch == '_' || (ch >= 'a' && ch <= 'z') || (ch >= 'A' && ch <= 'Z') || (i > 0 && ch >= '0' && ch <= '9')) {
			return false
		}
	}
	return true
}

func init() {
	shapes = []shape{
		{
			// an operator-less item that starts with an upper-case NOT (NOT f) reaches the evaluators verbatim, which only
			// know the lower-case spelling (numbers, x IS NULL and not f are classified as expressions since 40c32a1 and work)
			name: "operatorless-item",
			detect: func(c *Case, ctx string) bool {
				if !isExpr(c) || ctx != "select" || c.Expr.Op == "col" || c.Expr.Op == "str" {
					return false
				}
				t := itemText(ctx, c)
				up := strings.ToUpper(t)
				return strings.HasPrefix(t, "NOT ") && !strings.ContainsAny(t, "+-*/<>=!&|(") && !strings.Contains(up, "AND") && !strings.Contains(up, "OR")
			},
		},
		{
			// a CASE expression inside a SELECT item that contains a parenthesis is handed to expr-lang, which has no CASE
			name: "case-in-bridge",
			detect: func(c *Case, ctx string) bool {
				if !isExpr(c) || ctx == "where" {
					return false
				}
				r := routeOf(ctx, c)
				return bridgeLike(r) && (hasOp(c.Expr, "case", "scase") || ctx == "when")
			},
		},
		{
			// CASE as an operand (of an operator, of another CASE, with a continuation) in the hand-written parser
			name: "case-operand",
			detect: func(c *Case, ctx string) bool {
				if !isExpr(c) || !handLike(routeOf(ctx, c)) {
					return false
				}
				nested := false
				walk(c.Expr, nil, func(n, p *Node) {
					if (n.Op == "case" || n.Op == "scase") && (p != nil || ctx == "when") {
						nested = true
					}
				})
				return nested
			},
		},
		{
			// SELECT items sent to expr-lang keep their SQL spelling: upper-case AND / OR / NOT and single = do not compile
			name: "sql-ops-bridge",
			detect: func(c *Case, ctx string) bool {
				if !isExpr(c) || ctx == "where" || !bridgeLike(routeOf(ctx, c)) {
					return false
				}
				return (!c.Lower && hasOp(c.Expr, "and", "or", "not")) || hasCmp(c.Expr, "=")
			},
			rewrite: func(c *Case) {
				c.Lower = true
				c.Expr = rewriteTree(c.Expr, func(n *Node) *Node {
					if n.Op == "cmp" && n.V == "=" {
						n.V = "=="
					}
					return n
				})
			},
		},
		{
			// stream.executeFunction takes any text "name(...) ..." for one call of name and reads the arguments between the
			// first "(" and the LAST ")": an item "f(x, y) op z" (f with >= 2 parameters) or a nested argument "g(x) op y"
			name: "call-with-tail",
			detect: func(c *Case, ctx string) bool {
				if !isExpr(c) || ctx == "where" {
					return false
				}
				r := routeOf(ctx, c)
				return r == "multihead" || (r == "execfn" && nestedTail(itemText(ctx, c)))
			},
		},
		{
			// function names are registered in lower and upper case only: Abs(x), Upper(s) are unknown to expr-lang
			name: "mixed-case-fn",
			detect: func(c *Case, ctx string) bool {
				return isExpr(c) && c.Title && (hasOp(c.Expr, "call") || ctx == "arg")
			},
			rewrite: func(c *Case) { c.Title = false },
		},
		{
			name: "not-where",
			detect: func(c *Case, ctx string) bool {
				return isExpr(c) && ctx == "where" && hasOp(c.Expr, "not")
			},
		},
		{
			// NOT is unknown to the hand-written parser; inside CASE there is no fallback
			name: "not-hand",
			detect: func(c *Case, ctx string) bool {
				if !isExpr(c) || !hasOp(c.Expr, "not") {
					return false
				}
				r := routeOf(ctx, c)
				// lower-case not: the failed hand-written parse falls back to expr-lang, except inside CASE, with a
				// quote, or when the text contains a "." (taken for a nested field path: no fallback)
				return r == "case-hand" || (handLike(r) && (!c.Lower || r == "hand-q" || strings.Contains(itemText(ctx, c), ".")))
			},
		},
		{
			// an absent column is an error in comparisons / CASE conditions / function arguments of the hand-written evaluator
			name: "hand-absent-col",
			detect: func(c *Case, ctx string) bool {
				return isExpr(c) && handLike(routeOf(ctx, c)) && absentCol(c)
			},
		},
		{
			// expr-lang decides == and != on nil two-valued: nil != x is true, nil == nil is true, x == nil is false (visible under NOT)
			name: "eq-on-null",
			detect: func(c *Case, ctx string) bool {
				if !isExpr(c) || !exprLangSem(c, ctx) {
					return false
				}
				underNot := hasOp(c.Expr, "not")
				return anyNode(c, func(n *Node, tr map[*Node]rv) bool {
					if n.Op != "cmp" {
						return false
					}
					l, r := tr[n.K[0]].null(), tr[n.K[1]].null()
					switch n.V {
					case "!=", "<>":
						return l || r
					case "==", "=":
						return (l && r) || (underNot && (l || r))
					}
					return false
				})
			},
		},
		{
			// expr-lang: arithmetic / ordering / logic on nil raises an error that voids the whole item,
			// although SQL gives a definite value (TRUE OR UNKNOWN, coalesce(NULL + 1, x), CASE ... ELSE)
			name: "nil-error-absorbed",
			detect: func(c *Case, ctx string) bool {
				if !isExpr(c) {
					return false
				}
				if !exprLangSem(c, ctx) {
					return false
				}
				return anyRow(c, func(i int, tr map[*Node]rv) bool {
					if !expectedDefinite(c, ctx, tr[c.Expr]) {
						return false
					}
					hit := false
					walk(c.Expr, nil, func(n, _ *Node) {
						if strictNullOp(n, tr) {
							hit = true
						}
					})
					return hit
				})
			},
		},
		{
			// parseFunctionArgs: an operator expression that fails to evaluate, a wordy argument, or an absent column is passed as its source text
			name: "execfn-arg-text",
			detect: func(c *Case, ctx string) bool {
				return isExpr(c) && routeOf(ctx, c) == "execfn" && (argAsText(itemText(ctx, c)) || absentCol(c))
			},
		},
		{
			// parseFunctionArgs: an argument that begins and ends with a quote is taken as one literal
			name: "execfn-quote-span",
			detect: func(c *Case, ctx string) bool {
				return isExpr(c) && routeOf(ctx, c) == "execfn" && quoteSpan(itemText(ctx, c))
			},
		},
		{
			// after an evaluation error the bridge retries with expr.Eval, where expr-lang's own abs/round/floor/... win
			name: "fallback-builtin",
			detect: func(c *Case, ctx string) bool {
				if !isExpr(c) || ctx == "where" || !bridgeLike(routeOf(ctx, c)) {
					return false
				}
				wrapName, _, _ := strings.Cut(c.Wrap, ":")
				coll := ctx == "arg" && exprLangCollisions[wrapName]
				walk(c.Expr, nil, func(n, _ *Node) {
					if n.Op == "call" && exprLangCollisions[n.V] {
						coll = true
					}
				})
				if !coll {
					return false
				}
				// the compiled program fails on a NULL operand, or because it was typed by an earlier row
				// (text then NULL, int then float64): some referenced column is NULL/absent on some row
				return anyNode(c, strictNullOp) || nullOrAbsentCol(c)
			},
		},
		{
			// hand-written compareValues: text that looks numeric is compared as a number (error against other text)
			name: "numeric-text-compare",
			detect: func(c *Case, ctx string) bool {
				if !isExpr(c) || !handLike(routeOf(ctx, c)) {
					return false
				}
				numeric := func(v rv) bool { return v.k == 's' && isNumberText(strings.TrimSpace(v.s)) }
				return anyNode(c, func(n *Node, tr map[*Node]rv) bool {
					if n.Op == "cmp" && (numeric(tr[n.K[0]]) || numeric(tr[n.K[1]])) {
						return true
					}
					if n.Op == "scase" {
						for i := 0; i < len(n.K); i++ {
							if (i == 0 || i%2 == 1) && numeric(tr[n.K[i]]) {
								return true
							}
						}
					}
					return false
				})
			},
		},
		{
			// the SELECT-item re-joiner writes "x > - a"; the hand-written validator rejects "consecutive operators";
			// no fallback inside CASE or when the text contains a "."
			name: "neg-after-op",
			detect: func(c *Case, ctx string) bool {
				if !isExpr(c) {
					return false
				}
				r := routeOf(ctx, c)
				t := itemText(ctx, c)
				if !(r == "case-hand" || (handLike(r) && strings.Contains(t, "."))) {
					return false
				}
				return negFails(t)
			},
		},
		{
			// hand-written evaluator: a NULL produced by an inner arithmetic node is not flagged NULL for the outer one
			name: "hand-nested-null-arith",
			detect: func(c *Case, ctx string) bool {
				if !isExpr(c) || !handLike(routeOf(ctx, c)) {
					return false
				}
				return anyNode(c, func(n *Node, tr map[*Node]rv) bool {
					if n.Op != "ari" && n.Op != "neg" {
						return false
					}
					for _, k := range n.K {
						if sk := strip(k); (sk.Op == "ari" || sk.Op == "neg") && tr[k].null() {
							return true
						}
					}
					return false
				})
			},
		},
		{
			// a parenthesis inside a text literal is counted by the hand-written validator ("mismatched parentheses")
			// and by the routing heuristics
			name: "paren-in-literal",
			detect: func(c *Case, ctx string) bool {
				if !isExpr(c) || ctx == "where" {
					return false
				}
				return has(c.Expr, func(n *Node) bool { return n.Op == "str" && strings.ContainsAny(n.V, "()") })
			},
		},
		{
			// null_if compares with reflect.DeepEqual: int 0 and float64 0 are different
			name: "nullif-numeric-equal",
			detect: func(c *Case, ctx string) bool {
				if !isExpr(c) {
					return false
				}
				return anyNode(c, func(n *Node, tr map[*Node]rv) bool {
					if n.Op != "call" || n.V != "null_if" || len(n.K) != 2 {
						return false
					}
					x, y := tr[n.K[0]], tr[n.K[1]]
					return x.k == 'n' && y.k == 'n' && x.f == y.f
				})
			},
		},
		{
			// simple CASE: NULL subject matches a NULL WHEN value
			name: "scase-null-match",
			detect: func(c *Case, ctx string) bool {
				if !isExpr(c) || !handLike(routeOf(ctx, c)) {
					return false
				}
				return anyNode(c, func(n *Node, tr map[*Node]rv) bool {
					if n.Op != "scase" || !tr[n.K[0]].null() {
						return false
					}
					m := len(n.K)
					if n.E {
						m--
					}
					for i := 1; i+1 < m; i += 2 {
						if tr[n.K[i]].null() {
							return true
						}
					}
					return false
				})
			},
		},
	}
}
