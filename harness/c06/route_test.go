package c06

import (
	"strings"

	"github.com/rulego/streamsql/functions"
)

// itemText is the text of the SELECT item (or the WHERE condition) a context renders.
func itemText(ctx string, c *Case) string {
	sql := sqlFor(ctx, *c)
	if ctx == "where" {
		_, t, _ := strings.Cut(sql, " WHERE ")
		return t
	}
	t := strings.TrimPrefix(sql, "SELECT ")
	return strings.TrimSuffix(t, " AS r FROM stream")
}

// headCall returns the name before the first "(" when that prefix looks like a bare function name
// (the engine's extractFunctionName heuristic), and whether the whole text is exactly that one call.
func headCall(t string) (name string, whole bool) {
	i := strings.Index(t, "(")
	if i <= 0 {
		return "", false
	}
	name = strings.TrimSpace(t[:i])
	if name == "" || strings.ContainsAny(name, " +-*/=<>!&|'") {
		return "", false
	}
	// matching parenthesis of the first "("
	depth, inq := 0, false
	for j := i; j < len(t); j++ {
		switch ch := t[j]; {
		case ch == '\'':
			inq = !inq
		case inq:
		case ch == '(':
			depth++
		case ch == ')':
			depth--
			if depth == 0 {
				return name, j == len(t)-1
			}
		}
	}
	return name, false
}

// multiArgFn mirrors rsql's "multi-parameter function" test.
func multiArgFn(name string) bool {
	fn, ok := functions.Get(name)
	if !ok {
		return false
	}
	min, max := fn.GetMinArgs(), fn.GetMaxArgs()
	return min > 1 || (max > min && min >= 1)
}

func hasQuoteOutside(t string) bool { return strings.Contains(t, "'") }

// routeOf names the evaluator the engine's textual heuristics select for the context:
//
//	where      expr-lang condition (untyped), AND/OR/= lowered by the parser
//	simple     bare column or literal: looked up in the row
//	hand       hand-written expr evaluator (no parenthesis, no quote)
//	hand-q     bridge first, hand-written evaluator on error (quote, no parenthesis)
//	case-hand  CASE text without any parenthesis: hand-written evaluator
//	case-paren CASE text containing a parenthesis: expr-lang bridge
//	execfn     a single top-level call of a >=2-parameter function: stream.executeFunction + parseFunctionArgs
//	multihead  item starting with a >=2-parameter function call followed by more text
//	bridge     anything else containing a parenthesis: expr-lang bridge
func routeOf(ctx string, c *Case) string {
	if ctx == "where" {
		return "where"
	}
	t := itemText(ctx, c)
	e := strip(c.Expr)
	if ctx == "select" && (e.Op == "col" || e.Op == "num" || e.Op == "str") && c.Expr.Op != "par" {
		return "simple"
	}
	paren := strings.Contains(t, "(")
	if strings.HasPrefix(strings.ToUpper(t), "CASE") {
		if paren {
			return "case-paren"
		}
		return "case-hand"
	}
	if !paren {
		if hasQuoteOutside(t) {
			return "hand-q"
		}
		return "hand"
	}
	if name, whole := headCall(t); name != "" && multiArgFn(name) && strings.Contains(t, ",") {
		if whole {
			return "execfn"
		}
		return "multihead"
	}
	return "bridge"
}
