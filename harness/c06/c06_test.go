package c06

import (
	"fmt"
	"math"
	"reflect"
	"regexp"
	"sort"
	"strings"
	"sync"
	"testing"
	"unsafe"

	"github.com/rulego/streamsql"
	"github.com/rulego/streamsql/functions"
	"pgregory.net/rapid"
	"verifharness/internal/gen"
	"verifharness/internal/pbt"
	_ "verifharness/internal/run" // discards engine logging
)

const prop = "C06"

// ---- hermetic histories: a case starts from empty process-wide expression caches ----

// resetCaches empties the bridge's compiled-program and preprocess caches (unexported sync.Map fields), so that
// the history a case describes is the whole history those caches have seen. Returns false if the fields are gone.
func resetCaches() bool {
	b := functions.GetExprBridge()
	v := reflect.ValueOf(b).Elem()
	ok := true
	for _, name := range []string{"programCache", "preprocessCache"} {
		f := v.FieldByName(name)
		if !f.IsValid() || f.Type() != reflect.TypeOf(sync.Map{}) {
			ok = false
			continue
		}
		m := (*sync.Map)(unsafe.Pointer(f.UnsafeAddr()))
		m.Range(func(k, _ any) bool { m.Delete(k); return true })
	}
	return ok
}

// ---- contexts ----

func sqlFor(ctx string, c Case) string {
	e := renderCase(c)
	switch ctx {
	case "select":
		return "SELECT " + e + " AS r FROM stream"
	case "paren":
		return "SELECT (" + e + ") AS r FROM stream"
	case "where":
		return "SELECT id FROM stream WHERE " + e
	case "when":
		return "SELECT CASE WHEN " + e + " THEN 1 ELSE 0 END AS r FROM stream"
	case "arg":
		name, extra, _ := strings.Cut(c.Wrap, ":")
		if c.Title {
			titleFns = true
			name = fnName(name)
			titleFns = false
		}
		if extra != "" {
			return "SELECT " + name + "(" + e + ", " + extra + ") AS r FROM stream"
		}
		return "SELECT " + name + "(" + e + ") AS r FROM stream"
	}
	return ""
}

var wraps = map[string][]string{
	"n": {"abs", "floor", "if_null:-9999", "coalesce:-9999"},
	"s": {"upper", "length", "if_null:'zz'", "concat:'#'"},
	"b": {"coalesce:false"},
}

// expectArg gives the expected value of the arg context from the value of the inner expression.
// ok=false: no expectation (convention of the wrapper for NULL is not fixed).
func expectArg(wrap string, v rv) (rv, bool) {
	switch wrap {
	case "abs":
		if v.null() {
			return rNull, true
		}
		return rFlt(math.Abs(v.f)), true
	case "floor":
		if v.null() {
			return rNull, true
		}
		return rFlt(math.Floor(v.f)), true
	case "if_null:-9999", "coalesce:-9999":
		if v.null() {
			return rNum(-9999), true
		}
		return v, true
	case "upper":
		if v.null() {
			return rNull, false
		}
		return rStr(strings.ToUpper(v.s)), true
	case "length":
		if v.null() {
			return rNull, false
		}
		return rNum(float64(len(v.s))), true
	case "if_null:'zz'":
		if v.null() {
			return rStr("zz"), true
		}
		return v, true
	case "concat:'#'":
		if v.null() {
			return rNull, false
		}
		return rStr(v.s + "#"), true
	case "coalesce:false", "if_null:false":
		if v.k == 'b' && v.tv == 1 {
			return rTrue, true
		}
		return rFalse, true
	}
	return rNull, false
}

// ---- comparing an engine value with the reference ----

// same reports whether got (engine) equals want (reference). category names the kind of mismatch.
func same(want rv, got any) (bool, string) {
	switch want.k {
	case 'N':
		if got == nil {
			return true, ""
		}
		return false, "notnull"
	case 'n':
		if got == nil {
			return false, "null"
		}
		f, ok := gen.ToFloat(got)
		if !ok {
			return false, "kind"
		}
		if gen.Close(f, want.f, 1e-9) {
			return true, ""
		}
		return false, "value"
	case 's':
		if got == nil {
			return false, "null"
		}
		s, ok := got.(string)
		if !ok {
			return false, "kind"
		}
		if s == want.s {
			return true, ""
		}
		return false, "value"
	case 'b':
		var gb int8 = -1
		switch x := got.(type) {
		case nil:
		case bool:
			gb = 0
			if x {
				gb = 1
			}
		default:
			f, ok := gen.ToFloat(got)
			if !ok || (f != 0 && f != 1) {
				return false, "kind"
			}
			gb = int8(f)
		}
		switch want.tv {
		case 1:
			if gb == 1 {
				return true, ""
			}
			if gb == -1 {
				return false, "null"
			}
			return false, "value"
		case 0:
			if gb == 0 {
				return true, ""
			}
			if gb == -1 {
				return false, "null"
			}
			return false, "value"
		default: // unknown: NULL or false ("not true")
			if gb != 1 {
				return true, ""
			}
			return false, "value"
		}
	case 'o':
		if reflect.DeepEqual(got, want.o) || fmt.Sprint(got) == fmt.Sprint(want.o) {
			return true, ""
		}
		return false, "value"
	}
	return false, "kind"
}

func show(x any) string {
	if x == nil {
		return "NULL"
	}
	return fmt.Sprintf("%T:%#v", x, x)
}

// ---- driving one instance ----

type inst struct {
	s   *streamsql.Streamsql
	sql string
	c   Case // for the column naming of the rows it is fed
}

func open(sql string) (in *inst, err error) {
	defer func() {
		if r := recover(); r != nil {
			err = fmt.Errorf("PANIC in Execute: %v", r)
		}
	}()
	s := streamsql.New()
	if e := s.Execute(sql); e != nil {
		s.Stop()
		return nil, e
	}
	return &inst{s: s, sql: sql}, nil
}

type outcome struct {
	res      map[string]any
	err      error
	panicked any
}

func (in *inst) emit(row gen.Row) (o outcome) {
	defer func() {
		if r := recover(); r != nil {
			o.panicked = r
		}
	}()
	o.res, o.err = in.s.EmitSync(engineRow(in.c, row))
	return
}

func rowText(r gen.Row) string {
	var sb strings.Builder
	for i, k := range r.Keys() {
		if i > 0 {
			sb.WriteString(" ")
		}
		sb.WriteString(k + "=" + r[k].String())
	}
	return sb.String()
}

// ---- the property ----

func runCase(c Case) (res pbt.Result) {
	resetCaches()
	switch c.Mode {
	case "fn":
		runFn(c, &res)
	default:
		runExpr(c, &res)
	}
	return
}

func exprStats(c Case, res *pbt.Result) (nullOperand, mixed bool) {
	cols := map[string]bool{}
	walk(c.Expr, nil, func(n, _ *Node) {
		if n.Op == "col" {
			cols[n.V] = true
		}
	})
	sawInt, sawFloat := false, false
	for _, r := range c.Rows {
		for cn := range cols {
			v, ok := r[cn]
			if !ok || v.IsNull() {
				nullOperand = true
				continue
			}
			switch v.K {
			case "int":
				sawInt = true
			case "float64":
				sawFloat = true
			}
		}
	}
	walk(c.Expr, nil, func(n, _ *Node) {
		if n.Op == "num" {
			if isIntLit(n.V) {
				sawInt = true
			} else {
				sawFloat = true
			}
		}
	})
	return nullOperand, sawInt && sawFloat
}

func runExpr(c Case, res *pbt.Result) {
	ill := c.Mode == "ill"
	res.Class("mode:" + c.Mode)
	if c.Expr == nil || len(c.Rows) == 0 {
		res.Class("empty")
		return
	}
	res.Class("type:"+c.Expr.T, "depth:"+itoa(depth(c.Expr)))
	for _, op := range []string{"case", "scase", "call", "not", "and", "or", "cmp", "ari", "par", "neg", "isnull", "notnull"} {
		if hasOp(c.Expr, op) {
			res.Class("op:" + op)
		}
	}
	nullOp, mixed := exprStats(c, res)
	if nullOp {
		res.Class("null-operand")
	}
	if mixed {
		res.Class("mixed-int-float")
	}
	res.NonTrivial = !ill && depth(c.Expr) >= 2 && (nullOp || mixed || hasOp(c.Expr, "case", "scase", "call", "not"))

	// reference values per row
	type exp struct {
		v    rv
		weak bool
		why  string
	}
	exps := make([]exp, len(c.Rows))
	for i, r := range c.Rows {
		ec := &evalCtx{row: r}
		v := ec.eval(c.Expr)
		exps[i] = exp{v: v, weak: ec.sawErr || ill || (ec.negZero && ec.diffFn), why: ec.why}
		if w, ok := r["wild"]; ok && w.B {
			exps[i].weak = true // text in a numeric column: the row's own value is not fixed, only crash-freedom
			res.Class("wild-row")
		}
		if ec.negZero && ec.diffFn {
			res.Count("weak-rows-negzero", 1)
		}
		if ec.sawErr && !ill {
			res.Count("weak-rows", 1)
			if ec.why == "division by zero" {
				res.Class("div-by-zero-generated")
			}
		}
		if ec.diffFn {
			res.Count("differential-rows", 1)
		}
		res.Count("rows", 1)
	}
	perm := c.Perm
	if len(perm) != len(c.Rows) {
		perm = make([]int, len(c.Rows))
		for i := range perm {
			perm[i] = i
		}
	}
	text := renderCase(c)
	applicable := []string{"select", "paren", "arg"}
	if c.Expr.T == "b" {
		applicable = allCtxs
	}
	for _, ctx := range applicable {
		if !contains(c.Ctxs, ctx) {
			res.Class("excluded@" + ctx)
		}
	}
	if len(c.Ctxs) == 0 {
		res.Class("excluded-entirely")
	}
	for _, e := range c.Excl {
		name, _, _ := strings.Cut(strings.TrimSuffix(e, "~"), "@")
		res.Count("excl:"+name, 1)
	}
	for _, ctx := range c.Ctxs {
		sql := sqlFor(ctx, c)
		if c.Poison {
			// a foreign query whose text differs from this one in the letter case of its string literals and column
			// names only runs first in the same process: whatever the engine caches under its text must not be
			// served to this query (literals and column names are case-sensitive)
			if tw := caseTwin(sql); tw != sql {
				if p, perr := open(tw); perr == nil {
					for _, r := range c.Rows {
						p.emit(r)
					}
					p.s.Stop()
				}
				res.Class("poisoned-by-case-twin")
			}
		}
		a, err := open(sql)
		if a != nil {
			a.c = c
		}
		if err != nil {
			if strings.HasPrefix(err.Error(), "PANIC") {
				res.Add(pbt.D(ctx+":panic", "%v for %s", err, sql))
			} else {
				res.Class("rejected@" + ctx)
			}
			continue
		}
		b, err := open(sql)
		if b != nil {
			b.c = c
		}
		if err != nil {
			a.s.Stop()
			res.Add(pbt.D(ctx+":execute-unstable", "second Execute of the same text failed: %v for %s", err, sql))
			continue
		}
		res.Class("ran@" + ctx)
		got := map[string][]any{} // instance -> per row index the comparable observation
		rejected := false
		check := func(which string, idx int, o outcome) {
			row := c.Rows[idx]
			if o.panicked != nil {
				res.Add(pbt.D(ctx+":panic", "panic %v; sql=%s row={%s} instance %s", o.panicked, sql, rowText(row), which))
				return
			}
			if o.err != nil {
				if strings.Contains(o.err.Error(), "aggregation") {
					rejected = true
					return
				}
				// an error is an allowed outcome only where the reference has none to offer
				if !exps[idx].weak {
					res.Add(pbt.D(ctx+":error", "EmitSync error %v; sql=%s row={%s}", o.err, sql, rowText(row)))
				}
				return
			}
			var obs any
			if ctx == "where" {
				obs = o.res != nil
			} else if o.res == nil {
				res.Add(pbt.D(ctx+":no-result", "EmitSync returned no row without WHERE; sql=%s row={%s}", sql, rowText(row)))
				return
			} else {
				v, has := o.res["r"]
				if !has {
					res.Add(pbt.D(ctx+":no-column", "result has no column r: %v; sql=%s", o.res, sql))
					return
				}
				obs = v
			}
			for len(got[which]) <= idx {
				got[which] = append(got[which], nil)
			}
			got[which][idx] = []any{obs}
			e := exps[idx]
			if e.weak {
				return
			}
			want := e.v
			switch ctx {
			case "where":
				pass := obs.(bool)
				wantPass := want.k == 'b' && want.tv == 1
				if pass && !wantPass {
					res.Add(pbt.D("where:keep", "WHERE %s accepts row {%s} for which the condition is %s (instance %s)", text, rowText(row), want, which))
				} else if !pass && wantPass {
					res.Add(pbt.D("where:drop", "WHERE %s rejects row {%s} for which the condition is TRUE (instance %s)", text, rowText(row), which))
				}
				return
			case "when":
				w := rNum(0)
				if want.k == 'b' && want.tv == 1 {
					w = rNum(1)
				}
				want = w
			case "arg":
				w, ok := expectArg(c.Wrap, want)
				if !ok {
					res.Count("arg-null-unchecked", 1)
					return
				}
				want = w
			}
			if ok, cat := same(want, obs); !ok {
				res.Add(pbt.D(ctx+":"+cat, "%s on row {%s}: expected %s, engine gave %s (instance %s)", sql, rowText(row), want, show(obs), which))
			}
		}
		for i := range c.Rows {
			check("A", i, a.emit(c.Rows[i]))
			check("B", perm[i], b.emit(c.Rows[perm[i]]))
			if rejected {
				break
			}
		}
		a.s.Stop()
		b.s.Stop()
		if rejected {
			res.Class("rejected-sync@" + ctx)
			continue
		}
		// history independence: the same row gives the same observation on both instances
		for i := range c.Rows {
			if i < len(got["A"]) && i < len(got["B"]) && got["A"][i] != nil && got["B"][i] != nil {
				x, y := got["A"][i].([]any)[0], got["B"][i].([]any)[0]
				if !obsEqual(x, y) {
					res.Add(pbt.D(ctx+":history", "%s on row {%s}: instance A (row order) gave %s, instance B (order %v) gave %s", sql, rowText(c.Rows[i]), show(x), perm, show(y)))
				}
			}
		}
	}
}

func obsEqual(x, y any) bool {
	if x == nil || y == nil {
		return x == nil && y == nil
	}
	fx, okx := gen.ToFloat(x)
	fy, oky := gen.ToFloat(y)
	if okx && oky {
		return gen.Close(fx, fy, 1e-9)
	}
	return reflect.DeepEqual(x, y)
}

// ---- generator entry ----

func genCase(t *rapid.T) Case {
	s := &g{t: t, block: blockedProductions()}
	mode := s.pick("mode", 10)
	if mode >= 8 {
		return genFn(s)
	}
	c := Case{Mode: "expr"}
	ty := []string{"n", "n", "n", "s", "s", "b", "b", "b", "b", "n"}[s.pick("roottype", 10)]
	d := []int{1, 2, 2, 3, 3, 3, 4, 4}[s.pick("depth", 8)]
	if ty == "b" && d < 2 && s.pick("boolcol", 3) > 0 {
		d = 2
	}
	if mode == 7 {
		c.Mode = "ill"
		s.block["ill"] = false
		c.Expr = normalize(confuse(s, s.typed(ty, d)))
	} else {
		c.Expr = normalize(s.typed(ty, d))
	}
	c.Ctxs = []string{"select", "paren", "arg"}
	if ty == "b" {
		c.Ctxs = []string{"select", "paren", "where", "when", "arg"}
	}
	ws := wraps[ty]
	c.Wrap = ws[s.pick("wrap", len(ws))]
	c.Lower = s.pick("lower", 2) == 0
	c.Title = s.pick("title", 8) == 0
	// keyword-bearing column names: only inside CASE WHEN .. (evaluated by the hand-written engine whatever the names
	// are; in the other contexts the engine's routing heuristics look at the item text, so a renamed column would move
	// the case between the evaluators and with them between the open findings)
	if c.Names = ty == "b" && s.pick("names", 5) == 0; c.Names {
		c.Ctxs = []string{"when"}
	}
	s.collectLiterals(c.Expr)
	c.Rows = s.rows()
	c.Perm = s.perm(len(c.Rows))
	avoidOpenFindings(&c)
	c.Poison = !c.Names && s.pick("poison", 4) == 0
	return c
}

// confuse makes a well-typed tree ill-typed: some leaves are replaced by leaves of another kind.
func confuse(s *g, n *Node) *Node {
	done := false
	var rec func(n *Node) *Node
	rec = func(n *Node) *Node {
		if n.Op == "col" || n.Op == "num" || n.Op == "str" {
			if s.pick("confuse", 3) == 0 || !done {
				done = true
				switch n.T {
				case "n":
					if s.pick("ck", 3) == 0 {
						return col("f", "n")
					}
					l := s.strLeaf()
					l.T = "n"
					return l
				case "s":
					if s.pick("ck", 3) == 0 {
						return col("f", "s")
					}
					l := s.numLeaf()
					l.T = "s"
					return l
				default:
					l := s.numLeaf()
					l.T = "b"
					return l
				}
			}
			return n
		}
		for i, k := range n.K {
			n.K[i] = rec(k)
		}
		return n
	}
	return rec(n)
}

var spec = pbt.Spec[Case]{
	ID: prop,
	Rule: "generated: well-typed expression trees of depth 1-4 over columns a,b (int/float64/NULL/absent per row, b non-zero), s,u (text/NULL/absent), f (bool/NULL/absent), n (NULL), m (absent); " +
		"numeric and text literals (plain and operator/keyword-bearing), + - * / (divisor non-zero literal or b), unary minus, comparisons (= == != < <= > >=), AND/OR/NOT in upper or lower case, parentheses, " +
		"searched and simple CASE with/without ELSE, IS [NOT] NULL on columns, column-vs-literal comparisons and flat AND/OR chains of them (WHERE fast-path shapes), columns called a, b, s, u, f, n, m or, for one boolean case in five that then runs in the CASE WHEN context only, by names that contain keywords (order_id, is_ok, island, notes, android, ..); calls from a typed table of 55 signatures of 51 deterministic built-ins " +
		"(names in lower case or with an initial capital); column values aimed at the literals of the expression. Each expression is rendered as SELECT item, parenthesised SELECT item, WHERE, " +
		"CASE WHEN .. THEN 1 ELSE 0 END, and argument of abs/floor/if_null/coalesce/upper/length/concat; histories of 2-6 rows through instance A and, interleaved in a drawn order, through instance B with the same SQL text, " +
		"starting from empty process-wide expression caches. Oracle: reference interpreter (float64 arithmetic, int/float mixing, Kleene logic collapsed to not-true at WHERE/WHEN, NULL-propagating arithmetic, " +
		"first-true CASE branch else ELSE else NULL, documented function values; Execute() of the registered function as definition where the guide states no convention) for every context, every row, both instances; " +
		"A and B agree per row. Separate classes: ill-typed expressions (no panic; same value on both instances) and direct calls of every registered deterministic scalar function with in-domain and hostile arguments " +
		"(NULL, wrong kinds, NaN, +-Inf, huge, empty, arrays, maps): error or NULL but never a panic, documented value in-domain, algebraic laws, SQL call agrees with Execute. " +
		"Shapes of open findings are avoided by construction (context left out / tree rewritten), counted in counters excl:<shape>. " +
		"non-trivial = depth>=2 and one of {NULL/absent operand, int and float mixed, CASE, function, NOT}, or a direct function call with arguments; distinct = hash of the case JSON",
	Assumptions: []string{
		"a statement rejected at Execute, or routed to the aggregation path (EmitSync error), is outside the accepted domain: counted, not reported",
		"each case starts from empty bridge caches (reset through reflection), so the history in the case is the whole history",
		"a boolean result may be delivered as true/false or 1/0; an UNKNOWN boolean as NULL or false",
		"rows whose reference evaluation meets an error / out-of-domain argument / non-finite value get the weak oracle only (no panic)",
	},
	Gen:      genCase,
	Run:      runCase,
	Features: features,
}

func TestProp(t *testing.T)    { pbt.RunProp(t, spec) }
func TestReplay(t *testing.T)  { pbt.RunReplay(t, spec) }
func TestWitness(t *testing.T) { pbt.RunWitnesses(t, spec) }

// TestSurvey (development aid): SURVEY=N runs N generated cases without stopping and prints the discrepancy kinds
// with one example each, grouped by kind and a coarse shape signature.
func TestSurvey(t *testing.T) {
	n := int(envInt("SURVEY", 0))
	if n == 0 {
		t.Skip()
	}
	type ent struct {
		n  int
		ex string
		c  Case
	}
	by := map[string]*ent{}
	classes := map[string]int{}
	total := 0
	rapid.Check(t, func(rt *rapid.T) {
		c := genCase(rt)
		r := runCase(c)
		total++
		for _, cl := range r.Classes {
			classes[cl]++
		}
		feats := features(c)
		open := pbt.OpenFindings(prop)
		for _, d := range r.Discs {
			skip := false
			for _, f := range open {
				if f.Kind == d.Kind || contains(f.Kinds, d.Kind) {
					if contains(feats, f.Feature) {
						skip = true
					}
				}
			}
			if skip {
				continue
			}
			ctx, _, _ := strings.Cut(d.Kind, ":")
			key := d.Kind + " | "
			if c.Mode != "fn" {
				key += routeOf(ctx, &c) + " | "
			}
			key += strings.Join(shapeSig(c), ",")
			e := by[key]
			if e == nil {
				e = &ent{ex: d.Detail, c: c}
				by[key] = e
			}
			e.n++
		}
	})
	keys := make([]string, 0, len(by))
	for k := range by {
		keys = append(keys, k)
	}
	sort.Slice(keys, func(i, j int) bool { return by[keys[i]].n > by[keys[j]].n })
	fmt.Printf("survey: %d cases, %d discrepancy groups\n", total, len(keys))
	for _, k := range keys {
		fmt.Printf("%5d  %s\n        e.g. %s\n", by[k].n, k, by[k].ex)
	}
	ck := make([]string, 0, len(classes))
	for k := range classes {
		ck = append(ck, k)
	}
	sort.Strings(ck)
	for _, k := range ck {
		fmt.Printf("class %-28s %d\n", k, classes[k])
	}
}

func contains(l []string, s string) bool {
	for _, x := range l {
		if x == s {
			return true
		}
	}
	return false
}

var twinColRe = regexp.MustCompile(`\b(a|b|f|n|s|u|m)\b`)

// caseTwin swaps the letter case inside string literals and writes the single-letter column names in upper case.
func caseTwin(sql string) string {
	var sb strings.Builder
	seg := func(code string) string { return twinColRe.ReplaceAllStringFunc(code, strings.ToUpper) }
	start, inq := 0, false
	for i := 0; i < len(sql); i++ {
		if sql[i] != '\'' {
			continue
		}
		if !inq {
			sb.WriteString(seg(sql[start:i]))
		} else {
			for _, r := range sql[start:i] {
				switch {
				case r >= 'a' && r <= 'z':
					sb.WriteRune(r - 32)
				case r >= 'A' && r <= 'Z':
					sb.WriteRune(r + 32)
				default:
					sb.WriteRune(r)
				}
			}
		}
		sb.WriteByte('\'')
		start, inq = i+1, !inq
	}
	if !inq {
		sb.WriteString(seg(sql[start:]))
	} else {
		sb.WriteString(sql[start:])
	}
	return sb.String()
}
