//go:build !verif

// Package hook: without the verif tag the engine has no perturbation points.
package hook

func Configure(seed uint64)   {}
func Sites() map[string]int64 { return nil }
