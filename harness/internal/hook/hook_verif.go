//go:build verif

// Package hook switches the engine's build-tag-guarded perturbation points (utils/verifhook) on and off per case.
package hook

import "github.com/rulego/streamsql/utils/verifhook"

// Configure sets the perturbation seed for the case that follows (0 = no perturbation).
func Configure(seed uint64) { verifhook.Configure(seed) }

// Sites reports how often each perturbation point was reached since Configure.
func Sites() map[string]int64 { return verifhook.Sites() }
