// Package gen holds the JSON-serialisable value type used in cases and shared generators.
package gen

import (
	"fmt"
	"math"
	"sort"
	"strconv"

	"pgregory.net/rapid"
)

// Val is a typed scalar/compound value that survives a JSON round trip exactly.
// K: nil, missing, int, int8, int16, int32, int64, uint, uint8, uint16, uint32, uint64,
// float32, float64, str, bool, list, map.
type Val struct {
	K string         `json:"k"`
	I int64          `json:"i,omitempty"`
	U uint64         `json:"u,omitempty"`
	F string         `json:"f,omitempty"` // floats as text so NaN/Inf survive JSON
	S string         `json:"s,omitempty"`
	B bool           `json:"b,omitempty"`
	L []Val          `json:"l,omitempty"`
	M map[string]Val `json:"m,omitempty"`
}

func Nil() Val                 { return Val{K: "nil"} }
func Missing() Val             { return Val{K: "missing"} }
func Int(i int64) Val          { return Val{K: "int", I: i} }
func Int64(i int64) Val        { return Val{K: "int64", I: i} }
func Str(s string) Val         { return Val{K: "str", S: s} }
func Bool(b bool) Val          { return Val{K: "bool", B: b} }
func Float(f float64) Val      { return Val{K: "float64", F: strconv.FormatFloat(f, 'g', -1, 64)} }
func List(l ...Val) Val        { return Val{K: "list", L: l} }
func Map(m map[string]Val) Val { return Val{K: "map", M: m} }

func (v Val) IsMissing() bool { return v.K == "missing" }
func (v Val) IsNull() bool    { return v.K == "nil" || v.K == "missing" || v.K == "" }

func (v Val) Float() float64 {
	f, _ := strconv.ParseFloat(v.F, 64)
	return f
}

// Go converts to the Go value handed to the engine.
func (v Val) Go() any {
	switch v.K {
	case "nil", "missing", "":
		return nil
	case "int":
		return int(v.I)
	case "int8":
		return int8(v.I)
	case "int16":
		return int16(v.I)
	case "int32":
		return int32(v.I)
	case "int64":
		return v.I
	case "uint":
		return uint(v.U)
	case "uint8":
		return uint8(v.U)
	case "uint16":
		return uint16(v.U)
	case "uint32":
		return uint32(v.U)
	case "uint64":
		return v.U
	case "float32":
		return float32(v.Float())
	case "float64":
		return v.Float()
	case "str":
		return v.S
	case "bool":
		return v.B
	case "list":
		out := make([]any, len(v.L))
		for i, e := range v.L {
			out[i] = e.Go()
		}
		return out
	case "map":
		out := make(map[string]any, len(v.M))
		for k, e := range v.M {
			if e.IsMissing() {
				continue
			}
			out[k] = e.Go()
		}
		return out
	}
	panic("gen.Val: unknown kind " + v.K)
}

// Num returns the numeric value (float64) of a numeric Val.
func (v Val) Num() (float64, bool) {
	switch v.K {
	case "int", "int8", "int16", "int32", "int64":
		return float64(v.I), true
	case "uint", "uint8", "uint16", "uint32", "uint64":
		return float64(v.U), true
	case "float32":
		return float64(float32(v.Float())), true
	case "float64":
		return v.Float(), true
	}
	return 0, false
}

func (v Val) String() string {
	switch v.K {
	case "nil", "":
		return "NULL"
	case "missing":
		return "MISSING"
	case "str":
		return strconv.Quote(v.S)
	case "bool":
		return strconv.FormatBool(v.B)
	case "float32", "float64":
		return v.K + ":" + v.F
	case "list":
		return fmt.Sprint(v.L)
	case "map":
		return fmt.Sprint(v.M)
	}
	if v.K[0] == 'u' {
		return v.K + ":" + strconv.FormatUint(v.U, 10)
	}
	return v.K + ":" + strconv.FormatInt(v.I, 10)
}

// Row is a generated input row. Missing fields are omitted from the engine map.
type Row map[string]Val

func (r Row) Go() map[string]any {
	out := make(map[string]any, len(r))
	for k, v := range r {
		if v.IsMissing() {
			continue
		}
		out[k] = v.Go()
	}
	return out
}

func (r Row) Keys() []string {
	ks := make([]string, 0, len(r))
	for k := range r {
		ks = append(ks, k)
	}
	sort.Strings(ks)
	return ks
}

// ---- numeric helpers for comparing engine outputs ----

// ToFloat converts any Go numeric to float64.
func ToFloat(x any) (float64, bool) {
	switch n := x.(type) {
	case int:
		return float64(n), true
	case int8:
		return float64(n), true
	case int16:
		return float64(n), true
	case int32:
		return float64(n), true
	case int64:
		return float64(n), true
	case uint:
		return float64(n), true
	case uint8:
		return float64(n), true
	case uint16:
		return float64(n), true
	case uint32:
		return float64(n), true
	case uint64:
		return float64(n), true
	case float32:
		return float64(n), true
	case float64:
		return n, true
	}
	return 0, false
}

// Close compares with relative tolerance.
func Close(a, b, tol float64) bool {
	if math.IsNaN(a) || math.IsNaN(b) {
		return math.IsNaN(a) && math.IsNaN(b)
	}
	if a == b {
		return true
	}
	d := math.Abs(a - b)
	m := math.Max(math.Abs(a), math.Abs(b))
	return d <= tol*math.Max(1, m)
}

// ---- shared generators ----

// HostileStrings is the pool built to collide under naive key joins.
var HostileStrings = []string{"", "a", "b", "a|b", "b|c", "|", ",", "a\x1fb", "\x1f", "\x00NULL", "<nil>", "s:a", "a|", "|b", "c", "a,b", "a b", "NULL", "nil"}

func OneOfStr(pool []string) *rapid.Generator[string] { return rapid.SampledFrom(pool) }

// SmallNum draws an int or float64 Val from a pool with repeats, negatives, zero.
func SmallNum() *rapid.Generator[Val] {
	return rapid.Custom(func(t *rapid.T) Val {
		switch rapid.IntRange(0, 9).Draw(t, "numkind") {
		case 0, 1, 2, 3:
			return Int(int64(rapid.IntRange(-5, 12).Draw(t, "i")))
		case 4:
			return Int(int64(rapid.IntRange(-1000000, 1000000).Draw(t, "bigi")))
		case 5, 6, 7:
			return Float(float64(rapid.IntRange(-40, 80).Draw(t, "q")) / 4)
		case 8:
			return Float(rapid.Float64Range(-1e6, 1e6).Draw(t, "f"))
		default:
			return Float(0)
		}
	})
}

// Pause is a producer-side schedule step between emits.
// 0 none, 1 Gosched, 2 100µs, 3 2ms, 4 barrier (wait until engine quiescent per harness predicate).
func Pause() *rapid.Generator[int] {
	return rapid.Custom(func(t *rapid.T) int {
		x := rapid.IntRange(0, 19).Draw(t, "pause")
		switch {
		case x < 12:
			return 0
		case x < 15:
			return 1
		case x < 17:
			return 2
		case x < 18:
			return 3
		default:
			return 4
		}
	})
}

// CollidingPair returns two distinct tuples of n >= 2 string components (plus filler) built to coincide under a
// naive separator join: (x+sep+y, z, ...) vs (x, y+sep+z, ...), or a NULL component next to a look-alike literal.
func CollidingPair() *rapid.Generator[[2][]Val] {
	return rapid.Custom(func(t *rapid.T) [2][]Val {
		parts := []string{"a", "b", "c", "", "x"}
		x := rapid.SampledFrom(parts).Draw(t, "cx")
		y := rapid.SampledFrom(parts).Draw(t, "cy")
		z := rapid.SampledFrom(parts).Draw(t, "cz")
		sep := rapid.SampledFrom([]string{"|", "\x1f", ",", "\x00", ":"}).Draw(t, "csep")
		switch rapid.IntRange(0, 3).Draw(t, "ckind") {
		case 0:
			return [2][]Val{{Str(x + sep + y), Str(z)}, {Str(x), Str(y + sep + z)}}
		case 1:
			lit := rapid.SampledFrom([]string{"", "\\N", "\x00NULL", "<nil>", "NULL", "nil"}).Draw(t, "clit")
			return [2][]Val{{Nil(), Str(z)}, {Str(lit), Str(z)}}
		case 2:
			return [2][]Val{{Str(x), Nil()}, {Str(x + sep), Str("")}}
		default:
			return [2][]Val{{Str(x + sep), Str(y)}, {Str(x), Str(sep + y)}}
		}
	})
}
