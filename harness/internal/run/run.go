// Package run builds engine instances with a recording synchronous sink and provides
// deadline-bounded waiting ("wait until predicate or deadline").
package run

import (
	"fmt"
	"reflect"
	"runtime"
	"strings"
	"sync"
	"sync/atomic"
	"time"

	"github.com/rulego/streamsql"
	"github.com/rulego/streamsql/logger"
)

func init() {
	logger.SetDefault(logger.NewDiscardLogger())
}

// Delivery is one sink invocation.
type Delivery struct {
	Seq     int              // order of delivery
	Started int64            // number of Emit calls that had begun when this delivery was seen
	Rows    []map[string]any // deep copies
	Raw     []map[string]any // the references handed to the sink (for C20)
	At      time.Time
}

// Inst is an engine instance with a recording sync sink.
type Inst struct {
	S       *streamsql.Streamsql
	mu      sync.Mutex
	cond    *sync.Cond
	dels    []Delivery
	started int64
	stopped bool
	KeepRaw bool
}

// DefaultOpts: never drop input (see DESIGN §1).
func DefaultOpts() []streamsql.Option {
	return []streamsql.Option{streamsql.WithOverflowStrategy("block", 0)}
}

// Open creates an instance, executes sql and installs the recorder. opts nil => DefaultOpts.
func Open(sql string, opts ...streamsql.Option) (*Inst, error) {
	if opts == nil {
		opts = DefaultOpts()
	}
	in := &Inst{}
	in.cond = sync.NewCond(&in.mu)
	var err error
	func() {
		defer func() {
			if r := recover(); r != nil {
				err = fmt.Errorf("PANIC in Execute: %v", r)
			}
		}()
		in.S = streamsql.New(opts...)
		err = in.S.Execute(sql)
	}()
	if err != nil {
		return nil, err
	}
	in.S.AddSyncSink(in.sink)
	return in, nil
}

func (in *Inst) sink(rows []map[string]any) {
	cp := make([]map[string]any, len(rows))
	for i, r := range rows {
		cp[i] = DeepCopy(r).(map[string]any)
	}
	in.mu.Lock()
	d := Delivery{Seq: len(in.dels), Started: atomic.LoadInt64(&in.started), Rows: cp, At: time.Now()}
	if in.KeepRaw {
		d.Raw = rows
	}
	in.dels = append(in.dels, d)
	in.cond.Broadcast()
	in.mu.Unlock()
}

// Emit counts the call as started, then emits.
func (in *Inst) Emit(row map[string]any) {
	atomic.AddInt64(&in.started, 1)
	in.S.Emit(row)
}

// Deliveries returns a snapshot.
func (in *Inst) Deliveries() []Delivery {
	in.mu.Lock()
	defer in.mu.Unlock()
	out := make([]Delivery, len(in.dels))
	copy(out, in.dels)
	return out
}

// Rows returns all delivered rows flattened, in delivery order.
func (in *Inst) Rows() []map[string]any {
	var out []map[string]any
	for _, d := range in.Deliveries() {
		out = append(out, d.Rows...)
	}
	return out
}

// WaitFor waits until pred(deliveries) holds or the deadline passes; returns whether it held.
func (in *Inst) WaitFor(deadline time.Duration, pred func([]Delivery) bool) bool {
	end := time.Now().Add(deadline)
	in.mu.Lock()
	defer in.mu.Unlock()
	for {
		if pred(in.dels) {
			return true
		}
		rem := time.Until(end)
		if rem <= 0 {
			return false
		}
		// cond has no timed wait: poll with a helper timer
		t := time.AfterFunc(minDur(rem, 5*time.Millisecond), func() {
			in.mu.Lock()
			in.cond.Broadcast()
			in.mu.Unlock()
		})
		in.cond.Wait()
		t.Stop()
	}
}

// WaitRows waits until at least n rows were delivered in total.
func (in *Inst) WaitRows(deadline time.Duration, n int) bool {
	return in.WaitFor(deadline, func(ds []Delivery) bool {
		c := 0
		for _, d := range ds {
			c += len(d.Rows)
		}
		return c >= n
	})
}

// Settle waits for d to observe extra deliveries.
func (in *Inst) Settle(d time.Duration) { time.Sleep(d) }

// Stop stops the instance (idempotent in the harness).
func (in *Inst) Stop() {
	in.mu.Lock()
	st := in.stopped
	in.stopped = true
	in.mu.Unlock()
	if !st {
		in.S.Stop()
	}
}

func minDur(a, b time.Duration) time.Duration {
	if a < b {
		return a
	}
	return b
}

// DeepCopy copies maps and slices recursively (other values are immutable scalars or copied by value).
func DeepCopy(v any) any {
	switch x := v.(type) {
	case map[string]any:
		m := make(map[string]any, len(x))
		for k, e := range x {
			m[k] = DeepCopy(e)
		}
		return m
	case []any:
		s := make([]any, len(x))
		for i, e := range x {
			s[i] = DeepCopy(e)
		}
		return s
	case []map[string]any:
		s := make([]map[string]any, len(x))
		for i, e := range x {
			s[i] = DeepCopy(e).(map[string]any)
		}
		return s
	case []string:
		return append([]string(nil), x...)
	case []float64:
		return append([]float64(nil), x...)
	case []int:
		return append([]int(nil), x...)
	}
	rv := reflect.ValueOf(v)
	if rv.IsValid() {
		switch rv.Kind() {
		case reflect.Slice:
			if rv.IsNil() {
				return v
			}
			n := reflect.MakeSlice(rv.Type(), rv.Len(), rv.Len())
			for i := 0; i < rv.Len(); i++ {
				c := DeepCopy(rv.Index(i).Interface())
				if c == nil {
					continue
				}
				n.Index(i).Set(reflect.ValueOf(c))
			}
			return n.Interface()
		case reflect.Map:
			if rv.IsNil() {
				return v
			}
			n := reflect.MakeMapWithSize(rv.Type(), rv.Len())
			it := rv.MapRange()
			for it.Next() {
				c := DeepCopy(it.Value().Interface())
				if c == nil {
					n.SetMapIndex(it.Key(), reflect.Zero(rv.Type().Elem()))
					continue
				}
				n.SetMapIndex(it.Key(), reflect.ValueOf(c))
			}
			return n.Interface()
		}
	}
	return v
}

// EngineGoroutines counts goroutines whose stack mentions the engine's packages (excluding harness frames only).
func EngineGoroutines() (int, string) {
	buf := make([]byte, 1<<20)
	for {
		n := runtime.Stack(buf, true)
		if n < len(buf) {
			buf = buf[:n]
			break
		}
		buf = make([]byte, 2*len(buf))
	}
	cnt := 0
	var sb strings.Builder
	for _, g := range strings.Split(string(buf), "\n\n") {
		if strings.Contains(g, "github.com/rulego/streamsql") && !strings.Contains(g, "run.EngineGoroutines") {
			cnt++
			sb.WriteString(g)
			sb.WriteString("\n\n")
		}
	}
	return cnt, sb.String()
}
