package run

import (
	"reflect"
	"sync"
	"unsafe"

	"github.com/rulego/streamsql/functions"
)

// ResetExprCaches empties the process-wide compiled-program and preprocess caches of the expression bridge
// (unexported sync.Map fields), so that what follows starts from the state of a fresh process. Only call it while no
// instance is running. Returns false if the fields are gone (then nothing was reset).
func ResetExprCaches() bool {
	b := functions.GetExprBridge()
	v := reflect.ValueOf(b).Elem()
	ok := true
	for _, name := range []string{"programCache", "preprocessCache"} {
		f := v.FieldByName(name)
		if !f.IsValid() || f.Type() != reflect.TypeOf(sync.Map{}) {
			ok = false
			continue
		}
		m := (*sync.Map)(unsafe.Pointer(f.UnsafeAddr()))
		m.Range(func(k, _ any) bool { m.Delete(k); return true })
	}
	return ok
}
