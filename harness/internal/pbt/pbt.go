// Package pbt is the shared shape of every check: Case value + generator + run/oracle,
// driven by rapid, with evidence collection, known-finding filtering and replay files.
package pbt

import (
	"encoding/json"
	"fmt"
	"hash/fnv"
	"os"
	"path/filepath"
	"sort"
	"strconv"
	"strings"
	"sync"
	"sync/atomic"
	"testing"
	"time"

	"pgregory.net/rapid"
)

// Disc is one discrepancy between the engine and the oracle.
type Disc struct {
	Kind   string `json:"kind"`
	Detail string `json:"detail"`
}

func D(kind, format string, a ...any) Disc {
	return Disc{Kind: kind, Detail: fmt.Sprintf(format, a...)}
}

// Result is what running one case yields.
type Result struct {
	Discs      []Disc
	NonTrivial bool     // by the property's stated rule
	Classes    []string // distribution labels (counted in evidence)
	Counters   map[string]int64
}

func (r *Result) Add(d ...Disc)     { r.Discs = append(r.Discs, d...) }
func (r *Result) Class(c ...string) { r.Classes = append(r.Classes, c...) }
func (r *Result) Count(k string, n int64) {
	if r.Counters == nil {
		r.Counters = map[string]int64{}
	}
	r.Counters[k] += n
}

// Spec describes one property check.
type Spec[C any] struct {
	ID          string
	Rule        string
	Assumptions []string
	Gen         func(t *rapid.T) C
	Run         func(c C) Result
	// Features names the known-finding shapes a case exhibits (see known_findings.json "feature").
	Features func(c C) []string
	// WAL: write the case to disk before running it (crash/deadlock leaves a replay file).
	WAL bool
	// Trim may shorten a case for the evidence samples (optional).
	Trim func(c C) any
}

// ---- known findings ----

type Finding struct {
	ID       string          `json:"id"`
	Property string          `json:"property"`
	Status   string          `json:"status"`          // "open" or "fixed"
	Kind     string          `json:"kind"`            // discrepancy kind it explains
	Kinds    []string        `json:"kinds,omitempty"` // further kinds with the same root cause
	Feature  string          `json:"feature"`
	What     string          `json:"what"`
	Commit   string          `json:"commit,omitempty"`
	Witness  json.RawMessage `json:"witness,omitempty"`
}

func (f *Finding) explains(kind string) bool {
	m := func(pat string) bool {
		if strings.HasSuffix(pat, "*") {
			return strings.HasPrefix(kind, strings.TrimSuffix(pat, "*"))
		}
		return pat == kind
	}
	if m(f.Kind) {
		return true
	}
	for _, k := range f.Kinds {
		if m(k) {
			return true
		}
	}
	return false
}

type findingsFile struct {
	Findings []Finding `json:"findings"`
}

var (
	kfOnce sync.Once
	kfAll  []Finding
)

func verifDir() string {
	if d := os.Getenv("VERIF_DIR"); d != "" {
		return d
	}
	return "/verif"
}

func loadFindings() []Finding {
	kfOnce.Do(func() {
		b, err := os.ReadFile(filepath.Join(verifDir(), "known_findings.json"))
		if err != nil {
			return
		}
		var f findingsFile
		if err := json.Unmarshal(b, &f); err != nil {
			panic("known_findings.json: " + err.Error())
		}
		kfAll = f.Findings
	})
	return kfAll
}

// OpenFindings returns the open findings of a property.
func OpenFindings(prop string) []Finding {
	var out []Finding
	for _, f := range loadFindings() {
		if f.Property == prop && f.Status == "open" {
			out = append(out, f)
		}
	}
	return out
}

// Open reports whether the finding-feature is listed as open for the property; generators use it
// to exclude a confirmed-defect shape from the main search (counted via Excluded).
func Open(prop, feature string) bool {
	for _, f := range OpenFindings(prop) {
		if f.Feature == feature {
			return true
		}
	}
	return false
}

// ---- evidence ----

type evidence struct {
	mu          sync.Mutex
	Evaluations int64            `json:"evaluations"`
	NonTrivial  map[string]bool  `json:"-"`
	NTHashes    []string         `json:"nontrivial_hashes"`
	Classes     map[string]int64 `json:"classes"`
	Counters    map[string]int64 `json:"counters"`
	Samples     []any            `json:"samples"`
	Violations  int64            `json:"violations"`
	Suppressed  map[string]int64 `json:"suppressed_known_findings"`
	KnownLines  []string         `json:"known_finding_lines"`
	Discs       []Disc           `json:"discrepancies,omitempty"`
	Replay      string           `json:"replay,omitempty"`
	WallS       float64          `json:"wall_s"`
	Seed        int64            `json:"seed"`
	Rule        string           `json:"rule"`
	Assumptions []string         `json:"assumptions"`
	Requested   int64            `json:"requested_checks"`
}

func hashCase(c any) string {
	b, _ := json.Marshal(c)
	h := fnv.New64a()
	h.Write(b)
	return strconv.FormatUint(h.Sum64(), 16)
}

func envInt(k string, def int64) int64 {
	if s := os.Getenv(k); s != "" {
		if n, err := strconv.ParseInt(s, 10, 64); err == nil {
			return n
		}
	}
	return def
}

func replayDir() string {
	if d := os.Getenv("VERIF_REPLAY_DIR"); d != "" {
		return d
	}
	return filepath.Join(verifDir(), "replays")
}

func writeJSON(path string, v any) {
	b, err := json.MarshalIndent(v, "", " ")
	if err != nil {
		b = []byte(fmt.Sprintf("{\"marshal_error\":%q}", err.Error()))
	}
	tmp := path + ".tmp"
	_ = os.MkdirAll(filepath.Dir(path), 0o755)
	_ = os.WriteFile(tmp, b, 0o644)
	_ = os.Rename(tmp, path)
}

func matchFinding(open []Finding, d Disc, feats []string) *Finding {
	for i := range open {
		f := &open[i]
		if !f.explains(d.Kind) {
			continue
		}
		if f.Feature == "" {
			continue
		}
		for _, ft := range feats {
			if ft == f.Feature {
				return f
			}
		}
	}
	return nil
}

var failedOnce atomic.Bool

// Shrinking reports whether a failing case has already been seen in this process (rapid is now
// minimising it). Checks shorten their "wait for a delivery that never comes" deadlines then; the
// driver confirms the minimised case with full deadlines (TestReplay) and falls back to the
// original failing case (<replay>.orig.json) otherwise.
func Shrinking() bool { return failedOnce.Load() }

// Wait returns the deadline to use for a bounded wait.
func Wait(full time.Duration) time.Duration {
	if os.Getenv("VERIF_REPLAY") != "" || !Shrinking() {
		return full
	}
	d := full / 8
	if d < 250*time.Millisecond {
		d = 250 * time.Millisecond
	}
	return d
}

// RunProp drives the property with rapid and writes the partial evidence file named by VERIF_OUT.
func RunProp[C any](t *testing.T, s Spec[C]) {
	ev := &evidence{NonTrivial: map[string]bool{}, Classes: map[string]int64{}, Counters: map[string]int64{},
		Suppressed: map[string]int64{}, Rule: s.Rule, Assumptions: s.Assumptions}
	ev.Seed = envInt("VERIF_SHARD_SEED", 0)
	ev.Requested = envInt("VERIF_CHECKS", 0)
	shard := os.Getenv("VERIF_SHARD")
	if shard == "" {
		shard = "0"
	}
	maxSamples := int(envInt("VERIF_SAMPLES", 4))
	open := OpenFindings(s.ID)
	replayPath := filepath.Join(replayDir(), fmt.Sprintf("%s-seed%d-shard%s.json", s.ID, envInt("VERIF_SEED", 0), shard))
	walPath := filepath.Join(replayDir(), fmt.Sprintf("%s-seed%d-shard%s.inflight.json", s.ID, envInt("VERIF_SEED", 0), shard))
	_ = os.Remove(replayPath)
	_ = os.Remove(strings.TrimSuffix(replayPath, ".json") + ".orig.json")
	_ = os.Remove(walPath)
	start := time.Now()
	out := os.Getenv("VERIF_OUT")
	flush := func() {
		ev.mu.Lock()
		defer ev.mu.Unlock()
		ev.WallS = time.Since(start).Seconds()
		if t.Failed() {
			ev.Violations = 1
		} else {
			// a run that ends without a failing case leaves no replay file behind
			_ = os.Remove(replayPath)
			_ = os.Remove(strings.TrimSuffix(replayPath, ".json") + ".orig.json")
			ev.Violations = 0
			ev.Discs = nil
			ev.Replay = ""
		}
		ev.NTHashes = ev.NTHashes[:0]
		for h := range ev.NonTrivial {
			ev.NTHashes = append(ev.NTHashes, h)
		}
		sort.Strings(ev.NTHashes)
		if out != "" {
			writeJSON(out, ev)
		}
	}
	defer flush()

	rapid.Check(t, func(rt *rapid.T) {
		c := s.Gen(rt)
		if s.WAL {
			writeJSON(walPath, c)
		}
		res := s.Run(c)
		var feats []string
		if s.Features != nil {
			feats = s.Features(c)
		}
		ev.mu.Lock()
		ev.Evaluations++
		for _, cl := range res.Classes {
			ev.Classes[cl]++
		}
		for k, n := range res.Counters {
			ev.Counters[k] += n
		}
		if res.NonTrivial {
			ev.NonTrivial[hashCase(c)] = true
			ev.Classes["nontrivial"]++
		}
		n := ev.Evaluations
		if len(ev.Samples) < maxSamples && res.NonTrivial && (n == 1 || n%97 == 3 || len(ev.Samples) == 0) {
			if s.Trim != nil {
				ev.Samples = append(ev.Samples, s.Trim(c))
			} else {
				ev.Samples = append(ev.Samples, c)
			}
		}
		ev.mu.Unlock()
		var bad []Disc
		for _, d := range res.Discs {
			if f := matchFinding(open, d, feats); f != nil {
				ev.mu.Lock()
				ev.Suppressed[f.ID]++
				ev.mu.Unlock()
				continue
			}
			bad = append(bad, d)
		}
		if s.WAL {
			_ = os.Remove(walPath)
		}
		if len(bad) > 0 {
			ev.mu.Lock()
			ev.Violations++
			ev.Discs = bad
			ev.Replay = replayPath
			ev.mu.Unlock()
			if !failedOnce.Swap(true) {
				writeJSON(strings.TrimSuffix(replayPath, ".json")+".orig.json", c)
			}
			writeJSON(replayPath, c)
			var sb strings.Builder
			for _, d := range bad {
				fmt.Fprintf(&sb, "\n  VERIF-DISC kind=%s detail=%s", d.Kind, strings.ReplaceAll(d.Detail, "\n", " // "))
			}
			rt.Fatalf("property %s violated (replay %s):%s", s.ID, replayPath, sb.String())
		}
	})
}

// RunReplay runs the case stored in VERIF_REPLAY once (or VERIF_REPLAY_N times) without rapid.
func RunReplay[C any](t *testing.T, s Spec[C]) {
	path := os.Getenv("VERIF_REPLAY")
	if path == "" {
		t.Skip("VERIF_REPLAY not set")
	}
	b, err := os.ReadFile(path)
	if err != nil {
		t.Fatalf("read replay: %v", err)
	}
	var c C
	if err := json.Unmarshal(b, &c); err != nil {
		t.Fatalf("decode replay: %v", err)
	}
	n := int(envInt("VERIF_REPLAY_N", 1))
	open := OpenFindings(s.ID)
	for i := 0; i < n; i++ {
		res := s.Run(c)
		var feats []string
		if s.Features != nil {
			feats = s.Features(c)
		}
		var bad []Disc
		for _, d := range res.Discs {
			if f := matchFinding(open, d, feats); f != nil {
				fmt.Printf("KNOWN-FINDING: property=%s %s (%s)\n", s.ID, f.What, f.ID)
				continue
			}
			bad = append(bad, d)
		}
		if len(bad) > 0 {
			for _, d := range bad {
				fmt.Printf("  VERIF-DISC kind=%s detail=%s\n", d.Kind, d.Detail)
			}
			t.Fatalf("replay %s: property %s violated (run %d/%d)", path, s.ID, i+1, n)
		}
	}
}

// RunWitnesses runs the witness case of every open finding of the property; it prints a
// KNOWN-FINDING line for each whose behaviour is still present, and fails on any *other* discrepancy.
// Output lines are also appended to VERIF_KF_OUT (one per line) for the driver.
func RunWitnesses[C any](t *testing.T, s Spec[C]) {
	open := OpenFindings(s.ID)
	var lines []string
	for _, f := range open {
		if len(f.Witness) == 0 {
			continue
		}
		var c C
		if err := json.Unmarshal(f.Witness, &c); err != nil {
			t.Fatalf("finding %s: bad witness: %v", f.ID, err)
		}
		hit := false
		// schedule-dependent witnesses get a few attempts
		for try := 0; try < 3 && !hit; try++ {
			res := s.Run(c)
			for _, d := range res.Discs {
				if f.explains(d.Kind) {
					hit = true
				}
			}
		}
		if hit {
			l := fmt.Sprintf("KNOWN-FINDING: property=%s %s [%s]", s.ID, f.What, f.ID)
			fmt.Println(l)
			lines = append(lines, l)
		} else {
			fmt.Printf("NOTE: finding %s no longer reproduces on this tree\n", f.ID)
		}
	}
	if p := os.Getenv("VERIF_KF_OUT"); p != "" {
		_ = os.WriteFile(p, []byte(strings.Join(lines, "\n")), 0o644)
	}
}
