// Package et holds what the event-time window checks share: events, the arrival/watermark model,
// timeline generation and emission with producer-side schedules.
package et

import (
	"fmt"
	"runtime"
	"strconv"
	"time"

	"pgregory.net/rapid"
	"verifharness/internal/gen"
	"verifharness/internal/run"
)

// Base is a fixed 2023 epoch (ms), far below "now", so no case reads the wall clock.
const Base int64 = 1_700_000_000_000

// FarFuture is year 2100 in ms: always beyond now+24h.
const FarFuture int64 = 4_102_444_800_000

type Event struct {
	ID int     `json:"id"`
	TS int64   `json:"ts"` // ms
	G  string  `json:"g,omitempty"`
	V  float64 `json:"v"`
	// Garbage: "", "future" (year 2100), "nots" (no ts field), "nullts", "strts" (non-numeric string)
	Garbage string `json:"garbage,omitempty"`
}

// Arrival describes one event against the watermark model at its arrival.
type Arrival struct {
	MaxBefore int64 // running max before this event (0 if none)
	MaxAfter  int64
	WM        int64 // watermark after this event = MaxAfter - OOO
	Late      bool  // ts < max(ts up to and including e) - OOO
}

// Model replays the arrival sequence (garbage rows never move the watermark).
func Model(evs []Event, ooo int64) []Arrival {
	out := make([]Arrival, len(evs))
	var max int64
	seen := false
	for i, e := range evs {
		a := Arrival{MaxBefore: max}
		if e.Garbage == "" {
			if !seen || e.TS > max {
				max = e.TS
				seen = true
			}
			a.Late = e.TS < max-ooo
		}
		a.MaxAfter = max
		a.WM = max - ooo
		out[i] = a
	}
	return out
}

// TsVal encodes a ms timestamp for the engine in the given unit and Go kind.
func TsVal(ms int64, unit string, kind string) any {
	if kind == "time" {
		return time.UnixMilli(ms)
	}
	x := ms
	switch unit {
	case "ss":
		x = ms / 1000
	case "mi":
		x = ms / 60000
	case "ns":
		x = ms * 1000000
	}
	switch kind {
	case "int64":
		return x
	case "float64":
		return float64(x)
	case "string":
		return strconv.FormatInt(x, 10)
	default:
		return int(x)
	}
}

// Row builds the engine row for an event.
func Row(e Event, unit, kind string, withGroup bool) map[string]any {
	r := map[string]any{"id": e.ID, "v": e.V}
	if withGroup {
		r["g"] = e.G
	}
	switch e.Garbage {
	case "":
		r["ts"] = TsVal(e.TS, unit, kind)
	case "future":
		r["ts"] = TsVal(FarFuture, unit, kind)
	case "nots":
	case "nullts":
		r["ts"] = nil
	case "strts":
		r["ts"] = "not-a-time"
	}
	return r
}

// With renders the WITH clause.
func With(unit string, oooMs, alMs int64) string {
	s := fmt.Sprintf("WITH (TIMESTAMP='ts', TIMEUNIT='%s'", unit)
	if oooMs > 0 {
		s += fmt.Sprintf(", MAXOUTOFORDERNESS='%dms'", oooMs)
	}
	if alMs > 0 {
		s += fmt.Sprintf(", ALLOWEDLATENESS='%dms'", alMs)
	}
	return s + ")"
}

// DoPause executes a producer-side schedule step.
func DoPause(p int) {
	switch p {
	case 1:
		runtime.Gosched()
	case 2:
		time.Sleep(100 * time.Microsecond)
	case 3:
		time.Sleep(2 * time.Millisecond)
	case 4:
		time.Sleep(600 * time.Microsecond)
	}
}

// Timeline parameters.
type TLParams struct {
	SizeMs   int64 // window size / slide / timeout scale used for deltas
	OOOMs    int64
	UnitMs   int64 // 1 or 1000: all timestamps are multiples of it
	Groups   int   // 0 = no group column; else number of groups
	MaxN     int
	PreFirst bool // allow an on-time event earlier than the first event's aligned window
}

// GenTimeline draws 1..MaxN events: a model clock advances by drawn deltas (0, sub-size, exact
// boundary, boundary-1, k*size, long jumps); each event is pulled back by a jitter in [0, 2*OOO].
func GenTimeline(t *rapid.T, p TLParams) []Event {
	n := rapid.IntRange(1, p.MaxN).Draw(t, "n")
	u := p.UnitMs
	al := func(x int64) int64 { return x / u * u }
	cur := Base + al(rapid.Int64Range(0, 3*p.SizeMs).Draw(t, "start"))
	evs := make([]Event, 0, n)
	var firstAligned int64
	var max int64
	for i := 0; i < n; i++ {
		switch rapid.IntRange(0, 9).Draw(t, "delta") {
		case 0:
			// same timestamp
		case 1, 2, 3:
			cur += al(rapid.Int64Range(0, p.SizeMs).Draw(t, "sub"))
		case 4:
			cur = (cur/p.SizeMs + 1) * p.SizeMs // exactly on the next boundary
		case 5:
			cur = (cur/p.SizeMs+1)*p.SizeMs - u // one unit before the boundary
		case 6:
			cur += p.SizeMs * rapid.Int64Range(1, 3).Draw(t, "k")
		case 7:
			cur += al(rapid.Int64Range(p.SizeMs, 20*p.SizeMs).Draw(t, "jump"))
		default:
			cur += u * rapid.Int64Range(0, 5).Draw(t, "tiny")
		}
		ts := cur
		if p.OOOMs > 0 {
			switch rapid.IntRange(0, 5).Draw(t, "jit") {
			case 0, 1:
			case 2, 3:
				ts -= al(rapid.Int64Range(0, p.OOOMs).Draw(t, "within"))
			case 4:
				ts -= p.OOOMs // exactly at the tolerance
			default:
				ts -= al(rapid.Int64Range(p.OOOMs, 2*p.OOOMs).Draw(t, "beyond"))
			}
		} else if rapid.IntRange(0, 7).Draw(t, "lateNoOOO") == 0 {
			ts -= al(rapid.Int64Range(1, 2*p.SizeMs).Draw(t, "back"))
		}
		if ts < Base/2 {
			ts = Base / 2
		}
		if i == 0 {
			firstAligned = ts / p.SizeMs * p.SizeMs
		} else if !p.PreFirst && ts < firstAligned && ts >= max-p.OOOMs {
			ts = firstAligned // on-time event before the first window is excluded by construction
		}
		if ts > max {
			max = ts
		}
		e := Event{ID: i, TS: ts, V: float64(rapid.IntRange(-20, 40).Draw(t, "v")) / 4}
		if p.Groups > 0 {
			e.G = fmt.Sprintf("g%d", rapid.IntRange(1, p.Groups).Draw(t, "g"))
		}
		evs = append(evs, e)
	}
	return evs
}

// MaxTS returns the largest non-garbage timestamp.
func MaxTS(evs []Event) int64 {
	var m int64
	for _, e := range evs {
		if e.Garbage == "" && e.TS > m {
			m = e.TS
		}
	}
	return m
}

// IDs extracts collect(id) as ints.
func IDs(v any) ([]int, bool) {
	l, ok := v.([]any)
	if !ok {
		return nil, v == nil
	}
	out := make([]int, len(l))
	for i, e := range l {
		f, ok := gen.ToFloat(e)
		if !ok {
			return nil, false
		}
		out[i] = int(f)
	}
	return out, true
}

// MsOf converts window_start()/window_end() (ns) to ms.
func MsOf(v any) (int64, bool) {
	f, ok := gen.ToFloat(v)
	if !ok {
		return 0, false
	}
	switch x := v.(type) {
	case int64:
		return x / 1e6, true
	case int:
		return int64(x) / 1e6, true
	}
	return int64(f / 1e6), true
}

// SeenIDs returns the set of ids present in any delivery.
func SeenIDs(ds []run.Delivery) map[int]bool {
	m := map[int]bool{}
	for _, d := range ds {
		for _, r := range d.Rows {
			ids, _ := IDs(r["ids"])
			for _, id := range ids {
				m[id] = true
			}
		}
	}
	return m
}
