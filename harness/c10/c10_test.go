package c10

import (
	"fmt"
	"sort"
	"strings"
	"testing"
	"time"
	"verifharness/internal/hook"

	"pgregory.net/rapid"
	"verifharness/internal/et"
	"verifharness/internal/gen"
	"verifharness/internal/pbt"
	"verifharness/internal/run"
)

type Case struct {
	TimeoutMs int64      `json:"timeout_ms"`
	OOOMs     int64      `json:"ooo_ms"`
	Events    []et.Event `json:"events"` // arrival order
	Pauses    []int      `json:"pauses"`
	Both      bool       `json:"both"`                // also run burst and paced and compare (in-order cases)
	HookSeed  uint64     `json:"hook_seed,omitempty"` // seed of the engine's build-tag-guarded perturbation points (0 = off)
	LongBurst bool       `json:"long_burst,omitempty"`
	Nested    bool       `json:"nested,omitempty"` // the key column lives under a map column: GROUP BY dev.g (selected AS g)
}

// genLongBurst: 120-500 rows with strictly increasing timestamps over 1-2 keys, most of them further than the timeout
// from their predecessor (so nearly every row closes a session), fed back to back and followed by silence.
func genLongBurst(t *rapid.T) Case {
	c := Case{TimeoutMs: rapid.SampledFrom([]int64{100, 500}).Draw(t, "timeout"), LongBurst: true}
	T := c.TimeoutMs
	nk := rapid.IntRange(1, 2).Draw(t, "keys")
	n := rapid.IntRange(120, 500).Draw(t, "n")
	ts := et.Base
	for i := 0; i < n; i++ {
		ts += rapid.SampledFrom([]int64{T + 1, T + 1, 2 * T, T / 2, 3 * T}).Draw(t, "gap")
		c.Events = append(c.Events, et.Event{ID: i, TS: ts, G: fmt.Sprintf("k%d", 1+i%nk), V: 1})
		c.Pauses = append(c.Pauses, 0)
	}
	c.HookSeed = hookSeed(t)
	return c
}

func genCase(t *rapid.T) Case {
	if x := rapid.IntRange(0, 39).Draw(t, "long"); x == 17 || x == 29 {
		return genLongBurst(t)
	}
	c := Case{TimeoutMs: rapid.SampledFrom([]int64{500, 1000, 2000, 5000}).Draw(t, "timeout")}
	c.OOOMs = rapid.SampledFrom([]int64{0, 0, 1000, c.TimeoutMs / 2, 2 * c.TimeoutMs, 3 * c.TimeoutMs}).Draw(t, "ooo")
	nk := rapid.IntRange(1, 3).Draw(t, "keys")
	T := c.TimeoutMs
	gaps := []int64{1, T / 2, T - 1, T, T + 1, 3 * T, 0, T / 4}
	// While the no-split finding is open, half of the cases still use gaps at/above the timeout: the kinds the
	// finding explains (sessions not split, speed dependence) are suppressed for them, everything else
	// (no event lost or reported twice, keys, bounds, early firing) is still checked.
	if pbt.Open("C10", "gap-at-or-above-timeout") && rapid.Bool().Draw(t, "avoidGaps") {
		gaps = []int64{1, T / 2, T - 1, 0, T / 4, T - 2}
	}
	var evs []et.Event
	id := 0
	for k := 0; k < nk; k++ {
		n := rapid.IntRange(1, 8).Draw(t, "nk")
		ts := et.Base + rapid.Int64Range(0, 2*T).Draw(t, "off")
		for i := 0; i < n; i++ {
			if i > 0 {
				ts += rapid.SampledFrom(gaps).Draw(t, "gap")
			}
			evs = append(evs, et.Event{ID: id, TS: ts, G: fmt.Sprintf("k%d", k+1), V: 1})
			id++
		}
	}
	sort.SliceStable(evs, func(i, j int) bool { return evs[i].TS < evs[j].TS })
	reordered := false
	if c.OOOMs > 0 && rapid.Bool().Draw(t, "jittersort") {
		// arrival order = order of ts + jitter with jitter in [0, OOO]: any displacement that keeps every row on time
		// (a row that arrives after a later one is at most OOO older than it), not only swaps of neighbours
		key := make(map[int]int64, len(evs))
		for _, e := range evs {
			j := rapid.Int64Range(0, c.OOOMs).Draw(t, "jit")
			switch rapid.IntRange(0, 2).Draw(t, "jitkind") { // the extremes let a whole earlier stretch arrive after a later row
			case 0:
				j = 0
			case 1:
				j = c.OOOMs
			}
			key[e.ID] = e.TS + j
		}
		before := fmt.Sprint(evs)
		sort.SliceStable(evs, func(i, j int) bool { return key[evs[i].ID] < key[evs[j].ID] })
		reordered = fmt.Sprint(evs) != before
	} else if c.OOOMs > 0 {
		for i := 0; i+1 < len(evs); i++ {
			if evs[i+1].TS-evs[i].TS <= c.OOOMs && evs[i+1].TS != evs[i].TS && rapid.IntRange(0, 3).Draw(t, "swap") == 0 {
				evs[i], evs[i+1] = evs[i+1], evs[i]
				reordered = true
				i++
			}
		}
	}
	// one case in four: the keys are the empty string and NULL (no key column) instead of k1 and k2
	if rapid.IntRange(0, 3).Draw(t, "nullkeys") == 0 {
		for i := range evs {
			switch evs[i].G {
			case "k1":
				evs[i].G = ""
			case "k2":
				evs[i].G = nullKey
			}
		}
	}
	// renumber ids in arrival order for readability
	for i := range evs {
		evs[i].ID = i
	}
	c.Events = evs
	mode := rapid.IntRange(0, 3).Draw(t, "feed")
	for range evs {
		switch mode {
		case 0:
			c.Pauses = append(c.Pauses, 0)
		case 1:
			c.Pauses = append(c.Pauses, 4)
		default:
			c.Pauses = append(c.Pauses, gen.Pause().Draw(t, "pause"))
		}
	}
	c.HookSeed = hookSeed(t)
	c.Both = !reordered && rapid.IntRange(0, 2).Draw(t, "both") == 0
	c.Nested = rapid.IntRange(0, 4).Draw(t, "nested") == 0 && !pbt.Open("C10", "nested-key")
	return c
}

func sqlOf(c Case) string {
	sel, key := "g", "g"
	if c.Nested {
		sel, key = "dev.g AS g", "dev.g"
	}
	return fmt.Sprintf("SELECT %s, count(*) AS c, collect(id) AS ids, window_start() AS ws, window_end() AS we FROM stream GROUP BY %s, SessionWindow('%dms') %s",
		sel, key, c.TimeoutMs, et.With("ms", c.OOOMs, 0))
}

// nullKey stands for the NULL group in the model (the engine row then has no key column); "" is the empty-string group.
const nullKey = "~null~"

// engineRow moves the key column under the map column dev when the case says so.
func engineRow(c Case, m map[string]any) map[string]any {
	if m["g"] == nullKey {
		delete(m, "g") // the NULL group: the row has no key column
	}
	if !c.Nested {
		return m
	}
	if g, ok := m["g"]; ok {
		delete(m, "g")
		m["dev"] = map[string]any{"g": g, "other": 1}
	}
	return m
}

type sess struct {
	g      string
	ids    []int
	ws, we int64
}

func feed(c Case, pauses []int, res *pbt.Result) ([]sess, []run.Delivery, bool) {
	in, err := run.Open(sqlOf(c))
	if err != nil {
		res.Add(pbt.D("execute-error", "%v for %s", err, sqlOf(c)))
		return nil, nil, false
	}
	defer in.Stop()
	arr := et.Model(c.Events, c.OOOMs)
	max := et.MaxTS(c.Events)
	flush := et.Event{ID: -1, TS: max + c.OOOMs + 2*c.TimeoutMs + 1, G: "__flush__"}
	all := append(append([]et.Event{}, c.Events...), flush)
	must := map[int]bool{}
	for i, e := range c.Events {
		if !arr[i].Late {
			must[e.ID] = true
		}
	}
	for i, e := range all {
		in.Emit(engineRow(c, et.Row(e, "ms", "int64", true)))
		if i < len(pauses) {
			et.DoPause(pauses[i])
		}
	}
	in.WaitFor(pbt.Wait(4*time.Second), func(ds []run.Delivery) bool {
		seen := et.SeenIDs(ds)
		for id := range must {
			if !seen[id] {
				return false
			}
		}
		return true
	})
	in.Settle(time.Millisecond)
	ds := in.Deliveries()
	var out []sess
	for _, d := range ds {
		for _, r := range d.Rows {
			ws, ok1 := et.MsOf(r["ws"])
			we, ok2 := et.MsOf(r["we"])
			ids, ok3 := et.IDs(r["ids"])
			if !ok1 || !ok2 || !ok3 {
				res.Add(pbt.D("bad-row", "row without ws/we/ids: %v", r))
				continue
			}
			g, isStr := r["g"].(string)
			if !isStr && r["g"] == nil {
				g = nullKey
			}
			if cnt, _ := gen.ToFloat(r["c"]); int(cnt) != len(ids) {
				res.Add(pbt.D("wrong-count", "count(*)=%v but %d ids", r["c"], len(ids)))
			}
			// no early firing
			okFire := false
			for i := 0; i < int(d.Started) && i < len(all); i++ {
				if all[i].TS >= we+c.OOOMs {
					okFire = true
					break
				}
			}
			if !okFire {
				res.Add(pbt.D("early-firing", "session of %q ending %d delivered after %d emits, none with ts >= %d", g, we, d.Started, we+c.OOOMs))
			}
			out = append(out, sess{g: g, ids: ids, ws: ws, we: we})
		}
	}
	return out, ds, true
}

func canon(ss []sess) string {
	var parts []string
	for _, s := range ss {
		ids := append([]int{}, s.ids...)
		sort.Ints(ids)
		parts = append(parts, fmt.Sprintf("%s%v[%d,%d)", s.g, ids, s.ws, s.we))
	}
	sort.Strings(parts)
	return strings.Join(parts, " ")
}

func runCase(c Case) (res pbt.Result) {
	hook.Configure(c.HookSeed)
	defer func() {
		for site, n := range hook.Sites() {
			res.Count("hook:"+site, n)
		}
		hook.Configure(0)
	}()
	ss, _, ok := feed(c, c.Pauses, &res)
	if !ok {
		return
	}
	arr := et.Model(c.Events, c.OOOMs)
	byID := map[int]et.Event{}
	late := map[int]bool{}
	for i, e := range c.Events {
		byID[e.ID] = e
		late[e.ID] = arr[i].Late
	}
	T := c.TimeoutMs
	where := map[int]int{}
	for si, s := range ss {
		var tss []int64
		for _, id := range s.ids {
			e, ok := byID[id]
			if !ok {
				res.Add(pbt.D("unknown-id", "id %d in a session of %q was never emitted (or is the flush row)", id, s.g))
				continue
			}
			if e.G != s.g {
				res.Add(pbt.D("wrong-key", "id %d of key %q reported in a session of key %q", id, e.G, s.g))
			}
			if prev, dup := where[id]; dup {
				res.Add(pbt.D("event-twice", "id %d reported in two sessions (%d and %d)", id, prev, si))
			}
			where[id] = si
			tss = append(tss, e.TS)
		}
		if len(tss) == 0 {
			continue
		}
		sort.Slice(tss, func(i, j int) bool { return tss[i] < tss[j] })
		for i := 1; i < len(tss); i++ {
			if tss[i]-tss[i-1] > T {
				res.Add(pbt.D("gap-in-session", "session of %q ids=%v holds consecutive timestamps %d and %d: gap %d > timeout %d", s.g, s.ids, tss[i-1], tss[i], tss[i]-tss[i-1], T))
			}
		}
		if s.ws != tss[0] {
			res.Add(pbt.D("wrong-start", "session of %q ids=%v: window_start=%d want earliest timestamp %d", s.g, s.ids, s.ws, tss[0]))
		}
		if s.we != tss[len(tss)-1]+T {
			res.Add(pbt.D("wrong-end", "session of %q ids=%v: window_end=%d want latest+timeout %d", s.g, s.ids, s.we, tss[len(tss)-1]+T))
		}
	}
	// completeness and no split below the timeout
	perKey := map[string][]et.Event{}
	for _, e := range c.Events {
		if late[e.ID] {
			continue
		}
		if _, ok := where[e.ID]; !ok {
			res.Add(pbt.D("event-lost", "accepted id %d (key %q ts=%d) is in no session result", e.ID, e.G, e.TS))
		}
		perKey[e.G] = append(perKey[e.G], e)
	}
	gapAbove, reordered := false, false
	for i, e := range c.Events {
		if !arr[i].Late && e.TS < arr[i].MaxAfter {
			reordered = true
		}
	}
	for _, evs := range perKey {
		sort.SliceStable(evs, func(i, j int) bool { return evs[i].TS < evs[j].TS })
		for i := 1; i < len(evs); i++ {
			g := evs[i].TS - evs[i-1].TS
			if g > T {
				gapAbove = true
			}
			a, okA := where[evs[i-1].ID]
			b, okB := where[evs[i].ID]
			if g < T && okA && okB && a != b {
				res.Add(pbt.D("split-below-timeout", "key %q: ids %d and %d are %d ms apart (< timeout %d) but in different sessions", evs[i].G, evs[i-1].ID, evs[i].ID, g, T))
			}
		}
	}
	if c.Both && len(res.Discs) == 0 {
		burst := make([]int, len(c.Events))
		paced := make([]int, len(c.Events))
		for i := range paced {
			paced[i] = 4
		}
		var r2 pbt.Result
		sb, _, ok1 := feed(c, burst, &r2)
		sp, _, ok2 := feed(c, paced, &r2)
		if ok1 && ok2 && canon(sb) != canon(sp) {
			res.Add(pbt.D("speed-dependent", "in-order input gives different sessions when fed in a burst vs paced:\n    burst: %s\n    paced: %s", canon(sb), canon(sp)))
		}
		res.Class("burst-vs-paced")
	}
	if gapAbove {
		res.Class("gap-above-timeout")
	}
	if reordered {
		res.Class("reordered")
	}
	if c.LongBurst {
		res.Class("long-burst")
	}
	res.NonTrivial = gapAbove || reordered
	return
}

func features(c Case) []string {
	var f []string
	if c.Nested {
		f = append(f, "nested-key")
	}
	arr := et.Model(c.Events, c.OOOMs)
	last := map[string]int64{}
	perKey := map[string][]int64{}
	for i, e := range c.Events {
		if arr[i].Late {
			continue
		}
		perKey[e.G] = append(perKey[e.G], e.TS)
		_ = last
	}
	for _, tss := range perKey {
		sort.Slice(tss, func(i, j int) bool { return tss[i] < tss[j] })
		for i := 1; i < len(tss); i++ {
			if tss[i]-tss[i-1] >= c.TimeoutMs {
				f = append(f, "gap-at-or-above-timeout")
				return f
			}
		}
	}
	return f
}

var spec = pbt.Spec[Case]{
	ID:          "C10",
	Rule:        "generated: event-time session windows (timeout 0.5-5 s, 1-3 keys (k1..k3 or, one case in four, the empty string and NULL in place of k1 and k2) in a plain column or, one case in five, nested under a map column (GROUP BY dev.g), per-key gaps from {0,1ms,T/4,T/2,T-1,T,T+1,3T}, OOO 0 / 1 s / T/2 / 2T / 3T with within-tolerance swaps of neighbours or arbitrary within-tolerance displacements (arrival order = order of ts + jitter), burst/paced/mixed feeding, flush row from another key; 5% long bursts of 120-500 strictly increasing rows, most closing a session, then silence). oracle: reference sessionizer invariants - every accepted event in exactly one session of its key, consecutive gaps inside a session <= timeout, accepted neighbours closer than the timeout share a session, window_start = earliest ts, window_end = latest + timeout, no early firing, burst == paced for in-order input. non-trivial = a key with a gap above the timeout or a reordered accepted row; distinct by case hash",
	Assumptions: []string{"input never dropped (block strategy)", "gap == timeout may or may not split", "late-on-arrival rows may be reported or not"},
	Gen:         genCase,
	Run:         runCase,
	Features:    features,
}

func TestProp(t *testing.T)    { pbt.RunProp(t, spec) }
func TestReplay(t *testing.T)  { pbt.RunReplay(t, spec) }
func TestWitness(t *testing.T) { pbt.RunWitnesses(t, spec) }

// hookSeed: two cases in three run with schedule perturbation at the engine's verif-tagged points.
func hookSeed(t *rapid.T) uint64 {
	if rapid.IntRange(0, 2).Draw(t, "hookon") == 0 {
		return 0
	}
	return uint64(rapid.IntRange(1, 1<<30).Draw(t, "hookseed"))
}
