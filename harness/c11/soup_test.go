package c11

import (
	"fmt"
	"strconv"
	"strings"

	"pgregory.net/rapid"
	"verifharness/internal/pbt"
)

// Soup is an arbitrary input string for the totality check: Pre + Unit*Rep + Post.
type Soup struct {
	Pre  []byte `json:"pre,omitempty"`
	Unit []byte `json:"unit,omitempty"`
	Rep  int    `json:"rep,omitempty"`
	Post []byte `json:"post,omitempty"`
	Mode string `json:"mode,omitempty"`
	Text string `json:"text,omitempty"` // quoted prefix of the input, for readers only
}

func (s *Soup) String() string {
	var sb strings.Builder
	sb.Write(s.Pre)
	for i := 0; i < s.Rep; i++ {
		sb.Write(s.Unit)
	}
	sb.Write(s.Post)
	return sb.String()
}

var soupKeywords = []string{"SELECT", "FROM", "WHERE", "GROUP", "BY", "AS", "OR", "AND", "TumblingWindow", "SlidingWindow",
	"CountingWindow", "SessionWindow", "GLOBAL", "WINDOW", "TRIGGER", "WITH", "TIMESTAMP", "TIMEUNIT", "MAXOUTOFORDERNESS",
	"ALLOWEDLATENESS", "IDLETIMEOUT", "STATETTL", "ORDER", "DISTINCT", "LIMIT", "HAVING", "LIKE", "IS", "NULL", "NOT", "CASE",
	"WHEN", "THEN", "ELSE", "END", "OVER", "PARTITION", "JOIN", "INNER", "LEFT", "OUTER", "ON", "MATCH_RECOGNIZE", "MEASURES",
	"ONE", "ROW", "ROWS", "ALL", "PER", "MATCH", "AFTER", "SKIP", "PAST", "LAST", "TO", "NEXT", "FIRST", "PATTERN", "PERMUTE",
	"SUBSET", "WITHIN", "DEFINE", "ASC", "DESC", "SECONDS", "IN", "BETWEEN", "EXISTS", "UNION", "CROSS", "FULL", "RIGHT"}

var soupWords = []string{"a", "b", "x1", "temp", "s.a", "a.b.c", "_", "_x", "count", "sum", "avg", "lag", "had_changed", "acc_sum",
	"changed_cols", "upper", "concat", "window_start", "nth_value", "unknown_fn", "expr", "stream", "t", "limit_x", "orders",
	"A", "B", "true", "false", "nil", "selct", "form", "wher", "gropu", "oder", "distinc",
	// calls nested in calls (the HAVING rewriter once cut overlapping spans out of range on max(max(x)))
	"max(max(0*0))", "sum(avg(a))", "count(sum(", "min(upper(max(a)))", "sum(a) + max(min(b))"}

var soupNumbers = []string{"0", "1", "42", "-1", "3.14", "1.2.3", "1.", ".5", "1e9", "0x1F", "99999999999999999999999", "-", "-0", "00", "1a", "5s"}

var soupStrings = []string{"'x'", "''", "'a b'", "\"x\"", "'5s'", "'ts'", "'ms'", "'1h'", "'x", "\"x", "'", "\"", "`", "`a`", "`a", "``",
	"'it''s'", "'\\''", "'%'", "'LIMIT 5'", "'a\nb'", "'\x00'", "'é'", "`order`"}

var soupPunct = []string{",", "(", ")", "[", "]", ".", "?", "|", "{", "}", "+", "-", "*", "/", "=", "==", ">", "<", ">=", "<=", "!=",
	"!", "<>", ";", "--", "/*", "*/", ":", "::", "@", "#", "$", "%", "^", "&", "&&", "||", "~", "\\", "{-", "-}", "()", "(*)", ",,", "=>"}

var soupOdd = []string{"\x00", "\xff", "\xfe\xff", "é", " ", " ", "中文", "\t", "\n", "\r", "\v", "\f", "\x1f", "\x7f", "😀", "\xc3", "\xe2\x82"}

var soupPrefixes = []string{"", "SELECT ", "SELECT * FROM s ", "SELECT a FROM s WHERE ", "SELECT a, ", "SELECT a FROM s GROUP BY ",
	"SELECT count(*) FROM s GROUP BY g, TumblingWindow(", "SELECT count(*) AS c FROM s GROUP BY g, GLOBAL WINDOW TRIGGER WHEN ",
	"SELECT * FROM s MATCH_RECOGNIZE ( ", "SELECT * FROM s MATCH_RECOGNIZE ( ORDER BY ts PATTERN ( ", "SELECT * FROM s MATCH_RECOGNIZE (ORDER BY ts MEASURES ",
	"SELECT * FROM s MATCH_RECOGNIZE (ORDER BY ts PATTERN (A) DEFINE A AS ", "SELECT * FROM s MATCH_RECOGNIZE (ORDER BY ts PATTERN (A) SUBSET ",
	"SELECT * FROM s MATCH_RECOGNIZE (ORDER BY ts PATTERN (A) WITHIN ", "SELECT * FROM s MATCH_RECOGNIZE (ORDER BY ts AFTER MATCH SKIP ",
	"SELECT a FROM s JOIN ", "SELECT a FROM s LEFT ", "SELECT a FROM s JOIN m ON ", "SELECT count(*) AS c FROM s GROUP BY TumblingWindow('1s') WITH (",
	"SELECT count(*) AS c FROM s GROUP BY TumblingWindow('1s') HAVING ", "SELECT a FROM s ORDER BY ", "SELECT a FROM s ORDER ", "SELECT a FROM s LIMIT ",
	"SELECT lag(a) OVER (", "SELECT lag(a) OVER (PARTITION BY ", "SELECT lag(a) OVER (WHEN ", "SELECT a FROM s WHERE lag(a) OVER (",
	"SELECT a FROM s WHERE had_changed(", "SELECT CASE WHEN ", "SELECT a AS ", "SELECT DISTINCT ", "SELECT sum(", "SELECT a FROM ", "SELECT a FROM s AS ",
	"SELECT changed_cols(\"p_\", true, ", "SELECT count(*) FROM s GROUP BY CountingWindow(3) OVER (", "select a from s where a = "}

var soupUnits = []string{"(", ")", "((", "a,", "a, ", "a AND ", "a OR b AND ", "x ", "'", "\"", "`", "((A|", "(A|B)", "SELECT ", "FROM ", "WHERE ",
	"1+", "!", "-", ".", "\x00", "é", "a.", "JOIN t ON a = b ", "JOIN t ON a = b AND ", "LEFT ", "upper(", "sum(", "lag(", "CASE WHEN ", "{", "A{1,2}",
	"?", "|", "A ", "A+", "A*?", "PERMUTE(", "[", "]", "GROUP BY ", "ORDER BY ", "LIMIT ", ",", "=", "NOT ", "a = 'x' AND ", "TIMESTAMP='ts', ",
	"U = (A), ", "A AS v > 0, ", "x AS y, ", "WITH (", "OVER (", "()", "1 ", "a.b.", "'x' ", "/*", "--"}

func soupToken(t *rapid.T, label string) string {
	switch k := rapid.IntRange(0, 19).Draw(t, label+"k"); {
	case k < 6:
		s := pick(t, label, soupKeywords)
		switch rapid.IntRange(0, 3).Draw(t, label+"c") {
		case 0:
			return strings.ToLower(s)
		case 1:
			return caseOf(s, 4)
		}
		return s
	case k < 10:
		return pick(t, label, soupWords)
	case k < 12:
		return pick(t, label, soupNumbers)
	case k < 14:
		return pick(t, label, soupStrings)
	case k < 18:
		return pick(t, label, soupPunct)
	case k < 19:
		return pick(t, label, soupOdd)
	default:
		return string(rapid.SliceOfN(rapid.Byte(), 1, 6).Draw(t, label+"b"))
	}
}

func soupTokens(t *rapid.T, label string, max int) string {
	n := rapid.IntRange(0, max).Draw(t, label+"n")
	var sb strings.Builder
	for i := 0; i < n; i++ {
		if i > 0 {
			sb.WriteString(rapid.SampledFrom([]string{" ", " ", " ", "", "\n", "\t", "  "}).Draw(t, label+"sep"))
		}
		sb.WriteString(soupToken(t, fmt.Sprintf("%s%d", label, i)))
	}
	return sb.String()
}

// hugeUnits: fragments repeated about a million times (megabyte inputs, parsed in a child process).
var hugeUnits = []string{"(", "((A|", "{-", "PERMUTE(", "!", "\x01", "#", "a,", "'", "x ", "1+", "JOIN t ON a = b ", "A ", "a AND "}

func invalidRun(unit []byte) bool {
	if len(unit) == 0 {
		return false
	}
	for _, c := range unit {
		switch {
		case c == '!' || c == '#' || c == '@' || c == '$' || c == '%' || c == '^' || c == '&' || c == '~' || c == '\\' || c == ':' || c == ';':
		case c < 0x20 && c != '\t' && c != '\n' && c != '\r' && c != 0:
		case c >= 0x7f:
		default:
			return false
		}
	}
	return true
}

func (s *Soup) deepPattern() bool {
	return strings.Contains(strings.ToUpper(string(s.Pre)), "PATTERN") && (strings.Contains(string(s.Unit), "(") || strings.Contains(string(s.Unit), "{")) && s.Rep >= 500000
}

func (s *Soup) longInvalidRun() bool {
	return invalidRun(s.Unit) && s.Rep*len(s.Unit) >= 3000000
}

func genSoup(t *rapid.T) *Soup {
	sp := &Soup{}
	// (mid-range values of a rapid integer draw are rare: about 1e-4 each, so this is ~1 in 2000 soups)
	if h := rapid.IntRange(0, 2999).Draw(t, "huge"); h >= 1400 && h < 1405 {
		sp.Mode = "huge"
		sp.Pre = []byte(pick(t, "pre", soupPrefixes))
		sp.Unit = []byte(pick(t, "unit", hugeUnits))
		sp.Rep = 1200000 / len(sp.Unit)
		if len(sp.Unit) <= 2 {
			// (8 M repetitions were needed to exhaust the stack through the lexer's recursion - fixed in /repo; a
			// 1.2 MB input keeps the shape in the search at a tenth of the cost: the parser needs ~10 us per byte)
			sp.Rep = 1200000
		}
		// shapes of listed open findings are kept out of the main search by construction
		if pbt.Open("C11", "deep-pattern-nesting") && sp.deepPattern() {
			sp.Pre = []byte("SELECT a FROM s WHERE ")
		}
		if pbt.Open("C11", "long-invalid-run") && sp.longInvalidRun() {
			sp.Rep = 1200000
		}
		sp.Text = strconv.Quote(string(sp.Pre)) + " + " + strconv.Quote(string(sp.Unit)) + fmt.Sprintf(" x %d", sp.Rep)
		return sp
	}
	switch k := rapid.IntRange(0, 19).Draw(t, "soupMode"); {
	case k < 5:
		sp.Mode = "tokens"
		sp.Pre = []byte(soupTokens(t, "tk", 60))
	case k < 10:
		sp.Mode = "prefix+tokens"
		sp.Pre = []byte(pick(t, "pre", soupPrefixes) + soupTokens(t, "tk", 30))
	case k < 15:
		sp.Mode = "mutated"
		sp.Pre = []byte(mutatedStatement(t))
	case k < 16:
		// a valid statement cut off in the middle, half of the time right after a character that opens something
		// (back quote, quote, parenthesis, comma, =): every clause parser meets an unfinished token
		sp.Mode = "cut"
		var st *Stmt
		switch rapid.IntRange(0, 3).Draw(t, "cshape") {
		case 0:
			st = genDirect(t, false)
		case 1:
			st = genWindowStmt(t)
		default:
			st = genMRStmt(t)
		}
		text := render(st.toks(), genLayout(t))
		var after []int
		for i := 0; i < len(text); i++ {
			if strings.IndexByte("`'\"(,=", text[i]) >= 0 {
				after = append(after, i+1)
			}
		}
		cut := 0
		if len(text) > 0 {
			cut = rapid.IntRange(0, len(text)).Draw(t, "cutAt")
		}
		if len(after) > 0 && chance(t, "cutAfterOpener", 50) {
			cut = after[rapid.IntRange(0, len(after)-1).Draw(t, "cutOpener")]
		}
		sp.Pre = []byte(text[:cut])
		if chance(t, "cutTail", 30) {
			sp.Pre = append(sp.Pre, pick(t, "tail", []string{"`", "'", "\"", "(", " ", "``", "`a"})...)
		}
	case k < 17:
		// a well-formed statement with calls nested in calls (aggregate in aggregate, aggregate in scalar, scalar in
		// aggregate) in one of its clauses: whether the engine accepts or rejects it, it must say so without panicking
		sp.Mode = "nestcall"
		e := nestedCall(t, "nc", rapid.IntRange(1, 4).Draw(t, "ncDepth"))
		if chance(t, "ncCmp", 60) {
			e += " " + pick(t, "ncOp", []string{">", "<", "=", "!=", ">=", "+", "*"}) + " " + pick(t, "ncRhs", []string{"1", "0*0", "'x'", "b", nestedCall(t, "nc2", 2)})
		}
		win := pick(t, "ncWin", []string{"TumblingWindow('1s')", "CountingWindow(3)", "g, CountingWindow(2)", "SessionWindow('1s')"})
		switch rapid.IntRange(0, 10).Draw(t, "ncCtx") {
		case 6:
			sp.Pre = []byte("SELECT changed_cols(\"p_\", true, " + e + ") AS r, count(*) AS c FROM s GROUP BY " + win)
		case 7:
			sp.Pre = []byte("SELECT lag(" + e + ") AS r, count(*) AS c FROM s GROUP BY " + win)
		case 8:
			sp.Pre = []byte("SELECT count(*) AS c FROM s GROUP BY " + e + ", " + win)
		case 9:
			sp.Pre = []byte("SELECT a FROM s JOIN m ON " + e)
		case 10:
			sp.Pre = []byte("SELECT lag(a) OVER (PARTITION BY g WHEN " + e + ") AS r FROM s WHERE had_changed(true, " + e + ")")
		case 0:
			sp.Pre = []byte("SELECT count(*) AS c FROM s GROUP BY " + win + " HAVING " + e)
		case 1:
			sp.Pre = []byte("SELECT " + e + " AS r, count(*) AS c FROM s GROUP BY " + win)
		case 2:
			sp.Pre = []byte("SELECT " + e + " FROM s")
		case 3:
			sp.Pre = []byte("SELECT a FROM s WHERE " + e)
		case 4:
			sp.Pre = []byte("SELECT count(*) AS c FROM s GROUP BY " + win + " ORDER BY " + e)
		default:
			sp.Pre = []byte("SELECT count(*) AS c FROM s GROUP BY g, GLOBAL WINDOW TRIGGER WHEN " + e)
		}
		if chance(t, "ncCase", 30) {
			sp.Pre = []byte(caseOf(string(sp.Pre), 4))
		}
	case k < 18:
		sp.Mode = "run"
		sp.Pre = []byte(pick(t, "pre", soupPrefixes))
		sp.Unit = []byte(pick(t, "unit", soupUnits))
		sp.Rep = rapid.SampledFrom([]int{2, 10, 31, 32, 99, 100, 101, 102, 299, 300, 301, 400, 1001, 3000, 20000}).Draw(t, "rep")
		sp.Post = []byte(soupTokens(t, "post", 6))
	default:
		sp.Mode = "bytes"
		sp.Pre = rapid.SliceOfN(rapid.Byte(), 0, 200).Draw(t, "bytes")
	}
	s := sp.String()
	if len(s) > 300 {
		s = s[:300]
	}
	sp.Text = strconv.Quote(s)
	return sp
}

var nestFns = []string{"max", "min", "sum", "avg", "count", "stddev", "percentile", "collect", "first_value", "lag", "upper", "abs", "round", "concat", "coalesce", "unknown_fn"}

// nestedCall writes fn(fn(...(leaf))) of the given depth, with an occasional extra argument or operand.
func nestedCall(t *rapid.T, label string, depth int) string {
	if depth <= 0 {
		return pick(t, label+"leaf", []string{"a", "0*0", "*", "v + 1", "'x'", "d.v", "1", ""})
	}
	inner := nestedCall(t, label+"i", depth-1)
	switch rapid.IntRange(0, 5).Draw(t, label+"form") {
	case 0:
		inner += ", 0.5"
	case 1:
		inner = "1 + " + inner
	case 2:
		inner = inner + " * " + nestedCall(t, label+"r", depth-1)
	}
	sep := pick(t, label+"sp", []string{"", "", "", " "})
	return pick(t, label+"fn", nestFns) + sep + "(" + inner + ")"
}

// mutatedStatement renders a valid generated statement and damages it at token level.
func mutatedStatement(t *rapid.T) string {
	var s *Stmt
	switch rapid.IntRange(0, 2).Draw(t, "mshape") {
	case 0:
		s = genDirect(t, false)
	case 1:
		s = genWindowStmt(t)
	default:
		s = genMRStmt(t)
	}
	toks := s.toks()
	nm := rapid.IntRange(1, 3).Draw(t, "nmut")
	for m := 0; m < nm && len(toks) > 0; m++ {
		l := fmt.Sprintf("mut%d", m)
		i := rapid.IntRange(0, len(toks)-1).Draw(t, l+"i")
		switch rapid.IntRange(0, 5).Draw(t, l+"op") {
		case 0: // delete
			toks = append(toks[:i:i], toks[i+1:]...)
		case 1: // duplicate
			toks = append(toks[:i+1:i+1], toks[i:]...)
		case 2: // swap with another
			j := rapid.IntRange(0, len(toks)-1).Draw(t, l+"j")
			toks[i], toks[j] = toks[j], toks[i]
		case 3: // replace by a soup token
			toks[i] = Tok{S: soupToken(t, l+"r"), K: "p"}
		case 4: // insert a soup token
			ins := Tok{S: soupToken(t, l+"r"), K: "p"}
			toks = append(toks[:i:i], append([]Tok{ins}, toks[i:]...)...)
		default: // truncate
			toks = toks[:i]
		}
	}
	text := render(toks, genLayout(t))
	if chance(t, "cut", 15) && len(text) > 0 {
		text = text[:rapid.IntRange(0, len(text)-1).Draw(t, "cutAt")]
	}
	return text
}
