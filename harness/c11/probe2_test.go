package c11

import (
	"fmt"
	"testing"

	"verifharness/internal/run"
)

func TestProbe2(t *testing.T) {
	for _, q := range []string{
		"SELECT upper(a) FROM s",
		"SELECT upper(a) AS u FROM s",
		"SELECT lower(a), abs(n), round(n), sqrt(n), trim(a), concat(a, 'x'), coalesce(a, 'x') FROM s",
		"SELECT a, upper(a) FROM s",
	} {
		in, err := run.Open(q)
		if err != nil {
			fmt.Println(q, "ERR", err)
			continue
		}
		out, err := in.S.EmitSync(map[string]any{"a": "  abc ", "n": -4.6})
		fmt.Println(q, "=>", showRow(out), err)
		in.Stop()
	}
}
