package c11

import (
	"context"
	"encoding/json"
	"fmt"
	"os"
	"os/exec"
	"reflect"
	"regexp"
	"runtime/debug"
	"sort"
	"strings"
	"time"

	"github.com/rulego/streamsql/rsql"
	"github.com/rulego/streamsql/types"
	"verifharness/internal/pbt"
	"verifharness/internal/run"
)

// ---------------------------------------------------------------------------------------------
// Totality: parse under a watchdog
// ---------------------------------------------------------------------------------------------

type parseOut struct {
	cfg   *types.Config
	cond  string
	err   error
	panic any
	stack string
	hang  bool
	fatal string // the parsing process died (fatal runtime error); only observable through parseChild
	took  time.Duration
}

const watchdog = 10 * time.Second

// watchdogFor: the base allowance plus 100 us per input byte (the parser is linear at roughly 10 us per byte when
// the machine is idle); only the base part is shortened while rapid minimises a failing case.
func watchdogFor(sql string) time.Duration {
	return pbt.Wait(watchdog) + time.Duration(len(sql))*100*time.Microsecond
}

func parseWD(sql string) parseOut {
	ch := make(chan parseOut, 1)
	start := time.Now()
	go func() {
		var o parseOut
		defer func() {
			if r := recover(); r != nil {
				o.panic = r
				o.stack = string(debug.Stack())
			}
			o.took = time.Since(start)
			ch <- o
		}()
		o.cfg, o.cond, o.err = rsql.Parse(sql)
	}()
	select {
	case o := <-ch:
		return o
	case <-time.After(watchdogFor(sql)):
		return parseOut{hang: true, took: time.Since(start)}
	}
}

// childThreshold: inputs longer than this are parsed in a child process. A fatal runtime error (stack
// exhaustion by unbounded recursion) cannot be recovered in-process and would take the whole run down;
// below this length no nesting the parser can build reaches the runtime's stack limit.
const childThreshold = 100000

// parseChild parses sql in a child process (this test binary, TestChildParse) and reports how it ended.
func parseChild(sql string) parseOut {
	start := time.Now()
	f, err := os.CreateTemp("", "c11-child-*.sql")
	if err != nil {
		return parseWD(sql)
	}
	defer os.Remove(f.Name())
	f.WriteString(sql)
	f.Close()
	ctx, cancel := context.WithTimeout(context.Background(), 60*time.Second+watchdogFor(sql))
	defer cancel()
	cmd := exec.CommandContext(ctx, os.Args[0], "-test.run=^TestChildParse$", "-test.v")
	cmd.Env = append(os.Environ(), "C11_CHILD_INPUT="+f.Name())
	out, runErr := cmd.CombinedOutput()
	o := parseOut{took: time.Since(start)}
	text := string(out)
	switch {
	case strings.Contains(text, "C11CHILD ok"):
		if strings.Contains(text, "C11CHILD ok err=true") {
			o.err = fmt.Errorf("rejected (child process)")
		}
		if strings.Contains(text, "cfg=true") {
			o.cfg = &types.Config{}
		}
	case strings.Contains(text, "C11CHILD panic"):
		i := strings.Index(text, "C11CHILD panic")
		o.panic = strings.TrimSpace(text[i:min(len(text), i+300)])
	case ctx.Err() != nil:
		o.hang = true
	default:
		// the process died: keep the runtime's own first lines
		lines := strings.Split(text, "\n")
		var keep []string
		for _, l := range lines {
			if strings.HasPrefix(l, "runtime:") || strings.HasPrefix(l, "fatal error:") || strings.HasPrefix(l, "signal") {
				keep = append(keep, l)
			}
			if strings.Contains(l, "streamsql/rsql.") && len(keep) < 8 {
				keep = append(keep, strings.TrimSpace(l))
			}
		}
		o.fatal = fmt.Sprintf("%v: %s", runErr, strings.Join(keep, " | "))
	}
	return o
}

func parseAny(sql string) parseOut {
	if len(sql) > childThreshold {
		return parseChild(sql)
	}
	return parseWD(sql)
}

func short(s string) string {
	if len(s) > 400 {
		return fmt.Sprintf("%q...(%d bytes)", s[:400], len(s))
	}
	return fmt.Sprintf("%q", s)
}

// totality adds the discrepancies of one parse outcome and reports whether the outcome is usable.
func totality(res *pbt.Result, sql string, o parseOut) bool {
	switch {
	case o.fatal != "":
		res.Add(pbt.D("fatal-crash", "rsql.Parse killed the process (not a recoverable panic): %s; input %s", o.fatal, short(sql)))
		return false
	case o.hang:
		res.Add(pbt.D("hang", "rsql.Parse did not return within %v for %s", watchdogFor(sql), short(sql)))
		return false
	case o.panic != nil:
		st := o.stack
		if i := strings.Index(st, "rsql."); i >= 0 {
			st = st[i:]
		}
		if len(st) > 600 {
			st = st[:600]
		}
		res.Add(pbt.D("panic", "rsql.Parse panicked: %v for %s; stack: %s", o.panic, short(sql), strings.ReplaceAll(st, "\n", " | ")))
		return false
	case o.err == nil && o.cfg == nil:
		res.Add(pbt.D("nil-config", "rsql.Parse returned neither an error nor a configuration for %s", short(sql)))
		return false
	case o.err != nil && o.cfg != nil:
		res.Add(pbt.D("error-and-config", "rsql.Parse returned both an error (%v) and a configuration for %s", o.err, short(sql)))
		return false
	}
	return true
}

// ---------------------------------------------------------------------------------------------
// Faithfulness: configuration vs the AST that was written
// ---------------------------------------------------------------------------------------------

var timeUnits = map[string]time.Duration{"dd": 24 * time.Hour, "hh": time.Hour, "mi": time.Minute, "ss": time.Second, "ms": time.Millisecond}

var withinUnits = map[string]time.Duration{"SECONDS": time.Second, "SECOND": time.Second, "S": time.Second, "MS": time.Millisecond,
	"MILLISECONDS": time.Millisecond, "MINUTES": time.Minute, "HOURS": time.Hour}

func mustDur(s string) time.Duration {
	d, err := time.ParseDuration(s)
	if err != nil {
		panic("generator produced a bad duration " + s)
	}
	return d
}

func unbt(s string) string {
	if len(s) >= 2 && s[0] == '`' && s[len(s)-1] == '`' {
		return s[1 : len(s)-1]
	}
	return s
}

func expectedPattern(pt *Pat) *types.PatternNode {
	if pt == nil {
		return nil
	}
	n := &types.PatternNode{}
	switch pt.Kind {
	case "lit":
		n.Kind = types.PatternLiteral
		n.Symbol = unbt(pt.Sym)
		return n
	case "seq":
		n.Kind = types.PatternSequence
	case "alt":
		n.Kind = types.PatternAlternation
	case "group":
		n.Kind = types.PatternGroup
	case "permute":
		n.Kind = types.PatternPermute
	case "rep":
		n.Kind = types.PatternRepetition
		n.Quant = &types.Quantifier{Min: pt.Min, Max: pt.Max, Greedy: !pt.Lazy}
	}
	for _, k := range pt.Kids {
		n.Children = append(n.Children, expectedPattern(k))
	}
	return n
}

func expectedMR(m *MR) *types.MatchRecognizeSpec {
	sp := &types.MatchRecognizeSpec{RowsPerMatch: types.RowsPerMatchOne, Skip: types.SkipPastLastRow}
	for _, x := range m.Partition {
		sp.PartitionBy = append(sp.PartitionBy, unbt(x))
	}
	for _, o := range m.Order {
		d := types.SortAsc
		if o.Dir == "DESC" {
			d = types.SortDesc
		}
		sp.OrderBy = append(sp.OrderBy, types.OrderByField{Expression: unbt(o.Key), Direction: d})
	}
	for _, ms := range m.Measures {
		sp.Measures = append(sp.Measures, types.Measure{Expr: plain(ms.Expr), Alias: unbt(ms.Alias)})
	}
	if m.Rows == "ALL" {
		sp.RowsPerMatch = types.RowsPerMatchAll
	}
	switch m.Skip {
	case "NEXT":
		sp.Skip = types.SkipToNextRow
	case "FIRST":
		sp.Skip, sp.SkipSymbol = types.SkipToFirst, unbt(m.SkipSym)
	case "LAST":
		sp.Skip, sp.SkipSymbol = types.SkipToLast, unbt(m.SkipSym)
	case "VAR":
		sp.Skip, sp.SkipSymbol = types.SkipToVariable, unbt(m.SkipSym)
	}
	sp.Pattern = expectedPattern(m.Pattern)
	if m.WithinLit != "" {
		sp.Within = mustDur(strings.Trim(m.WithinLit, "'"))
	} else if m.WithinN != "" {
		var n int
		fmt.Sscanf(m.WithinN, "%d", &n)
		sp.Within = time.Duration(n) * withinUnits[m.WithinU]
	}
	for _, s := range m.Subsets {
		ss := types.MatchSubset{Name: s.Name}
		for _, y := range s.Syms {
			ss.Symbols = append(ss.Symbols, unbt(y))
		}
		sp.Subsets = append(sp.Subsets, ss)
	}
	for _, d := range m.Defines {
		sp.Defines = append(sp.Defines, types.MatchDefine{Symbol: unbt(d.Sym), Cond: plain(d.Cond)})
	}
	return sp
}

// normMR strips whitespace from the free-text parts of a parsed spec (they are rebuilt from tokens with
// single spaces; the property is about text modulo spacing).
func normMR(in *types.MatchRecognizeSpec) *types.MatchRecognizeSpec {
	if in == nil {
		return nil
	}
	cp := *in
	cp.Measures = nil
	for _, m := range in.Measures {
		cp.Measures = append(cp.Measures, types.Measure{Expr: stripWS(m.Expr), Alias: m.Alias})
	}
	cp.Defines = nil
	for _, d := range in.Defines {
		cp.Defines = append(cp.Defines, types.MatchDefine{Symbol: d.Symbol, Cond: stripWS(d.Cond)})
	}
	return &cp
}

func patString(n *types.PatternNode) string {
	if n == nil {
		return "<nil>"
	}
	var kids []string
	for _, c := range n.Children {
		kids = append(kids, patString(c))
	}
	q := ""
	if n.Quant != nil {
		q = fmt.Sprintf("{%d,%d,greedy=%v}", n.Quant.Min, n.Quant.Max, n.Quant.Greedy)
	}
	return fmt.Sprintf("%d:%s%s[%s]", n.Kind, n.Symbol, q, strings.Join(kids, " "))
}

func mrString(m *types.MatchRecognizeSpec) string {
	if m == nil {
		return "<nil>"
	}
	return fmt.Sprintf("{part=%q order=%v measures=%q rows=%d skip=%d/%q pattern=%s subsets=%v within=%v defines=%q}",
		m.PartitionBy, m.OrderBy, m.Measures, m.RowsPerMatch, m.Skip, m.SkipSymbol, patString(m.Pattern), m.Subsets, m.Within, m.Defines)
}

// havingPattern builds the regular expression the HAVING text must match (whitespace-free): aggregate
// calls may be kept verbatim, replaced by the alias of the same selected aggregate, or by a hidden
// __having_N__ aggregate (the parser documents all three).
func havingPattern(s *Stmt) *regexp.Regexp {
	var sb strings.Builder
	sb.WriteString("^")
	toks := s.Having
	for i := 0; i < len(toks); i++ {
		t := toks[i]
		if t.K == "fn" && i+3 < len(toks) && toks[i+1].S == "(" && toks[i+3].S == ")" {
			call := t.S + "(" + toks[i+2].S + ")"
			alts := []string{`__having_\d+__`, regexp.QuoteMeta(call)}
			for _, it := range s.Items {
				if it.Kind == "agg" && it.Alias != "" && plain(it.Expr) == call {
					alts = append(alts, regexp.QuoteMeta(it.Alias))
				}
			}
			sb.WriteString("(?:" + strings.Join(alts, "|") + ")")
			i += 3
			continue
		}
		sb.WriteString(regexp.QuoteMeta(condText([]Tok{t})))
	}
	sb.WriteString("$")
	return regexp.MustCompile(sb.String())
}

func stripAll(in []string) []string {
	out := make([]string, len(in))
	for i, x := range in {
		out[i] = stripWS(x)
	}
	return out
}

func eqStrs(a, b []string) bool {
	if len(a) != len(b) {
		return false
	}
	for i := range a {
		if a[i] != b[i] {
			return false
		}
	}
	return true
}

// faithful compares a parsed configuration with the statement AST. sql is only used in messages.
func faithful(res *pbt.Result, s *Stmt, sql string, cfg *types.Config, cond string) {
	bad := func(kind, what string, got, want any) {
		res.Add(pbt.D(kind, "%s: got %v, written %v; statement: %s", what, got, want, sql))
	}
	// DISTINCT, LIMIT, source alias
	if cfg.Distinct != s.Distinct {
		bad("distinct", "Distinct", cfg.Distinct, s.Distinct)
	}
	wantLimit := 0
	if s.HasLimit {
		wantLimit = s.Limit
	}
	if cfg.Limit != wantLimit {
		bad("limit", "Limit", cfg.Limit, wantLimit)
	}
	if cfg.SourceAlias != s.SourceAlias {
		bad("source-alias", "SourceAlias", fmt.Sprintf("%q", cfg.SourceAlias), fmt.Sprintf("%q", s.SourceAlias))
	}
	// JOIN
	var wantJoins []types.JoinConfig
	for _, j := range s.Joins {
		jc := types.JoinConfig{Table: j.Table, Alias: j.Alias, JoinType: "INNER"}
		if jc.Alias == "" {
			jc.Alias = j.Table
		}
		if strings.HasPrefix(j.Type, "LEFT") {
			jc.JoinType = "LEFT"
		}
		for _, o := range j.On {
			jc.OnPairs = append(jc.OnPairs, types.JoinOnPair{StreamField: o.LField, TableField: o.RField})
		}
		wantJoins = append(wantJoins, jc)
	}
	if len(cfg.JoinConfigs) != len(wantJoins) || (len(wantJoins) > 0 && !reflect.DeepEqual(cfg.JoinConfigs, wantJoins)) {
		bad("join", "JoinConfigs", fmt.Sprintf("%+v", cfg.JoinConfigs), fmt.Sprintf("%+v", wantJoins))
	}
	// WHERE
	if got, want := stripWS(cond), condText(s.Where); got != want {
		bad("where-text", "WHERE condition (whitespace removed)", fmt.Sprintf("%q", got), fmt.Sprintf("%q", want))
	}
	// ORDER BY
	var wantOB []types.OrderByField
	for _, o := range s.OrderBy {
		d := types.SortAsc
		if o.Dir == "DESC" {
			d = types.SortDesc
		}
		wantOB = append(wantOB, types.OrderByField{Expression: o.Key, Direction: d})
	}
	if len(cfg.OrderBy) != len(wantOB) || (len(wantOB) > 0 && !reflect.DeepEqual(cfg.OrderBy, wantOB)) {
		kind := "orderby"
		if s.MR != nil {
			kind = "orderby-mr"
		}
		bad(kind, "OrderBy", fmt.Sprintf("%+v", cfg.OrderBy), fmt.Sprintf("%+v", wantOB))
	}
	// SELECT list: order and names
	if len(cfg.FieldOrder) != len(s.Items) {
		bad("field-order", "FieldOrder length", fmt.Sprintf("%q", cfg.FieldOrder), len(s.Items))
	} else {
		for i, it := range s.Items {
			got := stripWS(cfg.FieldOrder[i])
			switch {
			case it.Star:
				if got != "*" {
					bad("field-order", fmt.Sprintf("FieldOrder[%d]", i), got, "*")
				}
			case it.Alias != "":
				if cfg.FieldOrder[i] != it.Alias {
					bad("field-order", fmt.Sprintf("FieldOrder[%d]", i), fmt.Sprintf("%q", cfg.FieldOrder[i]), fmt.Sprintf("%q", it.Alias))
				}
			case it.Kind == "agg" || it.Kind == "wfn":
				// name of an un-aliased aggregate is an engine convention (call text or argument): not judged
			default:
				if got != plain(it.Expr) {
					kind := "field-order"
					if it.Kind == "fn" {
						kind = "field-order-unaliased-fn"
					}
					bad(kind, fmt.Sprintf("FieldOrder[%d]", i), fmt.Sprintf("%q", got), fmt.Sprintf("%q", plain(it.Expr)))
				}
			}
		}
	}
	wantSA := map[string]string{}
	for _, it := range s.Items {
		if !it.Star && it.Alias != "" {
			wantSA[plain(it.Expr)] = it.Alias
		}
	}
	gotSA := map[string]string{}
	for k, v := range cfg.SelectAlias {
		gotSA[stripWS(k)] = v
	}
	if !reflect.DeepEqual(gotSA, wantSA) {
		bad("select-alias", "SelectAlias (expression -> alias)", fmt.Sprintf("%q", gotSA), fmt.Sprintf("%q", wantSA))
	}
	hasStar := false
	for _, it := range s.Items {
		hasStar = hasStar || it.Star
	}
	if s.Shape == "direct" || s.Shape == "mr" {
		var want []string
		if hasStar {
			want = []string{"*"}
		} else {
			for _, it := range s.Items {
				if it.Kind == "analytic" {
					continue // analytic functions are evaluated by the stream-level state machine
				}
				x := plain(it.Expr)
				if it.Alias != "" {
					x += ":" + it.Alias
				}
				want = append(want, x)
			}
		}
		if got := stripAll(cfg.SimpleFields); !eqStrs(got, want) {
			kind := "simple-fields"
			if !hasStar && len(got) == len(want) {
				onlyFn := true
				for i := range want {
					if got[i] != want[i] && !(s.Items[i].Kind == "fn" && s.Items[i].Alias == "") {
						onlyFn = false
					}
				}
				if onlyFn {
					kind = "simple-fields-unaliased-fn"
				}
			}
			bad(kind, "SimpleFields", fmt.Sprintf("%q", got), fmt.Sprintf("%q", want))
		}
	}
	// analytic items: function, alias, argument, OVER (PARTITION BY .. WHEN ..)
	var ai int
	for _, it := range s.Items {
		if it.Kind != "analytic" {
			continue
		}
		if ai >= len(cfg.AnalyticFields) {
			bad("analytic", "AnalyticFields length", len(cfg.AnalyticFields), "more items")
			break
		}
		af := cfg.AnalyticFields[ai]
		ai++
		wantArg := it.Expr[2].S
		if !strings.EqualFold(af.FuncName, it.Expr[0].S) || af.Alias != it.Alias || len(af.Args) != 1 || stripWS(af.Args[0]) != wantArg {
			bad("analytic", "AnalyticField", fmt.Sprintf("%s(%q) AS %q", af.FuncName, af.Args, af.Alias), fmt.Sprintf("%s(%s) AS %q", it.Expr[0].S, wantArg, it.Alias))
		}
		switch {
		case it.Over == nil && af.Over != nil:
			bad("analytic-over", "AnalyticField.Over", fmt.Sprintf("%+v", *af.Over), "none")
		case it.Over != nil && af.Over == nil:
			bad("analytic-over", "AnalyticField.Over", "none", fmt.Sprintf("%+v", *it.Over))
		case it.Over != nil:
			var wp []string
			for _, x := range it.Over.Partition {
				wp = append(wp, unbt(x))
			}
			if !eqStrs(af.Over.PartitionBy, wp) || stripWS(af.Over.When) != condText(it.Over.When) {
				bad("analytic-over", "AnalyticField.Over", fmt.Sprintf("partition=%q when=%q", af.Over.PartitionBy, stripWS(af.Over.When)), fmt.Sprintf("partition=%q when=%q", wp, condText(it.Over.When)))
			}
		}
	}
	if ai != len(cfg.AnalyticFields) {
		bad("analytic", "AnalyticFields length", len(cfg.AnalyticFields), ai)
	}
	// mode
	wantMode := types.ExecDirect
	switch s.Shape {
	case "window":
		wantMode = types.ExecWindow
	case "mr":
		wantMode = types.ExecCEP
	}
	if cfg.Mode != wantMode || cfg.NeedWindow != (s.Shape == "window") {
		bad("mode", "Mode/NeedWindow", fmt.Sprintf("%v/%v", cfg.Mode, cfg.NeedWindow), fmt.Sprintf("%v/%v", wantMode, s.Shape == "window"))
	}
	// GROUP BY, window, WITH, HAVING
	var wantGroup []string
	for _, g := range s.GroupCols {
		wantGroup = append(wantGroup, plain(g))
	}
	if got := stripAll(cfg.GroupFields); !eqStrs(got, wantGroup) {
		bad("group-fields", "GroupFields", fmt.Sprintf("%q", got), fmt.Sprintf("%q", wantGroup))
	}
	if got := stripAll(cfg.WindowConfig.GroupByKeys); !eqStrs(got, wantGroup) {
		bad("group-fields", "WindowConfig.GroupByKeys", fmt.Sprintf("%q", got), fmt.Sprintf("%q", wantGroup))
	}
	wc := cfg.WindowConfig
	if s.Window != nil {
		if wc.Type != s.Window.Kind {
			bad("window-type", "WindowConfig.Type", wc.Type, s.Window.Kind)
		}
		var wantParams []any
		switch s.Window.Kind {
		case "counting":
			wantParams = []any{s.Window.N}
		case "global":
		default:
			for _, d := range s.Window.Durs {
				wantParams = append(wantParams, mustDur(d))
			}
		}
		if len(wc.Params) != len(wantParams) || (len(wantParams) > 0 && !reflect.DeepEqual(wc.Params, wantParams)) {
			bad("window-params", "WindowConfig.Params", fmt.Sprintf("%#v", wc.Params), fmt.Sprintf("%#v", wantParams))
		}
		if got, want := stripWS(wc.TriggerCondition), condText(s.Window.Trigger); got != want {
			bad("trigger", "TriggerCondition (whitespace removed)", fmt.Sprintf("%q", got), fmt.Sprintf("%q", want))
		}
	}
	var wTs string
	var wTU, wOOO, wAL, wIdle, wTTL time.Duration
	for _, o := range s.With {
		switch o.Name {
		case "TIMESTAMP":
			wTs = o.Val
		case "TIMEUNIT":
			wTU = timeUnits[o.Val]
		case "MAXOUTOFORDERNESS":
			wOOO = mustDur(o.Val)
		case "ALLOWEDLATENESS":
			wAL = mustDur(o.Val)
		case "IDLETIMEOUT":
			wIdle = mustDur(o.Val)
		case "STATETTL":
			wTTL = mustDur(o.Val)
		}
	}
	wantTC := types.ProcessingTime
	if wTs != "" {
		wantTC = types.EventTime
	}
	if wc.TsProp != wTs || wc.TimeCharacteristic != wantTC {
		bad("with-timestamp", "TsProp/TimeCharacteristic", fmt.Sprintf("%q/%v", wc.TsProp, wc.TimeCharacteristic), fmt.Sprintf("%q/%v", wTs, wantTC))
	}
	if wc.TimeUnit != wTU {
		bad("with-timeunit", "TimeUnit", wc.TimeUnit, wTU)
	}
	if wc.MaxOutOfOrderness != wOOO {
		bad("with-maxoutoforderness", "MaxOutOfOrderness", wc.MaxOutOfOrderness, wOOO)
	}
	if wc.AllowedLateness != wAL {
		bad("with-allowedlateness", "AllowedLateness", wc.AllowedLateness, wAL)
	}
	if wc.IdleTimeout != wIdle {
		bad("with-idletimeout", "IdleTimeout", wc.IdleTimeout, wIdle)
	}
	if wc.CountStateTTL != wTTL {
		bad("with-statettl", "CountStateTTL", wc.CountStateTTL, wTTL)
	}
	if len(s.Having) == 0 {
		if cfg.Having != "" {
			bad("having-text", "Having", fmt.Sprintf("%q", cfg.Having), `""`)
		}
	} else if re := havingPattern(s); !re.MatchString(stripWS(cfg.Having)) {
		bad("having-text", "Having (whitespace removed)", fmt.Sprintf("%q", stripWS(cfg.Having)), "text matching "+re.String())
	}
	// aggregates
	if s.Shape == "window" {
		gotSF := map[string]string{}
		gotFA := map[string]string{}
		for k, v := range cfg.SelectFields {
			gotSF[stripWS(k)] = string(v)
		}
		for k, v := range cfg.FieldAlias {
			gotFA[stripWS(k)] = v
		}
		for _, it := range s.Items {
			if it.Kind != "agg" {
				continue
			}
			name := outName(it)
			if !strings.EqualFold(gotSF[name], it.Agg) {
				bad("select-fields", fmt.Sprintf("SelectFields[%q]", name), fmt.Sprintf("%q", gotSF[name]), it.Agg)
			}
			if gotFA[name] != it.AggArg {
				bad("select-fields", fmt.Sprintf("FieldAlias[%q]", name), fmt.Sprintf("%q", gotFA[name]), it.AggArg)
			}
		}
	}
	// MATCH_RECOGNIZE
	if s.MR == nil {
		if cfg.MatchRecognize != nil {
			bad("mr-tree", "MatchRecognize", mrString(cfg.MatchRecognize), "<nil>")
		}
	} else {
		want := expectedMR(s.MR)
		got := normMR(cfg.MatchRecognize)
		if !reflect.DeepEqual(got, want) {
			bad("mr-tree", "MatchRecognize", mrString(got), mrString(want))
		}
	}
}

// ---------------------------------------------------------------------------------------------
// Layout relation: field-by-field deep equality of two parsed configurations
// ---------------------------------------------------------------------------------------------

var caseKw = regexp.MustCompile(`(?i)\b(case|when|then|else|end)\b`)

func layoutDiff(res *pbt.Result, s *Stmt, sqlA, sqlB string, a, b parseOut) {
	if (a.err == nil) != (b.err == nil) {
		res.Add(pbt.D("layout-accept", "same tokens, different layout: one text is accepted, the other rejected: A=%s err=%v ; B=%s err=%v", short(sqlA), a.err, short(sqlB), b.err))
		return
	}
	if a.err != nil {
		return
	}
	if a.cond != b.cond {
		res.Add(pbt.D("layout-where", "same tokens, different layout: condition %q vs %q; A=%s B=%s", a.cond, b.cond, short(sqlA), short(sqlB)))
	}
	ca, cb := *a.cfg, *b.cfg
	ca.Logger, cb.Logger = nil, nil
	ca.WindowConfig.Callback, cb.WindowConfig.Callback = nil, nil
	va, vb := reflect.ValueOf(ca), reflect.ValueOf(cb)
	tp := va.Type()
	for i := 0; i < tp.NumField(); i++ {
		fa, fb := va.Field(i).Interface(), vb.Field(i).Interface()
		if !reflect.DeepEqual(fa, fb) {
			name := strings.ToLower(tp.Field(i).Name)
			kind := "layout-" + name
			if name == "orderby" && s.MR != nil {
				kind = "layout-orderby-mr"
			}
			ja, _ := json.Marshal(fa)
			jb, _ := json.Marshal(fb)
			// expression text keeps the letter case of CASE/WHEN/THEN/ELSE/END as written: that is not structure
			var ga, gb any
			if json.Unmarshal([]byte(caseKw.ReplaceAllStringFunc(string(ja), strings.ToUpper)), &ga) == nil &&
				json.Unmarshal([]byte(caseKw.ReplaceAllStringFunc(string(jb), strings.ToUpper)), &gb) == nil && reflect.DeepEqual(ga, gb) {
				continue
			}
			res.Add(pbt.D(kind, "same tokens, different layout: Config.%s differs: %s vs %s; A=%s B=%s", tp.Field(i).Name, ja, jb, short(sqlA), short(sqlB)))
		}
	}
}

// ---------------------------------------------------------------------------------------------
// Execution relation for direct queries
// ---------------------------------------------------------------------------------------------

type execOut struct {
	openErr error
	outs    []map[string]any
	errs    []string
}

func execDirect(sql string, c Case) execOut {
	var o execOut
	in, err := run.Open(sql)
	if err != nil {
		o.openErr = err
		return o
	}
	defer in.Stop()
	for _, r := range c.Rows {
		var out map[string]any
		var e error
		func() {
			defer func() {
				if p := recover(); p != nil {
					e = fmt.Errorf("PANIC in EmitSync: %v", p)
				}
			}()
			out, e = in.S.EmitSync(r.Go())
		}()
		if e != nil {
			o.errs = append(o.errs, e.Error())
		} else {
			o.errs = append(o.errs, "")
		}
		o.outs = append(o.outs, out)
	}
	return o
}

func showRow(m map[string]any) string {
	if m == nil {
		return "<none>"
	}
	ks := make([]string, 0, len(m))
	for k := range m {
		ks = append(ks, k)
	}
	sort.Strings(ks)
	var sb strings.Builder
	sb.WriteString("{")
	for i, k := range ks {
		if i > 0 {
			sb.WriteString(", ")
		}
		fmt.Fprintf(&sb, "%q:%#v", k, m[k])
	}
	sb.WriteString("}")
	return sb.String()
}
