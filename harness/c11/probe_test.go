package c11

import (
	"encoding/json"
	"fmt"
	"testing"

	"github.com/rulego/streamsql/rsql"
	_ "verifharness/internal/run"
)

func TestProbe(t *testing.T) {
	qs := []string{
		"SELECT *, upper(a) AS u FROM s",
		"SELECT COUNT(*) AS c, AVG(x), k FROM s GROUP BY k, TumblingWindow('1s')",
		"SELECT a FROM s LIMIT 0",
		"SELECT a AS limit_x FROM orders fromage WHERE wherever = 'FROM x WHERE y GROUP BY z'",
		"SELECT a FROM s WHERE t = \"say 'LIMIT 3'\" ORDER BY a",
		"SELECT count(*) AS c FROM s GROUP BY TumblingWindow('500ms') WITH(TIMEUNIT = 'ss' , TIMESTAMP='ts' )",
		"SELECT count(*) AS c FROM s GROUP BY TumblingWindow('2m'), g, h",
		"SELECT upper(device) AS d, count(*) AS c FROM s GROUP BY upper(device), TumblingWindow('2h')",
		"SELECT g, sum(x) AS s FROM s GROUP BY g",
		"SELECT a FROM s ORDER BY m.b DESC, `limit` ASC, c",
		"select\ta\nfrom\r\ns\twhere\na>1\n",
		"SELECT a FROM s INNER JOIN m ON id = m.id LEFT OUTER JOIN n AS nn ON s.x = nn.y WHERE a > 1",
		"SELECT a FROM s WHERE a > 1 GROUP BY g, CountingWindow(5) HAVING count(*) > 1 AND max(x) < 5 LIMIT 3",
		"SELECT lag(a) AS p, acc_sum(x) OVER (PARTITION BY d WHEN x > 1) AS t FROM s",
		"SELECT a FROM s WHERE had_changed(true, a)",
		"SELECT CASE WHEN a > 1 THEN 'x' ELSE 'y' END AS c FROM s",
		"SELECT a FROM s WHERE a = 1 and b = 2 Or not c like 'x' aNd d is null",
		"SELECT DISTINCT * FROM s",
		"SELECT a , b FROM s LIMIT 5 ",
		"SELECT a FROM s LIMIT\n5",
		"SELECT a FROM s ORDER\nBY\ta\nDESC\nLIMIT\t5",
		"SELECT a.b.c AS x, arr[0] AS y FROM s",
		"SELECT a FROM `from`",
		"SELECT a AS `select` FROM s",
		"SELECT count(*) AS c FROM s GROUP BY SessionWindow('5s') WITH (TIMESTAMP='order', TIMEUNIT='ms')",
		"SELECT count(*) AS c FROM s GROUP BY TumblingWindow('5s') WITH (TIMESTAMP='ts') HAVING c > 100",
	}
	for _, q := range qs {
		cfg, cond, err := rsql.Parse(q)
		fmt.Println("SQL:", q)
		if err != nil {
			fmt.Println("  ERR:", err)
			continue
		}
		cfg.Logger = nil
		b, _ := json.Marshal(cfg)
		fmt.Println("  COND:", cond)
		fmt.Println("  CFG:", string(b))
	}
}
