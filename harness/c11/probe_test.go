package c11

import (
	"encoding/json"
	"fmt"
	"testing"

	"github.com/rulego/streamsql/rsql"
	_ "verifharness/internal/run"
)

func TestProbe(t *testing.T) {
	qs := []string{
		"SELECT g, count(*) AS c FROM s GROUP BY g WITH (TIMESTAMP='ts', TIMEUNIT='ss', MAXOUTOFORDERNESS='2s')",
		"SELECT g, count(*) AS c FROM s GROUP BY g WITH (TIMESTAMP='ts')",
		"SELECT timestamp, window, `end` FROM s WHERE timestamp > 1 ORDER BY timestamp",
		"SELECT tags[0] AS y, meta.items[1].name FROM s",
		"SELECT lag(x) AS p, acc_sum(x) OVER (PARTITION BY a, `b` WHEN x > 1 AND y = 2) AS t, a FROM s WHERE a > 1",
		"SELECT a FROM s WHERE b LIKE \"x%\"",
		"SELECT * FROM stream MATCH_RECOGNIZE (ORDER BY ts PATTERN (`A` B) DEFINE `A` AS v > 0)",
	}
	for _, q := range qs {
		cfg, cond, err := rsql.Parse(q)
		fmt.Println("SQL:", q)
		if err != nil {
			fmt.Println("  ERR:", err)
			continue
		}
		cfg.Logger = nil
		b, _ := json.Marshal(cfg)
		fmt.Println("  COND:", cond)
		fmt.Println("  CFG:", string(b))
	}
}
