package c11

import (
	"fmt"
	"regexp"
	"strconv"
	"strings"

	"pgregory.net/rapid"
	"verifharness/internal/gen"
	"verifharness/internal/pbt"
)

// ---------------------------------------------------------------------------------------------
// Pools
// ---------------------------------------------------------------------------------------------

var plainCols = []string{"a", "b", "x", "y", "temp", "deviceId", "ts", "tag", "note", "v"}

// identifiers that contain a clause keyword as a prefix/suffix/infix but are ordinary identifiers
var kwCols = []string{"limit_x", "orders", "fromage", "wherever", "grouped", "ordering", "selected", "byline",
	"having_fun", "distinct_id", "asc_x", "description", "withal", "joiner", "onx", "limit2", "order_id",
	"group_id", "from_ts", "where_from", "islet", "nullable", "android", "oreo", "notes", "likes", "ascent", "desc1"}

// back-quoted reserved names (and back-quoted names holding clause text)
var btCols = []string{"`limit`", "`order`", "`from`", "`group`", "`where`", "`select`", "`by`", "`having`", "`with`",
	"`desc`", "`as`", "`distinct`"}
var btHostile = []string{"`x LIMIT 3`", "`a ORDER BY b`", "`my col`", "`FROM t WHERE`"}

var nestedCols = []string{"meta.loc", "a1.b.c", "info.limit_x", "device.order_id"}

var sources = []string{"stream", "s", "orders", "fromage", "t", "sensors", "limits", "select_src", "Input", "grouped", "wherever"}
var srcAliases = []string{"s", "st", "fromage", "wherever", "grouped", "limit_x", "joined", "lefty", "matcher", "ordering", "onx", "asx", "withal"}
var tables = []string{"meta", "m", "orders", "dim_group", "leftover", "joiner", "inner_t", "limits"}
var tblAliases = []string{"m", "d", "onx", "leftover", "joiner", "wherever2", "orderly", "mr"}

var aliases = []string{"x", "y", "c", "total", "limit_x", "orders", "fromage", "asc_x", "desc_x", "endx", "whenx", "wherever",
	"grouped", "r1", "out_by", "having_fun", "`select`", "`limit`", "`order`", "`from`", "`group by`", "selected", "n", "lbl"}

// string literal contents. Single-quoted literals must not contain ', double-quoted must not contain "
// (the lexer has no escape syntax).
var litBodies = []string{"x", "sensor%", "a b", "%room%", "", " ", "100%", "ok",
	"LIMIT 5", "x LIMIT 5 y", "ORDER BY a", "ORDER BY a DESC LIMIT 1", "WHERE", "a FROM b", "GROUP BY g", "HAVING c > 1",
	"SELECT * FROM t", "limit", "AS", "MATCH_RECOGNIZE (", "SlidingWindow", "AND", "OR 1=1", "a,b", "(", ")", "a)b(", "--", "`", "a`b",
	"WITH (TIMESTAMP=ts)", "from", "select", "JOIN m ON", "x, y FROM z", ") FROM (", "it's", "say \"hi\"", "'", "\"", "call me (now)", "f(x)", "sum(a) > 1",
	"TumblingWindow('1s')", "tag = 'LIMIT'", "a \"ORDER BY\" b",
	// text that looks like an analytic or aggregate call: inside a literal it is text
	"lag(a)", "latest(x) > 1", "had_changed(true, a)", "count(x)", "max(v) = 3", "x IS NULL", "a LIKE 'b'"}

// callLike matches text that the parser's function validator takes for a function call.
var callLike = regexp.MustCompile(`[A-Za-z_][A-Za-z0-9_]*\s*\(`)

var litBodiesNoCall = func() []string {
	var out []string
	for _, b := range litBodies {
		if !callLike.MatchString(b) {
			out = append(out, b)
		}
	}
	return out
}()

// litPool: when the literal-call finding is listed as open, literals that look like a call are left out of
// the main search by construction.
func litPool() []string {
	if pbt.Open("C11", "literal-call-text") {
		return litBodiesNoCall
	}
	if pbt.Open("C11", "literal-window-text") {
		var out []string
		for _, b := range litBodies {
			if !windowLike.MatchString(b) {
				out = append(out, b)
			}
		}
		return out
	}
	return litBodies
}

// windowLike: a literal whose text looks like a window function call
var windowLike = regexp.MustCompile(`(?i)(tumbling|sliding|counting|session)window\s*\(`)

func isKwBearing(s string) bool {
	u := strings.ToUpper(s)
	for _, k := range []string{"LIMIT", "ORDER", "WHERE", "FROM", "GROUP", "SELECT", "HAVING", "WITH", "JOIN", "DISTINCT", "MATCH_RECOGNIZE", "WINDOW"} {
		if strings.Contains(u, k) {
			return true
		}
	}
	return false
}

func pick(t *rapid.T, label string, pool []string) string {
	return pool[rapid.IntRange(0, len(pool)-1).Draw(t, label)]
}

func chance(t *rapid.T, label string, pct int) bool {
	return rapid.IntRange(0, 99).Draw(t, label) < pct
}

// distinct picks n distinct entries of pool (n <= len(pool)).
func distinct(t *rapid.T, label string, pool []string, n int) []string {
	idx := make([]int, len(pool))
	for i := range idx {
		idx[i] = i
	}
	out := make([]string, 0, n)
	for i := 0; i < n && len(idx) > 0; i++ {
		j := rapid.IntRange(0, len(idx)-1).Draw(t, fmt.Sprintf("%s%d", label, i))
		out = append(out, pool[idx[j]])
		idx = append(idx[:j], idx[j+1:]...)
	}
	return out
}

// strLit draws a quoted string literal token.
func strLit(t *rapid.T, label string) Tok {
	body := pick(t, label, litPool())
	hasS, hasD := strings.Contains(body, "'"), strings.Contains(body, "\"")
	switch {
	case hasS && hasD:
		body = strings.ReplaceAll(body, "\"", "")
		return lit("\"" + body + "\"")
	case hasS:
		return lit("\"" + body + "\"")
	case hasD:
		return lit("'" + body + "'")
	}
	if chance(t, label+"dq", 25) {
		return lit("\"" + body + "\"")
	}
	return lit("'" + body + "'")
}

func numLit(t *rapid.T, label string) Tok {
	switch rapid.IntRange(0, 5).Draw(t, label+"k") {
	case 0:
		return w(strconv.Itoa(rapid.IntRange(0, 9).Draw(t, label)))
	case 1:
		return w(strconv.Itoa(rapid.IntRange(10, 100000).Draw(t, label)))
	case 2:
		return w(fmt.Sprintf("%d.%d", rapid.IntRange(0, 99).Draw(t, label), rapid.IntRange(0, 99).Draw(t, label+"f")))
	case 3:
		return w("-" + strconv.Itoa(rapid.IntRange(1, 50).Draw(t, label)))
	default:
		return w(strconv.Itoa(rapid.IntRange(0, 50).Draw(t, label)))
	}
}

// column draws a column reference: plain, keyword-bearing, back-quoted, nested, or alias-qualified.
// gx is the generation context of expressions: the stream alias usable as qualifier, and whether the
// statement will also be executed (then shapes the engine rejects at Execute - NOT LIKE, back-quoted
// names with spaces - are left out so that the executed share stays high).
type gx struct {
	q  string
	ex bool
}

func column(t *rapid.T, label string, x gx) string {
	qualifier := x.q
	switch k := rapid.IntRange(0, 20).Draw(t, label+"k"); {
	case k < 8:
		c := pick(t, label, plainCols)
		if qualifier != "" && chance(t, label+"q", 40) {
			return qualifier + "." + c
		}
		return c
	case k < 14:
		c := pick(t, label, kwCols)
		if qualifier != "" && chance(t, label+"q", 30) {
			return qualifier + "." + c
		}
		return c
	case k < 17:
		return pick(t, label, btCols)
	case k < 18:
		if x.ex || pbt.Open("C11", "backtick-space") {
			return pick(t, label, btCols)
		}
		return pick(t, label, btHostile)
	case k < 19:
		return pick(t, label, nestedCols)
	default:
		// "timestamp" is a WITH-option keyword of the lexer and at the same time the usual name of a stream
		// column (README, e2e tests); it is used in SELECT / WHERE only
		return "timestamp"
	}
}

func simpleCol(t *rapid.T, label string) string {
	if chance(t, label+"k", 50) {
		return pick(t, label, kwCols)
	}
	return pick(t, label, plainCols)
}

var cmpOps = []string{"=", "!=", ">", ">=", "<", "<=", "=="}

// predicate draws one comparison (token list) over stream columns.
func predicate(t *rapid.T, label string, qualifier gx, depth int) []Tok {
	switch k := rapid.IntRange(0, 13).Draw(t, label+"k"); {
	case k < 4:
		return []Tok{ident(column(t, label+"c", qualifier)), p(pick(t, label+"o", cmpOps)), numLit(t, label+"n")}
	case k < 7:
		o := "="
		if chance(t, label+"ne", 25) {
			o = "!="
		}
		return []Tok{ident(column(t, label+"c", qualifier)), p(o), strLit(t, label+"s")}
	case k == 7:
		out := []Tok{ident(column(t, label+"c", qualifier))}
		if !qualifier.ex && chance(t, label+"not", 25) {
			out = append(out, kw("NOT"))
		}
		pat := strLit(t, label+"s")
		if qualifier.ex && strings.HasPrefix(pat.S, "\"") {
			// Execute rejects a double-quoted LIKE pattern; executed statements use a single-quoted one
			pat = lit("'" + strings.ReplaceAll(strings.Trim(pat.S, "\""), "'", "") + "'")
		}
		return append(out, kw("LIKE"), pat)
	case k == 8:
		out := []Tok{ident(column(t, label+"c", qualifier)), kw("IS")}
		if chance(t, label+"not", 50) {
			out = append(out, kw("NOT"))
		}
		return append(out, kw("NULL"))
	case k == 9:
		f := pick(t, label+"f", []string{"upper", "lower", "abs", "round", "trim", "sqrt"})
		return []Tok{fn(f), p("("), ident(simpleCol(t, label+"c")), p(")"), p(pick(t, label+"o", cmpOps)), valueFor(t, label+"v", f)}
	case k == 10:
		ar := pick(t, label+"ar", []string{"+", "*", "/", "-"})
		o := p(ar)
		if ar == "-" {
			o = op("-")
		}
		return []Tok{ident(column(t, label+"c", qualifier)), o, ident(column(t, label+"d", qualifier)), p(pick(t, label+"o", cmpOps)), numLit(t, label+"n")}
	case k == 11:
		return []Tok{ident(column(t, label+"c", qualifier)), p(pick(t, label+"o", cmpOps)), ident(column(t, label+"d", qualifier))}
	case k == 12 && depth < 2:
		out := []Tok{p("(")}
		out = append(out, boolExpr(t, label+"g", qualifier, depth+1, 2)...)
		return append(out, p(")"))
	default:
		return []Tok{fn("concat"), p("("), ident(simpleCol(t, label+"c")), p(","), strLit(t, label+"s"), p(")"), p("="), strLit(t, label+"s2")}
	}
}

func valueFor(t *rapid.T, label string, f string) Tok {
	switch f {
	case "upper", "lower", "trim":
		return strLit(t, label)
	}
	return numLit(t, label)
}

func boolExpr(t *rapid.T, label string, qualifier gx, depth int, max int) []Tok {
	n := rapid.IntRange(1, max).Draw(t, label+"n")
	var out []Tok
	for i := 0; i < n; i++ {
		if i > 0 {
			if chance(t, fmt.Sprintf("%sor%d", label, i), 35) {
				out = append(out, kw("OR"))
			} else {
				out = append(out, kw("AND"))
			}
		}
		out = append(out, predicate(t, fmt.Sprintf("%sp%d", label, i), qualifier, depth)...)
	}
	return out
}

// ---------------------------------------------------------------------------------------------
// SELECT items
// ---------------------------------------------------------------------------------------------

func directItem(t *rapid.T, label string, qualifier gx) Item {
	switch k := rapid.IntRange(0, 18).Draw(t, label+"k"); {
	case k == 16:
		// array element / nested path with index
		e := []Tok{w(pick(t, label+"arr", []string{"tags", "meta.items", "orders", "limit_x"})), pq("["), w(strconv.Itoa(rapid.IntRange(0, 3).Draw(t, label+"ix"))), p("]")}
		return Item{Kind: "index", Expr: e}
	case k >= 17:
		// analytic function, optionally with OVER (PARTITION BY .. WHEN ..)
		f := pick(t, label+"af", []string{"lag", "acc_sum", "acc_count", "acc_max", "latest", "LAG", "acc_avg"})
		it := Item{Kind: "analytic", Expr: []Tok{fn(f), p("("), ident(simpleCol(t, label+"c")), p(")")}}
		if chance(t, label+"over", 60) {
			ov := &Over{}
			if chance(t, label+"part", 70) {
				ov.Partition = distinct(t, label+"pc", []string{"deviceId", "a", "limit_x", "orders", "`group`", "tag"}, rapid.IntRange(1, 2).Draw(t, label+"np"))
			}
			if len(ov.Partition) == 0 || chance(t, label+"when", 40) {
				// inside OVER (WHEN ..) only =, AND, OR are normalised by the parser; LIKE / IS / NOT / NULL stay
				// expression text, so their letter case is not varied
				ov.When = boolExpr(t, label+"w", gx{ex: true}, 2, 2)
				for i, tk := range ov.When {
					if tk.K == "kw" && tk.S != "AND" && tk.S != "OR" {
						ov.When[i].K = ""
					}
				}
			}
			it.Over = ov
		}
		return it
	case k < 7:
		return Item{Kind: "col", Expr: []Tok{ident(column(t, label+"c", qualifier))}}
	case k < 9:
		return Item{Kind: "lit", Expr: []Tok{strLit(t, label+"s")}}
	case k == 9:
		return Item{Kind: "num", Expr: []Tok{numLit(t, label+"n")}}
	case k < 12:
		f := pick(t, label+"f", []string{"upper", "lower", "abs", "round", "sqrt", "trim", "concat", "coalesce"})
		e := []Tok{fn(f), p("("), ident(simpleCol(t, label+"c"))}
		if f == "concat" || f == "coalesce" {
			e = append(e, p(","), strLit(t, label+"s"))
		}
		return Item{Kind: "fn", Expr: append(e, p(")"))}
	case k < 14:
		ar := pick(t, label+"ar", []string{"+", "*", "/", "-"})
		o := p(ar)
		if ar == "-" {
			o = op("-")
		}
		rhs := ident(simpleCol(t, label+"d"))
		if chance(t, label+"rn", 50) {
			rhs = w(strconv.Itoa(rapid.IntRange(1, 99).Draw(t, label+"n")))
		}
		e := []Tok{ident(simpleCol(t, label+"c")), o, rhs}
		if chance(t, label+"par", 30) {
			e = append(append([]Tok{p("(")}, e...), p(")"), p("*"), w("2"))
		}
		return Item{Kind: "arith", Expr: e}
	default:
		// CASE expression: CASE/WHEN/THEN/ELSE/END are keywords (letter case free, like every other keyword);
		// branches are two text or two numeric literals
		b1, b2 := strLit(t, label+"s1"), strLit(t, label+"s2")
		if chance(t, label+"numbranch", 50) {
			b1, b2 = w(strconv.Itoa(rapid.IntRange(0, 9).Draw(t, label+"b1"))), w(strconv.Itoa(rapid.IntRange(0, 9).Draw(t, label+"b2")))
		}
		e := []Tok{kw("CASE"), kw("WHEN"), ident(simpleCol(t, label+"c")), p(">"), numLit(t, label+"n"), kw("THEN"), b1,
			kw("ELSE"), b2, kw("END")}
		return Item{Kind: "case", Expr: e}
	}
}

var aggFns = []string{"count", "sum", "avg", "max", "min", "COUNT", "SUM", "AVG", "MAX", "MIN", "Count", "median", "stddev", "first_value", "last_value"}

func aggItem(t *rapid.T, label string) Item {
	f := pick(t, label+"f", aggFns)
	arg := simpleCol(t, label+"c")
	if strings.EqualFold(f, "count") && chance(t, label+"star", 70) {
		arg = "*"
	}
	at := ident(arg)
	if arg == "*" {
		at = p("*")
	}
	return Item{Kind: "agg", Agg: f, AggArg: arg, Expr: []Tok{fn(f), p("("), at, p(")")}}
}

// assignAliases gives the items distinct output names.
func assignAliases(t *rapid.T, items []Item, aliasPct int) {
	pool := distinct(t, "al", aliases, len(items))
	for i := range items {
		it := &items[i]
		if it.Star {
			continue
		}
		must := it.Kind == "lit" || it.Kind == "num" || it.Kind == "case" || it.Kind == "analytic" || (it.Kind == "fn" && pbt.Open("C11", "unaliased-scalar-fn"))
		if must || chance(t, fmt.Sprintf("hasal%d", i), aliasPct) {
			a := pool[i]
			if pbt.Open("C11", "backtick-space") && strings.Contains(a, " ") {
				a = "bt" + strconv.Itoa(i)
			}
			it.Alias = a
		}
	}
	// an alias never repeats the name of another item's bare column
	bare := map[string]bool{}
	for _, it := range items {
		if !it.Star && it.Alias == "" {
			bare[plain(it.Expr)] = true
		}
	}
	for i := range items {
		if items[i].Alias != "" && bare[items[i].Alias] {
			items[i].Alias = fmt.Sprintf("%s_%d", strings.Trim(items[i].Alias, "`"), i)
		}
	}
}

func outName(it Item) string {
	if it.Alias != "" {
		return it.Alias
	}
	return plain(it.Expr)
}

// ---------------------------------------------------------------------------------------------
// Clauses
// ---------------------------------------------------------------------------------------------

func genSource(t *rapid.T, s *Stmt) {
	s.Source = pick(t, "src", sources)
	if chance(t, "hasSrcAlias", 40) {
		s.SourceAlias = pick(t, "srcAlias", srcAliases)
		s.SourceAS = chance(t, "srcAS", 50)
	}
}

func genJoins(t *rapid.T, s *Stmt) {
	n := rapid.IntRange(1, 2).Draw(t, "njoins")
	tbls := distinct(t, "jt", tables, n)
	als := distinct(t, "ja", tblAliases, n)
	for i := 0; i < n; i++ {
		j := Join{Table: tbls[i], Type: pick(t, fmt.Sprintf("jtype%d", i), []string{"", "", "INNER", "LEFT", "LEFT OUTER"})}
		if chance(t, fmt.Sprintf("jhasal%d", i), 70) {
			j.Alias = als[i]
			j.AS = chance(t, fmt.Sprintf("jas%d", i), 50)
		}
		rq := j.Alias
		if rq == "" {
			rq = j.Table
		}
		np := rapid.IntRange(1, 2).Draw(t, fmt.Sprintf("jn%d", i))
		for k := 0; k < np; k++ {
			lbl := fmt.Sprintf("j%dp%d", i, k)
			o := OnPair{LField: simpleCol(t, lbl+"l"), RQual: rq, RField: simpleCol(t, lbl+"r")}
			if s.SourceAlias != "" && chance(t, lbl+"lq", 70) {
				o.LQual = s.SourceAlias
			}
			if chance(t, lbl+"nest", 10) {
				o.RField = "profile." + o.RField
			}
			j.On = append(j.On, o)
		}
		s.Joins = append(s.Joins, j)
	}
}

func genOrderBy(t *rapid.T, s *Stmt, keys []string) {
	n := rapid.IntRange(1, 3).Draw(t, "nob")
	if n > len(keys) {
		n = len(keys)
	}
	for i, k := range distinct(t, "obk", keys, n) {
		s.OrderBy = append(s.OrderBy, OB{Key: k, Dir: pick(t, fmt.Sprintf("obd%d", i), []string{"", "", "ASC", "DESC", "DESC"})})
	}
}

func genLimit(t *rapid.T, s *Stmt) {
	s.HasLimit = true
	s.Limit = rapid.SampledFrom([]int{1, 2, 3, 5, 10, 100, 1000, 7, 42}).Draw(t, "limit")
}

func genDirect(t *rapid.T, exec bool) *Stmt {
	s := &Stmt{Shape: "direct", Distinct: chance(t, "distinct", 15)}
	genSource(t, s)
	if !exec && chance(t, "join", 20) {
		genJoins(t, s)
	}
	q := gx{q: s.SourceAlias, ex: exec}
	if chance(t, "star", 15) {
		s.Items = []Item{{Star: true}}
	} else {
		n := rapid.IntRange(1, 5).Draw(t, "nitems")
		for i := 0; i < n; i++ {
			s.Items = append(s.Items, directItem(t, fmt.Sprintf("it%d", i), q))
		}
		assignAliases(t, s.Items, 45)
		if exec {
			// Execute rejects two items with the same output column; keep executed statements unambiguous
			seen := map[string]bool{}
			for i := range s.Items {
				it := &s.Items[i]
				n := outName(*it)
				if it.Alias == "" && s.SourceAlias != "" {
					n = strings.TrimPrefix(n, s.SourceAlias+".")
				}
				if seen[n] {
					it.Alias = fmt.Sprintf("dup%d", i)
					n = it.Alias
				}
				seen[n] = true
			}
		}
	}
	if chance(t, "where", 60) {
		s.Where = boolExpr(t, "wh", q, 0, 4)
	}
	if chance(t, "orderby", 35) {
		var keys []string
		for _, it := range s.Items {
			if !it.Star && (it.Alias != "" || it.Kind == "col") {
				keys = append(keys, outName(it))
			}
		}
		if len(keys) == 0 {
			keys = []string{simpleCol(t, "obcol")}
		}
		genOrderBy(t, s, keys)
	}
	if chance(t, "limit", 35) {
		genLimit(t, s)
	}
	return s
}

var durs = []string{"1s", "5s", "500ms", "2m", "1h", "90s", "1m30s", "250ms", "10s", "24h"}

func genWindowStmt(t *rapid.T) *Stmt {
	s := &Stmt{Shape: "window"}
	genSource(t, s)
	if chance(t, "join", 10) {
		genJoins(t, s)
	}
	ng := rapid.IntRange(0, 2).Draw(t, "ngroup")
	gcols := distinct(t, "gc", append(append([]string{}, plainCols...), kwCols...), ng)
	for i, g := range gcols {
		if chance(t, fmt.Sprintf("gfn%d", i), 12) {
			s.GroupCols = append(s.GroupCols, []Tok{fn(pick(t, fmt.Sprintf("gf%d", i), []string{"upper", "lower", "abs"})), p("("), w(g), p(")")})
		} else {
			s.GroupCols = append(s.GroupCols, []Tok{w(g)})
		}
	}
	explicit := chance(t, "explicitWin", 82)
	if explicit {
		wd := &Win{Kind: pick(t, "wkind", []string{"tumbling", "tumbling", "sliding", "counting", "session", "global"})}
		switch wd.Kind {
		case "tumbling", "session":
			wd.Durs = []string{pick(t, "d1", durs)}
		case "sliding":
			wd.Durs = []string{pick(t, "d1", durs), pick(t, "d2", durs)}
		case "counting":
			wd.N = rapid.IntRange(1, 1000).Draw(t, "wn")
		}
		wd.Pos = rapid.IntRange(0, len(s.GroupCols)).Draw(t, "wpos")
		if wd.Kind == "global" || chance(t, "wlast", 60) {
			wd.Pos = len(s.GroupCols)
		}
		s.Window = wd
	}
	// items: some of the plain group columns, then aggregates
	for i, g := range s.GroupCols {
		if len(g) == 1 && chance(t, fmt.Sprintf("selg%d", i), 70) {
			s.Items = append(s.Items, Item{Kind: "col", Expr: g})
		}
	}
	na := rapid.IntRange(1, 3).Draw(t, "naggs")
	for i := 0; i < na; i++ {
		s.Items = append(s.Items, aggItem(t, fmt.Sprintf("ag%d", i)))
	}
	if explicit && s.Window.Kind != "counting" && s.Window.Kind != "global" && chance(t, "wfn", 15) {
		s.Items = append(s.Items, Item{Kind: "wfn", Expr: []Tok{fn(pick(t, "wfnn", []string{"window_start", "window_end"})), p("("), p(")")}})
	}
	// aggregates and window functions nearly always carry an alias
	pool := distinct(t, "al", aliases, len(s.Items))
	for i := range s.Items {
		it := &s.Items[i]
		pct := 85
		if it.Kind == "col" {
			pct = 15
		}
		if it.Kind == "wfn" || chance(t, fmt.Sprintf("hasal%d", i), pct) {
			a := pool[i]
			if strings.Contains(a, " ") {
				a = "bt" + strconv.Itoa(i)
			}
			it.Alias = a
		}
	}
	if s.Window != nil && s.Window.Kind == "global" {
		s.Window.Trigger = havingExpr(t, "trg", s, 2, true)
	}
	if chance(t, "where", 40) {
		s.Where = boolExpr(t, "wh", gx{q: s.SourceAlias}, 0, 3)
	}
	if chance(t, "having", 40) {
		s.Having = havingExpr(t, "hv", s, 3, false)
	}
	if !explicit && chance(t, "withNoWin", 25) {
		// aggregation with the default window and WITH options
		all := []string{"TIMESTAMP", "TIMEUNIT", "MAXOUTOFORDERNESS", "ALLOWEDLATENESS", "IDLETIMEOUT"}
		n := rapid.IntRange(1, 3).Draw(t, "nwo")
		if pbt.Open("C11", "with-no-window") {
			n = 1
		}
		for i, name := range distinct(t, "wo", all, n) {
			s.With = append(s.With, withOpt(t, name, i))
		}
	}
	if explicit && chance(t, "with", 55) {
		var names []string
		switch s.Window.Kind {
		case "counting":
			names = []string{"STATETTL"}
		case "global":
		default:
			all := []string{"TIMESTAMP", "TIMEUNIT", "MAXOUTOFORDERNESS", "ALLOWEDLATENESS", "IDLETIMEOUT"}
			names = distinct(t, "wo", all, rapid.IntRange(1, len(all)).Draw(t, "nwo"))
		}
		for i, n := range names {
			s.With = append(s.With, withOpt(t, n, i))
		}
		if len(s.With) > 0 && len(s.Having) > 0 && chance(t, "withFirst", 12) && !pbt.Open("C11", "with-before-having") {
			s.WithFirst = true
		}
	}
	if chance(t, "orderby", 30) {
		var keys []string
		for _, it := range s.Items {
			if it.Alias != "" || it.Kind == "col" {
				keys = append(keys, outName(it))
			}
		}
		if len(keys) > 0 {
			genOrderBy(t, s, keys)
		}
	}
	// HAVING directly followed by ORDER BY: known finding having-then-orderby; when it is listed as open the
	// main search keeps both clauses apart by construction (drops one of them).
	if pbt.Open("C11", "having-then-orderby") && hasHavingThenOrderBy(s) {
		if chance(t, "dropWhich", 50) {
			s.OrderBy = nil
		} else {
			s.Having = nil
			s.WithFirst = false
		}
	}
	if chance(t, "limit", 30) {
		genLimit(t, s)
	}
	return s
}

func withOpt(t *rapid.T, n string, i int) WOpt {
	o := WOpt{Name: n}
	switch n {
	case "TIMESTAMP":
		o.Val = pick(t, "tsprop", []string{"ts", "timestamp", "order", "event_time", "limit_x", "from_ts", "eventTime"})
	case "TIMEUNIT":
		o.Val = pick(t, "tu", []string{"ss", "ms", "mi", "hh", "dd"})
	default:
		o.Val = pick(t, fmt.Sprintf("wod%d", i), durs)
	}
	return o
}

func hasHavingThenOrderBy(s *Stmt) bool {
	return len(s.Having) > 0 && len(s.OrderBy) > 0 && (len(s.With) == 0 || s.WithFirst)
}

// havingExpr draws a predicate over the statement's aggregate outputs: aliases, or aggregate calls.
func havingExpr(t *rapid.T, label string, s *Stmt, max int, trigger bool) []Tok {
	var aggs []Item
	for _, it := range s.Items {
		if it.Kind == "agg" {
			aggs = append(aggs, it)
		}
	}
	n := rapid.IntRange(1, max).Draw(t, label+"n")
	var out []Tok
	for i := 0; i < n; i++ {
		l := fmt.Sprintf("%s%d", label, i)
		if i > 0 {
			if chance(t, l+"or", 30) {
				out = append(out, kw("OR"))
			} else {
				out = append(out, kw("AND"))
			}
		}
		switch k := rapid.IntRange(0, 9).Draw(t, l+"k"); {
		case k < 5 && len(aggs) > 0:
			it := aggs[rapid.IntRange(0, len(aggs)-1).Draw(t, l+"a")]
			if it.Alias != "" && chance(t, l+"useAlias", 60) {
				out = append(out, ident(it.Alias))
			} else {
				out = append(out, it.Expr...)
			}
		case k < 8:
			// an aggregate that is not selected (standard SQL allows it in HAVING)
			it := aggItem(t, l+"ns")
			out = append(out, it.Expr...)
		default:
			out = append(out, fn("count"), p("("), p("*"), p(")"))
		}
		out = append(out, p(pick(t, l+"o", []string{">", ">=", "<", "<=", "=", "!="})), numLit(t, l+"v"))
	}
	_ = trigger
	return out
}

// ---------------------------------------------------------------------------------------------
// MATCH_RECOGNIZE
// ---------------------------------------------------------------------------------------------

var patVars = []string{"A", "B", "C", "D", "Up", "Down", "Start", "X1", "limit_v", "orders", "End", "When"}

func genAtom(t *rapid.T, label string, vars []string, depth int) *Pat {
	k := rapid.IntRange(0, 9).Draw(t, label+"k")
	if depth >= 2 {
		k = 0
	}
	switch {
	case k < 7:
		return &Pat{Kind: "lit", Sym: pick(t, label+"v", vars)}
	case k < 9:
		return &Pat{Kind: "group", Kids: []*Pat{genAlt(t, label+"g", vars, depth+1)}}
	default:
		n := rapid.IntRange(2, 3).Draw(t, label+"pn")
		pp := &Pat{Kind: "permute"}
		for i := 0; i < n; i++ {
			pp.Kids = append(pp.Kids, &Pat{Kind: "lit", Sym: pick(t, fmt.Sprintf("%spv%d", label, i), vars)})
		}
		return pp
	}
}

func genQuantified(t *rapid.T, label string, vars []string, depth int) *Pat {
	a := genAtom(t, label, vars, depth)
	if !chance(t, label+"q", 45) {
		return a
	}
	r := &Pat{Kind: "rep", Kids: []*Pat{a}, Q: pick(t, label+"qk", []string{"?", "*", "+", "{n}", "{n,}", "{n,m}"})}
	switch r.Q {
	case "?":
		r.Min, r.Max = 0, 1
	case "*":
		r.Min, r.Max = 0, -1
	case "+":
		r.Min, r.Max = 1, -1
	case "{n}":
		r.Min = rapid.IntRange(1, 5).Draw(t, label+"n")
		r.Max = r.Min
	case "{n,}":
		r.Min = rapid.IntRange(0, 5).Draw(t, label+"n")
		r.Max = -1
	case "{n,m}":
		r.Min = rapid.IntRange(0, 4).Draw(t, label+"n")
		r.Max = r.Min + rapid.IntRange(0, 4).Draw(t, label+"m")
		if r.Max == 0 {
			r.Max = 1
		}
	}
	r.Lazy = chance(t, label+"lazy", 25)
	return r
}

func genSeq(t *rapid.T, label string, vars []string, depth int) *Pat {
	n := rapid.IntRange(1, 4).Draw(t, label+"sn")
	if n == 1 {
		return genQuantified(t, label+"s0", vars, depth)
	}
	s := &Pat{Kind: "seq"}
	for i := 0; i < n; i++ {
		s.Kids = append(s.Kids, genQuantified(t, fmt.Sprintf("%ss%d", label, i), vars, depth))
	}
	return s
}

func genAlt(t *rapid.T, label string, vars []string, depth int) *Pat {
	n := 1
	if chance(t, label+"alt", 30) {
		n = rapid.IntRange(2, 3).Draw(t, label+"an")
	}
	if n == 1 {
		return genSeq(t, label+"a0", vars, depth)
	}
	a := &Pat{Kind: "alt"}
	for i := 0; i < n; i++ {
		a.Kids = append(a.Kids, genSeq(t, fmt.Sprintf("%sa%d", label, i), vars, depth))
	}
	return a
}

func patVarsUsed(pt *Pat, seen map[string]bool, out *[]string) {
	if pt.Kind == "lit" && !seen[pt.Sym] {
		seen[pt.Sym] = true
		*out = append(*out, pt.Sym)
	}
	for _, k := range pt.Kids {
		patVarsUsed(k, seen, out)
	}
}

func genMRStmt(t *rapid.T) *Stmt {
	s := &Stmt{Shape: "mr"}
	s.Source = pick(t, "src", sources)
	m := &MR{}
	s.MR = m
	nv := rapid.IntRange(1, 4).Draw(t, "nvars")
	vars := distinct(t, "pv", patVars, nv)
	if chance(t, "mrpart", 50) {
		m.Partition = distinct(t, "mrp", append(append([]string{}, plainCols...), "limit_x", "orders", "`group`"), rapid.IntRange(1, 2).Draw(t, "nmrp"))
	}
	m.Order = []OB{{Key: pick(t, "mrob", []string{"ts", "event_time", "order_id", "`order`", "seq"}), Dir: pick(t, "mrobd", []string{"", "", "ASC"})}}
	if chance(t, "mrob2", 15) {
		m.Order = append(m.Order, OB{Key: "id2"})
	}
	m.Pattern = genAlt(t, "pat", vars, 0)
	var used []string
	patVarsUsed(m.Pattern, map[string]bool{}, &used)
	nm := rapid.IntRange(0, 3).Draw(t, "nmeas")
	mal := distinct(t, "mal", []string{"mn", "peak", "first_ts", "last_ts", "cnt", "limit_x", "orders", "cls", "`from`"}, nm)
	for i := 0; i < nm; i++ {
		l := fmt.Sprintf("ms%d", i)
		v := used[rapid.IntRange(0, len(used)-1).Draw(t, l+"v")]
		var e []Tok
		switch rapid.IntRange(0, 5).Draw(t, l+"k") {
		case 0:
			e = []Tok{fn("MATCH_NUMBER"), p("("), p(")")}
		case 1:
			e = []Tok{fn("CLASSIFIER"), p("("), p(")")}
		case 2:
			e = []Tok{fn("LAST"), p("("), w(v + "." + simpleCol(t, l+"c")), p(")")}
		case 3:
			e = []Tok{fn("FIRST"), p("("), w(v + "." + simpleCol(t, l+"c")), p(")")}
		case 4:
			e = []Tok{fn("COUNT"), p("("), w(v + "." + simpleCol(t, l+"c")), p(")")}
		default:
			e = []Tok{fn("LAST"), p("("), w(v + ".temp"), p(")"), op("-"), fn("FIRST"), p("("), w(v + ".temp"), p(")")}
		}
		m.Measures = append(m.Measures, Measure{Expr: e, Alias: mal[i]})
	}
	m.Rows = pick(t, "rows", []string{"", "ONE", "ONE", "ALL"})
	m.Skip = pick(t, "skip", []string{"", "", "PAST", "NEXT", "FIRST", "LAST", "VAR"})
	if m.Skip == "FIRST" || m.Skip == "LAST" || m.Skip == "VAR" {
		m.SkipSym = used[rapid.IntRange(0, len(used)-1).Draw(t, "skipsym")]
	}
	switch rapid.IntRange(0, 3).Draw(t, "within") {
	case 1:
		m.WithinLit = "'" + pick(t, "withind", durs) + "'"
	case 2:
		m.WithinN = strconv.Itoa(rapid.IntRange(1, 500).Draw(t, "withinn"))
		m.WithinU = pick(t, "withinu", []string{"SECONDS", "SECOND", "MS", "MINUTES", "HOURS", "S", "MILLISECONDS"})
	}
	if len(used) >= 2 && chance(t, "subset", 25) {
		ns := rapid.IntRange(1, 2).Draw(t, "nsub")
		names := distinct(t, "subn", []string{"U", "V", "AB", "ordered"}, ns)
		for i := 0; i < ns; i++ {
			m.Subsets = append(m.Subsets, Subset{Name: names[i], Syms: distinct(t, fmt.Sprintf("subs%d", i), used, rapid.IntRange(1, len(used)).Draw(t, fmt.Sprintf("nss%d", i)))})
		}
	}
	nd := rapid.IntRange(0, len(used)).Draw(t, "ndef")
	for i, v := range distinct(t, "defv", used, nd) {
		m.Defines = append(m.Defines, Define{Sym: v, Cond: mrCond(t, fmt.Sprintf("def%d", i))})
	}
	// SELECT list
	if len(m.Measures) == 0 || chance(t, "mrstar", 40) {
		s.Items = []Item{{Star: true}}
	} else {
		for _, ms := range m.Measures {
			s.Items = append(s.Items, Item{Kind: "col", Expr: []Tok{ident(ms.Alias)}})
		}
	}
	if chance(t, "limit", 20) {
		genLimit(t, s)
	}
	return s
}

// mrCond draws a DEFINE condition; its AND/OR are expression text (case fixed).
func mrCond(t *rapid.T, label string) []Tok {
	n := rapid.IntRange(1, 2).Draw(t, label+"n")
	var out []Tok
	for i := 0; i < n; i++ {
		l := fmt.Sprintf("%s_%d", label, i)
		if i > 0 {
			out = append(out, w(pick(t, l+"j", []string{"AND", "OR"})))
		}
		switch rapid.IntRange(0, 3).Draw(t, l+"k") {
		case 0:
			out = append(out, w(simpleCol(t, l+"c")), p(pick(t, l+"o", cmpOps)), numLit(t, l+"v"))
		case 1:
			out = append(out, w(simpleCol(t, l+"c")), p("="), strLit(t, l+"s"))
		case 2:
			out = append(out, w(simpleCol(t, l+"c")), p(">"), fn("PREV"), p("("), w(simpleCol(t, l+"c2")), p(")"))
		default:
			out = append(out, fn("abs"), p("("), w(simpleCol(t, l+"c")), op("-"), numLit(t, l+"v"), p(")"), p("<"), numLit(t, l+"w"))
		}
	}
	return out
}

// ---------------------------------------------------------------------------------------------
// Layout, rows, case
// ---------------------------------------------------------------------------------------------

func genLayout(t *rapid.T) Layout {
	var l Layout
	style := rapid.IntRange(0, 5).Draw(t, "lstyle")
	n := rapid.IntRange(1, 24).Draw(t, "lws")
	for i := 0; i < n; i++ {
		var g int
		switch style {
		case 0: // mostly natural with a few odd gaps
			g = rapid.SampledFrom([]int{wsNatural, wsNatural, wsNatural, 1, 4, 3}).Draw(t, "g")
		case 1: // one statement per line, tabs
			g = rapid.SampledFrom([]int{4, 3, 1, 5}).Draw(t, "g")
		case 2: // as tight as the tokens allow
			g = rapid.SampledFrom([]int{0, 0, 0, 1}).Draw(t, "g")
		default:
			g = rapid.IntRange(0, wsNatural).Draw(t, "g")
		}
		l.WS = append(l.WS, g)
	}
	kn := rapid.IntRange(1, 8).Draw(t, "lkc")
	for i := 0; i < kn; i++ {
		l.KC = append(l.KC, rapid.IntRange(0, 5).Draw(t, "kc"))
	}
	l.Lead = rapid.SampledFrom([]int{0, 0, 0, 1, 4, 6}).Draw(t, "lead")
	l.Trail = rapid.SampledFrom([]int{0, 0, 0, 1, 4, 5, 6}).Draw(t, "trail")
	return l
}

func genRows(t *rapid.T, s *Stmt) []gen.Row {
	// columns referenced anywhere in the statement get values; a small value pool makes predicates hit
	names := map[string]bool{}
	var order []string
	add := func(n string) {
		n = strings.Trim(n, "`")
		if s.SourceAlias != "" && strings.HasPrefix(n, s.SourceAlias+".") {
			n = n[len(s.SourceAlias)+1:]
		}
		if i := strings.Index(n, "."); i > 0 {
			n = n[:i]
		}
		if n != "" && !names[n] {
			names[n] = true
			order = append(order, n)
		}
	}
	scan := func(toks []Tok) {
		for _, tk := range toks {
			if tk.K == "" && len(tk.S) > 0 && (tk.S[0] == '_' || (tk.S[0] >= 'a' && tk.S[0] <= 'z') || (tk.S[0] >= 'A' && tk.S[0] <= 'Z')) {
				add(tk.S)
			}
			if tk.K == "lit" && strings.HasPrefix(tk.S, "`") {
				add(tk.S)
			}
		}
	}
	for _, it := range s.Items {
		scan(it.Expr)
	}
	scan(s.Where)
	for _, c := range plainCols[:4] {
		add(c)
	}
	nr := rapid.IntRange(1, 4).Draw(t, "nrows")
	rows := make([]gen.Row, nr)
	for i := range rows {
		r := gen.Row{}
		for _, n := range order {
			l := fmt.Sprintf("r%d_%s", i, n)
			switch rapid.IntRange(0, 9).Draw(t, l+"k") {
			case 0:
				r[n] = gen.Missing()
			case 1:
				r[n] = gen.Nil()
			case 2, 3, 4:
				r[n] = gen.Int(int64(rapid.IntRange(-3, 60).Draw(t, l)))
			case 5:
				r[n] = gen.Float(float64(rapid.IntRange(-8, 200).Draw(t, l)) / 4)
			default:
				r[n] = gen.Str(pick(t, l, litBodies))
			}
		}
		rows[i] = r
	}
	return rows
}

// Case is one generated input.
type Case struct {
	Kind string `json:"kind"` // soup | stmt
	// soup: the input string is Pre + Unit*Rep + Post (bytes, base64 in JSON); Text is a quoted
	// rendering for readers only.
	Soup *Soup `json:"soup,omitempty"`
	// stmt: an AST of the documented grammar, a second layout, and rows for the direct-query execution check
	Stmt   *Stmt     `json:"stmt,omitempty"`
	Layout Layout    `json:"layout"`
	Exec   bool      `json:"exec,omitempty"`
	Rows   []gen.Row `json:"rows,omitempty"`
	// SQL / SQL2 are the two renderings, for readers only (recomputed from Stmt at run time).
	SQL  string `json:"sql,omitempty"`
	SQL2 string `json:"sql2,omitempty"`
}

func genCase(t *rapid.T) Case {
	// (rapid's integer draws lean towards small values, so the statement kinds come first)
	if rapid.IntRange(0, 99).Draw(t, "kind") >= 60 {
		sp := genSoup(t)
		return Case{Kind: "soup", Soup: sp}
	}
	var s *Stmt
	exec := false
	switch k := rapid.IntRange(0, 9).Draw(t, "shape"); {
	case k < 3:
		s = genWindowStmt(t)
	case k < 7:
		exec = chance(t, "exec", 30)
		s = genDirect(t, exec)
	default:
		s = genMRStmt(t)
	}
	c := Case{Kind: "stmt", Stmt: s, Layout: genLayout(t)}
	if exec {
		c.Exec = true
		c.Rows = genRows(t, s)
	}
	c.SQL = render(s.toks(), Layout{})
	c.SQL2 = render(s.toks(), c.Layout)
	return c
}
