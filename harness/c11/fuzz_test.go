package c11

import (
	"strings"
	"testing"

	"pgregory.net/rapid"
	"verifharness/internal/pbt"
)

// Statements copied from the repository's tests and documentation (README.md, rsql/*_test.go, test/e2e/*_test.go);
// nothing is read from /repo at test time.
var harvested = []string{
	"SELECT deviceId, temperature FROM stream WHERE temperature > 0",
	"SELECT id, name, email FROM users WHERE active = true AND created_at > '2023-01-01'",
	"SELECT * FROM events LIMIT 100",
	"SELECT * FROM stream WHERE temperature > 40 OR humidity > 90 OR pressure < 900",
	"SELECT lag(temperature) AS prev_temp FROM stream",
	"SELECT COUNT(*) FROM products GROUP BY category HAVING COUNT(*) > 5",
	"SELECT lag(status) OVER (WHEN had_changed(true, status)) AS prev_status FROM stream",
	"SELECT * FROM events WITH (TIMESTAMP='ts', TIMEUNIT='mi')",
	"SELECT unnest(tags) as tag FROM stream",
	"SELECT AVG(temperature) as avg_temp FROM stream GROUP BY TumblingWindow('1s')",
	"SELECT device, sum(temperature) as total, avg(temperature) as average, count(*) as cnt FROM stream GROUP BY device, TumblingWindow('1s')",
	"SELECT round((v+1), 2) AS r FROM stream",
	"SELECT device, avg(temperature) as avg_temp, window_start() as start_time, window_end() as end_time FROM stream GROUP BY device, TumblingWindow('1s')",
	"SELECT `deviceId`, `deviceType` FROM stream WHERE `deviceId` LIKE 'sensor%'",
	"SELECT * FROM stream WHERE (temperature > 20 AND humidity < 80) OR (pressure > 1000 AND status == 'normal')",
	"SELECT a, b FROM t ORDER BY a DESC, b ASC",
	"SELECT deviceId, m.location FROM stream JOIN meta m ON deviceId = m.deviceId",
	"SELECT * FROM t ORDER BY v DESC LIMIT 2",
	"SELECT device, now() as current_time, year(timestamp) as ts_year, month(timestamp) as ts_month FROM stream",
	"SELECT deviceId, acc_count(value) OVER (PARTITION BY deviceId) AS cnt FROM stream",
	"SELECT device, concat(upper(device), '_processed') as processed_name FROM stream",
	"SELECT * FROM table WHERE value = 123.456.789",
	"SELECT * FROM stream WHERE description IS NOT NULL OR temperature > 30",
	"SELECT device.type, AVG(sensor.temperature) as avg_temp, COUNT(*) as cnt FROM stream GROUP BY device.type, TumblingWindow('1s')",
	"SELECT deviceId, filename FROM stream WHERE filename LIKE '%.log'",
	"SELECT deviceId, m.location FROM stream LEFT JOIN meta m ON deviceId = m.deviceId",
	"SELECT name FROM users LIMIT abc",
	"SELECT id FROM stream GROUP BY InvalidWindow('5s')",
	"SELECT deviceId FROM Input WHERE deviceId='aa'",
	"SELECT * FROM t WHERE note = 'x ORDER y'",
	"SELECT s.deviceId, m.location, m.profile.id AS pid FROM stream s JOIN meta m ON s.deviceId = m.deviceId",
	"SELECT name, COUNT(*), SUM(salary) FROM employees GROUP BY name",
	"SELECT name FROM users WHERE UPPER(name) LIKE 'JOHN%'",
	"SELECT (temperature + humidity) * 2 as combined FROM sensors",
	"SELECT g, count(*) AS c FROM t WHERE x > 5 GROUP BY g HAVING count(*) > 0 ORDER BY c DESC",
	"SELECT count(*) AS c FROM stream GROUP BY TumblingWindow('1s') WITH (TIMESTAMP='ts', TIMEUNIT='ms') HAVING max(v) > 50",
	"SELECT COUNT(*) FROM events TUMBLINGWINDOW(5, 'mi')",
	"SELECT * FROM stream MATCH_RECOGNIZE (ORDER BY ts DEFINE A AS v>0)",
	"SELECT deviceId, COUNT(*) AS cnt FROM stream GROUP BY deviceId, GLOBAL WINDOW",
	"SELECT g, count(*) AS c FROM t GROUP BY g, GLOBAL WINDOW TRIGGER WHEN count(*) >= 3",
	"SELECT * FROM stream MATCH_RECOGNIZE (ORDER BY ts PATTERN (",
	"SELECT upper(device) AS d, count(*) AS c FROM stream GROUP BY upper(device), CountingWindow(2)",
	"SELECT deviceId, max(temp) AS m FROM stream GROUP BY deviceId, CountingWindow(2) OVER (WHEN x > 0)",
	"SELECT sum(count(x)) AS s FROM stream GROUP BY CountingWindow(2)",
	"SELECT MIN(concurrency) AS mn, COUNT(*) AS c FROM stream GROUP BY SlidingWindow('10s','2s') HAVING mn > 200",
	"SELECT changed_col(true, max(temp)) AS c FROM stream GROUP BY CountingWindow(2)",
	"SELECT CASE WHEN lag(temp) > 20 THEN 'up' ELSE 'down' END AS s FROM stream",
	"SELECT * FROM stream MATCH_RECOGNIZE (ORDER BY ts PATTERN ((A | B) C+) DEFINE A AS v>0)",
	"SELECT CASE WHEN CASE WHEN field > 0 THEN 1 ELSE 0 END = 1 THEN 'positive' ELSE 'negative' END FROM table",
	"SELECT * FROM stream MATCH_RECOGNIZE (ORDER BY ts ALL ROWS PER MATCH PATTERN (A+) DEFINE A AS v>0)",
	"SELECT deviceId, COUNT(*) AS msgs, MAX(ts) AS last_ts FROM stream GROUP BY deviceId, SessionWindow('5s')",
	"SELECT * FROM stream MATCH_RECOGNIZE (ORDER BY ts PATTERN ({- A -}) DEFINE A AS v>0)",
	"SELECT CASE WHEN value > 10 AND < 20 THEN 'A' END FROM table",
	"SELECT count(*) AS c FROM stream GROUP BY CountingWindow(3) OVER (PARTITION BY k)",
	"SELECT * FROM stream\nMATCH_RECOGNIZE (\n    ORDER BY ts\n    MEASURES MATCH_NUMBER() AS mn, LAST(A.temp) AS peak\n    ONE ROW PER MATCH\n    PATTERN (A{3}) WITHIN '1h'\n    DEFINE A AS temp > 50\n)",
	"SELECT * FROM stream MATCH_RECOGNIZE ( PARTITION BY dev ORDER BY ts MEASURES MATCH_NUMBER() AS mn ONE ROW PER MATCH AFTER MATCH SKIP TO NEXT ROW PATTERN (A{3} B+? PERMUTE(C, D)*) WITHIN 5 SECONDS SUBSET U = (A, B) DEFINE A AS temp > 50, B AS temp < PREV(temp) )",
	"SELECT deviceId, temperature, lag(temperature) AS prev\nFROM stream\nWHERE had_changed(true, temperature)",
	"SELECT deviceId, AVG(temperature) AS avg_temp,\n       window_start() AS start, window_end() AS end\nFROM stream\nGROUP BY deviceId, TumblingWindow('5s')",
	"SELECT device_id,\n       AVG(temperature) as avg_temp\n        FROM stream\n        WHERE device_id LIKE 'sensor%'\n        GROUP BY device_id, SlidingWindow('1m', '30s')\n        HAVING avg_temp > 25\n        ORDER BY avg_temp DESC\n        LIMIT 10",
	"SELECT g, count(*) AS c FROM t GROUP BY g, TumblingWindow('5s') WITH (TIMESTAMP='ts', TIMEUNIT='ms', MAXOUTOFORDERNESS='2s', ALLOWEDLATENESS='1s', IDLETIMEOUT='3s')",
	"SELECT g, count(*) AS c FROM t GROUP BY g, CountingWindow(3) WITH (STATETTL='1h')",
}

var hostile = []string{
	"", " ", "\x00", "SELECT", "SELECT ", "SELECT FROM", "SELECT * FROM", "SELECT a FROM s WHERE x = 'abc", "SELECT a FROM s WHERE x = \"abc",
	"SELECT `a FROM s", "SELECT a FROM s WHERE !", "SELECT a FROM s WHERE a ! b", "SELECT a FROM s LIMIT", "SELECT a FROM s LIMIT -", "SELECT a FROM s LIMIT -5",
	"SELECT a FROM s ORDER", "SELECT a FROM s ORDER BY", "SELECT a FROM s ORDER BY ,", "SELECT a FROM s GROUP BY", "SELECT a FROM s GROUP", "SELECT a FROM s WITH (",
	"SELECT a FROM s WITH", "SELECT a FROM s GROUP BY TumblingWindow(", "SELECT a FROM s GROUP BY TumblingWindow", "SELECT a FROM s GROUP BY g, GLOBAL", "SELECT a FROM s JOIN",
	"SELECT a FROM s LEFT", "SELECT a FROM s JOIN t ON", "SELECT a FROM s JOIN t ON a =", "SELECT a FROM s JOIN t ON a = b AND", "SELECT lag(a) OVER", "SELECT lag(a) OVER (",
	"SELECT lag(a) OVER (PARTITION", "SELECT lag(a) OVER (PARTITION BY", "SELECT a FROM s WHERE lag(a) over (", "SELECT a FROM s WHERE lag(", "SELECT * FROM s MATCH_RECOGNIZE",
	"SELECT * FROM s MATCH_RECOGNIZE (", "SELECT * FROM s MATCH_RECOGNIZE (PATTERN", "SELECT * FROM s MATCH_RECOGNIZE (PATTERN (A{", "SELECT * FROM s MATCH_RECOGNIZE (PATTERN (A{1,",
	"SELECT * FROM s MATCH_RECOGNIZE (PATTERN (A|", "SELECT * FROM s MATCH_RECOGNIZE (PATTERN ({-", "SELECT * FROM s MATCH_RECOGNIZE (AFTER MATCH SKIP TO", "SELECT * FROM s MATCH_RECOGNIZE (WITHIN 5",
	"SELECT * FROM s MATCH_RECOGNIZE (SUBSET U = (", "SELECT * FROM s MATCH_RECOGNIZE (MEASURES", "SELECT * FROM s MATCH_RECOGNIZE (DEFINE A AS",
	strings.Repeat("(", 500), strings.Repeat(")", 500), "SELECT " + strings.Repeat("(", 300) + "a" + strings.Repeat(")", 300) + " FROM s",
	"SELECT " + strings.Repeat("a,", 400) + "a FROM s", "SELECT a FROM s WHERE " + strings.Repeat("a = 1 AND ", 150) + "a = 1", strings.Repeat("SELECT ", 200),
	"SELECT * FROM s MATCH_RECOGNIZE (ORDER BY ts PATTERN (" + strings.Repeat("(", 400) + "A" + strings.Repeat(")", 400) + ") DEFINE A AS v > 0)",
	strings.Repeat("!", 300), strings.Repeat("'", 301), strings.Repeat("`", 301), strings.Repeat("-", 300), strings.Repeat(".", 300), strings.Repeat("1.", 300),
	"SELECT a FROM s WHERE x = '\xff\xfe'", "SELECT \xc3\x28 FROM s", "SELECT a FROM s -- comment", "SELECT a /* c */ FROM s", "SELECT a FROM s;", "SELECT a FROM s; DROP TABLE t",
	"select a from s where a = 1 limit 99999999999999999999", "SELECT a FROM s LIMIT 1 LIMIT 2", "SELECT a FROM s ORDER BY a ORDER BY b", "SELECT a FROM s WHERE WHERE", "SELECT SELECT",
	"SELECT a FROM FROM", "SELECT a AS AS FROM s", "SELECT a FROM s GROUP BY GROUP BY", "SELECT count(*) FROM s GROUP BY TumblingWindow('5s'), SlidingWindow('1s','1s')",
}

// FuzzParse: totality of rsql.Parse over arbitrary bytes (run with -fuzz in the thorough tier only; plain
// `go test` replays the seed corpus).
func FuzzParse(f *testing.F) {
	for _, s := range harvested {
		f.Add([]byte(s))
	}
	for _, s := range hostile {
		f.Add([]byte(s))
	}
	f.Fuzz(func(t *testing.T, data []byte) {
		if len(data) > childThreshold {
			t.Skip("megabyte inputs are covered by the child-process path of TestProp")
		}
		sql := string(data)
		var res pbt.Result
		o := parseWD(sql)
		totality(&res, sql, o)
		for _, d := range res.Discs {
			t.Fatalf("VERIF-DISC kind=%s detail=%s", d.Kind, d.Detail)
		}
	})
}

func explains(f pbt.Finding, kind string) bool {
	if f.Kind == kind {
		return true
	}
	for _, k := range f.Kinds {
		if k == kind {
			return true
		}
	}
	return false
}

// FuzzStmt drives the whole property (generator + oracle) from the native fuzzer's byte stream
// (coverage-guided, all cores); known findings are filtered exactly as in TestProp.
func FuzzStmt(f *testing.F) {
	f.Add(make([]byte, 8192))
	open := pbt.OpenFindings("C11")
	f.Fuzz(rapid.MakeFuzz(func(rt *rapid.T) {
		c := genCase(rt)
		if c.Kind == "soup" && c.Soup != nil && (c.Soup.Mode == "huge" || len(c.Soup.Pre)+len(c.Soup.Unit)*c.Soup.Rep+len(c.Soup.Post) > childThreshold) {
			return // child-process cases stay in TestProp
		}
		// no engine instances here: their background goroutines make coverage non-deterministic, which stalls
		// the coverage-guided fuzzer in minimisation; the execution relation is exercised by TestProp
		c.Exec = false
		res := runCase(c)
		feats := features(c)
	next:
		for _, d := range res.Discs {
			for _, fd := range open {
				if fd.Feature != "" && explains(fd, d.Kind) {
					for _, ft := range feats {
						if ft == fd.Feature {
							continue next
						}
					}
				}
			}
			rt.Fatalf("VERIF-DISC kind=%s detail=%s", d.Kind, d.Detail)
		}
	}))
}
