package c11

import (
	"strconv"
	"strings"
	"unicode"
)

// ---------------------------------------------------------------------------------------------
// Tokens and layouts
// ---------------------------------------------------------------------------------------------

// Tok is one lexical token of a generated statement.
// K: ""    word (identifier / number, text fixed)
//
//	"kw"  keyword, letter case free
//	"kwfn" keyword used like a function name (window functions), case free, "(" follows tightly in the natural layout
//	"fn"  function name (text fixed), "(" follows tightly in the natural layout
//	"lit" quoted literal ('..', "..", `..`), text fixed
//	"p"   punctuation / operator, whitespace around it optional
//	"pq"  punctuation glued to the left in the natural layout (pattern quantifiers), whitespace optional
//	"op"  operator that is always surrounded by whitespace (binary minus)
type Tok struct {
	S string `json:"s"`
	K string `json:"k,omitempty"`
}

func w(s string) Tok    { return Tok{S: s} }
func kw(s string) Tok   { return Tok{S: s, K: "kw"} }
func kwfn(s string) Tok { return Tok{S: s, K: "kwfn"} }
func fn(s string) Tok   { return Tok{S: s, K: "fn"} }
func lit(s string) Tok  { return Tok{S: s, K: "lit"} }
func p(s string) Tok    { return Tok{S: s, K: "p"} }
func pq(s string) Tok   { return Tok{S: s, K: "pq"} }
func op(s string) Tok   { return Tok{S: s, K: "op"} }

// ident returns a word token, or a literal token when the name is back-quoted.
func ident(s string) Tok {
	if strings.HasPrefix(s, "`") {
		return lit(s)
	}
	return w(s)
}

func kws(words ...string) []Tok {
	out := make([]Tok, len(words))
	for i, x := range words {
		out[i] = kw(x)
	}
	return out
}

func wordy(t Tok) bool {
	switch t.K {
	case "", "kw", "kwfn", "fn", "lit":
		return true
	}
	return false
}

func needWS(a, b Tok) bool {
	return (wordy(a) && wordy(b)) || a.K == "op" || b.K == "op"
}

func natural(a, b Tok) string {
	switch {
	case needWS(a, b):
		return " "
	case b.S == "," || b.S == ")" || b.S == "}" || b.S == "]":
		return ""
	case a.S == "(" || a.S == "{" || a.S == "[":
		return ""
	case b.K == "pq":
		return ""
	case b.S == "(" && (a.K == "fn" || a.K == "kwfn"):
		return ""
	}
	return " "
}

// whitespace alphabet: exactly the characters the lexer documents as whitespace.
var wsChoices = []string{"", " ", "  ", "\t", "\n", "\r\n", " \n\t ", "\n\n"}

const wsNatural = 8 // choice index meaning "natural layout"

// Layout is a rendering of the same token sequence: whitespace per gap and letter case per keyword.
// Empty slices mean the canonical layout (natural spacing, canonical keyword case).
type Layout struct {
	WS    []int `json:"ws,omitempty"` // per gap (cycled): index into wsChoices, or wsNatural
	KC    []int `json:"kc,omitempty"` // per keyword (cycled): 0 canonical 1 upper 2 lower 3 title 4 aLtErNaTe 5 AlTeRnAtE
	Lead  int   `json:"lead,omitempty"`
	Trail int   `json:"trail,omitempty"`
}

func caseOf(s string, mode int) string {
	switch mode {
	case 1:
		return strings.ToUpper(s)
	case 2:
		return strings.ToLower(s)
	case 3:
		if s == "" {
			return s
		}
		return strings.ToUpper(s[:1]) + strings.ToLower(s[1:])
	case 4, 5:
		var sb strings.Builder
		up := mode == 5
		for _, r := range s {
			if unicode.IsLetter(r) {
				if up {
					sb.WriteRune(unicode.ToUpper(r))
				} else {
					sb.WriteRune(unicode.ToLower(r))
				}
				up = !up
			} else {
				sb.WriteRune(r)
			}
		}
		return sb.String()
	}
	return s
}

func render(toks []Tok, l Layout) string {
	var sb strings.Builder
	if l.Lead > 0 && l.Lead < len(wsChoices) {
		sb.WriteString(wsChoices[l.Lead])
	}
	k := 0
	for i, t := range toks {
		if i > 0 {
			a := toks[i-1]
			g := wsNatural
			if len(l.WS) > 0 {
				g = l.WS[(i-1)%len(l.WS)]
			}
			if g < 0 || g >= len(wsChoices) {
				sb.WriteString(natural(a, t))
			} else {
				s := wsChoices[g]
				if s == "" && needWS(a, t) {
					s = " "
				}
				sb.WriteString(s)
			}
		}
		if t.K == "kw" || t.K == "kwfn" {
			mode := 0
			if len(l.KC) > 0 {
				mode = l.KC[k%len(l.KC)]
			}
			k++
			sb.WriteString(caseOf(t.S, mode))
		} else {
			sb.WriteString(t.S)
		}
	}
	if l.Trail > 0 && l.Trail < len(wsChoices) {
		sb.WriteString(wsChoices[l.Trail])
	}
	return sb.String()
}

// ---------------------------------------------------------------------------------------------
// Statement AST
// ---------------------------------------------------------------------------------------------

// Item is one SELECT item.
type Item struct {
	Star  bool   `json:"star,omitempty"`
	Expr  []Tok  `json:"expr,omitempty"`
	Alias string `json:"alias,omitempty"`
	// Agg/AggArg are set for a plain aggregate call fn(arg) (window statements).
	Agg    string `json:"agg,omitempty"`
	AggArg string `json:"agg_arg,omitempty"`
	Kind   string `json:"kind,omitempty"` // col lit num fn arith case index agg wfn analytic
	// Over is the OVER (...) clause of an analytic function item.
	Over *Over `json:"over,omitempty"`
}

type Over struct {
	Partition []string `json:"partition,omitempty"`
	When      []Tok    `json:"when,omitempty"`
}

func (o *Over) toks() []Tok {
	out := []Tok{kw("OVER"), p("(")}
	if len(o.Partition) > 0 {
		out = append(out, kws("PARTITION", "BY")...)
		out = append(out, commaList(idents(o.Partition))...)
	}
	if len(o.When) > 0 {
		out = append(out, kw("WHEN"))
		out = append(out, o.When...)
	}
	return append(out, p(")"))
}

type OnPair struct {
	LQual  string `json:"lq,omitempty"` // "" or the stream alias
	LField string `json:"lf"`
	RQual  string `json:"rq"` // table alias (or table name when no alias)
	RField string `json:"rf"`
}

type Join struct {
	Type  string   `json:"type,omitempty"` // "", "INNER", "LEFT", "LEFT OUTER"
	Table string   `json:"table"`
	Alias string   `json:"alias,omitempty"`
	AS    bool     `json:"as,omitempty"`
	On    []OnPair `json:"on"`
}

type Win struct {
	Kind    string   `json:"kind"` // tumbling sliding counting session global
	Durs    []string `json:"durs,omitempty"`
	N       int      `json:"n,omitempty"`
	Trigger []Tok    `json:"trigger,omitempty"`
	Pos     int      `json:"pos"` // index among the GROUP BY items
}

type WOpt struct {
	Name string `json:"name"`
	Val  string `json:"val"`
}

type OB struct {
	Key string `json:"key"`
	Dir string `json:"dir,omitempty"` // "", ASC, DESC
}

type Measure struct {
	Expr  []Tok  `json:"expr"`
	Alias string `json:"alias"`
}

type Subset struct {
	Name string   `json:"name"`
	Syms []string `json:"syms"`
}

type Define struct {
	Sym  string `json:"sym"`
	Cond []Tok  `json:"cond"`
}

// Pat is a row-pattern tree in the canonical shape of the SQL:2016 row pattern grammar:
// alt(>=2 seq-level kids) / seq(>=2 quantified atoms) / rep(one atom + quantifier) / group / permute / lit.
type Pat struct {
	Kind string `json:"kind"`
	Sym  string `json:"sym,omitempty"`
	Kids []*Pat `json:"kids,omitempty"`
	Q    string `json:"q,omitempty"` // ? * + {n} {n,} {n,m}
	Min  int    `json:"min,omitempty"`
	Max  int    `json:"max,omitempty"`
	Lazy bool   `json:"lazy,omitempty"`
}

type MR struct {
	Partition []string  `json:"partition,omitempty"`
	Order     []OB      `json:"order,omitempty"`
	Measures  []Measure `json:"measures,omitempty"`
	Rows      string    `json:"rows,omitempty"` // "", ONE, ALL
	Skip      string    `json:"skip,omitempty"` // "", PAST, NEXT, FIRST, LAST, VAR
	SkipSym   string    `json:"skip_sym,omitempty"`
	Pattern   *Pat      `json:"pattern,omitempty"`
	WithinLit string    `json:"within_lit,omitempty"` // e.g. '1h'
	WithinN   string    `json:"within_n,omitempty"`   // e.g. 5
	WithinU   string    `json:"within_u,omitempty"`   // e.g. SECONDS
	Subsets   []Subset  `json:"subsets,omitempty"`
	Defines   []Define  `json:"defines,omitempty"`
}

type Stmt struct {
	Shape       string  `json:"shape"` // direct window mr
	Distinct    bool    `json:"distinct,omitempty"`
	Items       []Item  `json:"items"`
	Source      string  `json:"source"`
	SourceAlias string  `json:"source_alias,omitempty"`
	SourceAS    bool    `json:"source_as,omitempty"`
	Joins       []Join  `json:"joins,omitempty"`
	MR          *MR     `json:"mr,omitempty"`
	Where       []Tok   `json:"where,omitempty"`
	GroupCols   [][]Tok `json:"group_cols,omitempty"`
	Window      *Win    `json:"window,omitempty"`
	Having      []Tok   `json:"having,omitempty"`
	With        []WOpt  `json:"with,omitempty"`
	// WithFirst renders WITH (...) before HAVING (the order used by the repository's own
	// e2e test window_aggregate_combo_test.go); default is HAVING before WITH.
	WithFirst bool `json:"with_first,omitempty"`
	OrderBy   []OB `json:"order_by,omitempty"`
	HasLimit  bool `json:"has_limit,omitempty"`
	Limit     int  `json:"limit,omitempty"`
}

func commaList(parts [][]Tok) []Tok {
	var out []Tok
	for i, x := range parts {
		if i > 0 {
			out = append(out, p(","))
		}
		out = append(out, x...)
	}
	return out
}

func idents(names []string) [][]Tok {
	out := make([][]Tok, len(names))
	for i, n := range names {
		out[i] = []Tok{ident(n)}
	}
	return out
}

func obToks(obs []OB) []Tok {
	parts := make([][]Tok, len(obs))
	for i, o := range obs {
		parts[i] = []Tok{ident(o.Key)}
		if o.Dir != "" {
			parts[i] = append(parts[i], kw(o.Dir))
		}
	}
	return commaList(parts)
}

func (pt *Pat) toks() []Tok {
	switch pt.Kind {
	case "lit":
		return []Tok{ident(pt.Sym)}
	case "seq":
		var out []Tok
		for _, k := range pt.Kids {
			out = append(out, k.toks()...)
		}
		return out
	case "alt":
		var out []Tok
		for i, k := range pt.Kids {
			if i > 0 {
				out = append(out, p("|"))
			}
			out = append(out, k.toks()...)
		}
		return out
	case "group":
		out := []Tok{p("(")}
		out = append(out, pt.Kids[0].toks()...)
		return append(out, p(")"))
	case "permute":
		out := []Tok{fn("PERMUTE"), p("(")}
		for i, k := range pt.Kids {
			if i > 0 {
				out = append(out, p(","))
			}
			out = append(out, k.toks()...)
		}
		return append(out, p(")"))
	case "rep":
		out := pt.Kids[0].toks()
		switch pt.Q {
		case "?", "*", "+":
			out = append(out, pq(pt.Q))
		case "{n}":
			out = append(out, pq("{"), w(strconv.Itoa(pt.Min)), p("}"))
		case "{n,}":
			out = append(out, pq("{"), w(strconv.Itoa(pt.Min)), p(","), p("}"))
		case "{n,m}":
			out = append(out, pq("{"), w(strconv.Itoa(pt.Min)), p(","), w(strconv.Itoa(pt.Max)), p("}"))
		}
		if pt.Lazy {
			out = append(out, pq("?"))
		}
		return out
	}
	return nil
}

func (m *MR) toks() []Tok {
	out := []Tok{kw("MATCH_RECOGNIZE"), p("(")}
	if len(m.Partition) > 0 {
		out = append(out, kws("PARTITION", "BY")...)
		out = append(out, commaList(idents(m.Partition))...)
	}
	if len(m.Order) > 0 {
		out = append(out, kws("ORDER", "BY")...)
		out = append(out, obToks(m.Order)...)
	}
	if len(m.Measures) > 0 {
		out = append(out, kw("MEASURES"))
		parts := make([][]Tok, len(m.Measures))
		for i, ms := range m.Measures {
			parts[i] = append(append([]Tok{}, ms.Expr...), kw("AS"), ident(ms.Alias))
		}
		out = append(out, commaList(parts)...)
	}
	switch m.Rows {
	case "ONE":
		out = append(out, kws("ONE", "ROW", "PER", "MATCH")...)
	case "ALL":
		out = append(out, kws("ALL", "ROWS", "PER", "MATCH")...)
	}
	switch m.Skip {
	case "PAST":
		out = append(out, kws("AFTER", "MATCH", "SKIP", "PAST", "LAST", "ROW")...)
	case "NEXT":
		out = append(out, kws("AFTER", "MATCH", "SKIP", "TO", "NEXT", "ROW")...)
	case "FIRST":
		out = append(out, kws("AFTER", "MATCH", "SKIP", "TO", "FIRST")...)
		out = append(out, ident(m.SkipSym))
	case "LAST":
		out = append(out, kws("AFTER", "MATCH", "SKIP", "TO", "LAST")...)
		out = append(out, ident(m.SkipSym))
	case "VAR":
		out = append(out, kws("AFTER", "MATCH", "SKIP", "TO")...)
		out = append(out, ident(m.SkipSym))
	}
	if m.Pattern != nil {
		out = append(out, kw("PATTERN"), p("("))
		out = append(out, m.Pattern.toks()...)
		out = append(out, p(")"))
	}
	if m.WithinLit != "" {
		out = append(out, kw("WITHIN"), lit(m.WithinLit))
	} else if m.WithinN != "" {
		out = append(out, kw("WITHIN"), w(m.WithinN), kw(m.WithinU))
	}
	if len(m.Subsets) > 0 {
		out = append(out, kw("SUBSET"))
		parts := make([][]Tok, len(m.Subsets))
		for i, s := range m.Subsets {
			parts[i] = []Tok{w(s.Name), p("="), p("(")}
			parts[i] = append(parts[i], commaList(idents(s.Syms))...)
			parts[i] = append(parts[i], p(")"))
		}
		out = append(out, commaList(parts)...)
	}
	if len(m.Defines) > 0 {
		out = append(out, kw("DEFINE"))
		parts := make([][]Tok, len(m.Defines))
		for i, d := range m.Defines {
			parts[i] = append([]Tok{ident(d.Sym), kw("AS")}, d.Cond...)
		}
		out = append(out, commaList(parts)...)
	}
	return append(out, p(")"))
}

var winNames = map[string]string{
	"tumbling": "TumblingWindow", "sliding": "SlidingWindow", "counting": "CountingWindow", "session": "SessionWindow",
}

func (wd *Win) toks() []Tok {
	if wd.Kind == "global" {
		out := kws("GLOBAL", "WINDOW", "TRIGGER", "WHEN")
		return append(out, wd.Trigger...)
	}
	out := []Tok{kwfn(winNames[wd.Kind]), p("(")}
	if wd.Kind == "counting" {
		out = append(out, w(strconv.Itoa(wd.N)))
	} else {
		for i, d := range wd.Durs {
			if i > 0 {
				out = append(out, p(","))
			}
			out = append(out, lit("'"+d+"'"))
		}
	}
	return append(out, p(")"))
}

func qual(q, f string) string {
	if q == "" {
		return f
	}
	return q + "." + f
}

func (s *Stmt) toks() []Tok {
	out := []Tok{kw("SELECT")}
	if s.Distinct {
		out = append(out, kw("DISTINCT"))
	}
	parts := make([][]Tok, len(s.Items))
	for i, it := range s.Items {
		if it.Star {
			parts[i] = []Tok{p("*")}
			continue
		}
		parts[i] = append([]Tok{}, it.Expr...)
		if it.Over != nil {
			parts[i] = append(parts[i], it.Over.toks()...)
		}
		if it.Alias != "" {
			parts[i] = append(parts[i], kw("AS"), ident(it.Alias))
		}
	}
	out = append(out, commaList(parts)...)
	out = append(out, kw("FROM"), w(s.Source))
	if s.SourceAlias != "" {
		if s.SourceAS {
			out = append(out, kw("AS"))
		}
		out = append(out, w(s.SourceAlias))
	}
	for _, j := range s.Joins {
		if j.Type != "" {
			out = append(out, kws(strings.Fields(j.Type)...)...)
		}
		out = append(out, kw("JOIN"), w(j.Table))
		if j.Alias != "" {
			if j.AS {
				out = append(out, kw("AS"))
			}
			out = append(out, w(j.Alias))
		}
		out = append(out, kw("ON"))
		for i, o := range j.On {
			if i > 0 {
				out = append(out, kw("AND"))
			}
			out = append(out, w(qual(o.LQual, o.LField)), p("="), w(qual(o.RQual, o.RField)))
		}
	}
	if s.MR != nil {
		out = append(out, s.MR.toks()...)
	}
	if len(s.Where) > 0 {
		out = append(out, kw("WHERE"))
		out = append(out, s.Where...)
	}
	if len(s.GroupCols) > 0 || s.Window != nil {
		out = append(out, kws("GROUP", "BY")...)
		var gp [][]Tok
		for i, g := range s.GroupCols {
			if s.Window != nil && s.Window.Pos == i {
				gp = append(gp, s.Window.toks())
			}
			gp = append(gp, g)
		}
		if s.Window != nil && s.Window.Pos >= len(s.GroupCols) {
			gp = append(gp, s.Window.toks())
		}
		out = append(out, commaList(gp)...)
	}
	having := func() {
		if len(s.Having) > 0 {
			out = append(out, kw("HAVING"))
			out = append(out, s.Having...)
		}
	}
	with := func() {
		if len(s.With) > 0 {
			out = append(out, kw("WITH"), p("("))
			wp := make([][]Tok, len(s.With))
			for i, o := range s.With {
				wp[i] = []Tok{kw(o.Name), p("="), lit("'" + o.Val + "'")}
			}
			out = append(out, commaList(wp)...)
			out = append(out, p(")"))
		}
	}
	if s.WithFirst {
		with()
		having()
	} else {
		having()
		with()
	}
	if len(s.OrderBy) > 0 {
		out = append(out, kws("ORDER", "BY")...)
		out = append(out, obToks(s.OrderBy)...)
	}
	if s.HasLimit {
		out = append(out, kw("LIMIT"), w(strconv.Itoa(s.Limit)))
	}
	return out
}

// stripWS removes whitespace outside quoted text ('..', "..", `..`).
func stripWS(s string) string {
	var sb strings.Builder
	q := byte(0)
	for i := 0; i < len(s); i++ {
		c := s[i]
		if q != 0 {
			sb.WriteByte(c)
			if c == q {
				q = 0
			}
			continue
		}
		switch c {
		case '\'', '"', '`':
			q = c
			sb.WriteByte(c)
		case ' ', '\t', '\n', '\r':
		default:
			sb.WriteByte(c)
		}
	}
	return sb.String()
}

// plain concatenates token texts (canonical case) without whitespace: the whitespace-free form of an expression.
func plain(toks []Tok) string {
	var sb strings.Builder
	for _, t := range toks {
		sb.WriteString(t.S)
	}
	return sb.String()
}

// condText is the whitespace-free form the parser is documented to give a WHERE/HAVING/TRIGGER predicate:
// AND -> &&, OR -> ||, = -> ==, other keywords upper-cased, everything else verbatim.
func condText(toks []Tok) string {
	var sb strings.Builder
	for _, t := range toks {
		switch {
		case t.K == "kw" && strings.EqualFold(t.S, "AND"):
			sb.WriteString("&&")
		case t.K == "kw" && strings.EqualFold(t.S, "OR"):
			sb.WriteString("||")
		case t.K == "kw":
			sb.WriteString(strings.ToUpper(t.S))
		case t.K == "p" && t.S == "=":
			sb.WriteString("==")
		default:
			sb.WriteString(t.S)
		}
	}
	return sb.String()
}
