package c11

import (
	"fmt"
	"math"
	"os"
	"reflect"
	"regexp"
	"strings"
	"testing"

	"github.com/rulego/streamsql/rsql"
	"verifharness/internal/pbt"
)

func sameVal(a, b any) bool {
	if fa, ok := a.(float64); ok {
		if fb, ok := b.(float64); ok {
			return fa == fb || (math.IsNaN(fa) && math.IsNaN(fb))
		}
		return false
	}
	switch x := a.(type) {
	case map[string]any:
		y, ok := b.(map[string]any)
		if !ok || len(x) != len(y) {
			return false
		}
		for k, v := range x {
			w, ok := y[k]
			if !ok || !sameVal(v, w) {
				return false
			}
		}
		return true
	case []any:
		y, ok := b.([]any)
		if !ok || len(x) != len(y) {
			return false
		}
		for i := range x {
			if !sameVal(x[i], y[i]) {
				return false
			}
		}
		return true
	}
	return reflect.DeepEqual(a, b)
}

func clauseCount(s *Stmt) int {
	n := 2 // SELECT, FROM
	if s.Distinct {
		n++
	}
	if len(s.Joins) > 0 {
		n++
	}
	if s.MR != nil {
		n++
	}
	if len(s.Where) > 0 {
		n++
	}
	if len(s.GroupCols) > 0 || s.Window != nil {
		n++
	}
	if len(s.Having) > 0 {
		n++
	}
	if len(s.With) > 0 {
		n++
	}
	if len(s.OrderBy) > 0 {
		n++
	}
	if s.HasLimit {
		n++
	}
	return n
}

// keywordBearing reports whether the statement holds a literal or identifier with clause text in it
// (or a back-quoted name, or a quote of the other kind inside a literal).
func keywordBearing(toks []Tok) (ident, literal, backtick bool) {
	for _, t := range toks {
		switch {
		case t.K == "lit" && strings.HasPrefix(t.S, "`"):
			backtick = true
		case t.K == "lit":
			body := t.S[1 : len(t.S)-1]
			if isKwBearing(body) || strings.ContainsAny(body, "'\"`") {
				literal = true
			}
		case t.K == "" && isKwBearing(t.S):
			ident = true
		}
	}
	return
}

func runCase(c Case) (res pbt.Result) {
	if c.Kind == "soup" {
		if c.Soup == nil {
			return
		}
		sql := c.Soup.String()
		o := parseAny(sql)
		ok := totality(&res, sql, o)
		res.Class("soup", "soup:"+c.Soup.Mode)
		res.Count("parses", 1)
		if ok && o.err == nil {
			res.Class("soup-accepted")
		}
		if len(sql) > 10000 {
			res.Class("soup>10kB")
		}
		if len(sql) > childThreshold {
			res.Class("soup-in-child-process")
		}
		up := strings.ToUpper(sql)
		kwn := 0
		for _, k := range []string{"SELECT", "FROM", "WHERE", "GROUP", "HAVING", "ORDER", "LIMIT", "WITH", "JOIN", "MATCH_RECOGNIZE", "OVER"} {
			if strings.Contains(up, k) {
				kwn++
			}
		}
		res.NonTrivial = kwn >= 3
		return
	}
	s := c.Stmt
	if s == nil {
		return
	}
	toks := s.toks()
	sqlA := render(toks, Layout{})
	sqlB := render(toks, c.Layout)
	res.Class("stmt", "shape:"+s.Shape)
	a := parseWD(sqlA)
	b := parseWD(sqlB)
	res.Count("parses", 2)
	okA := totality(&res, sqlA, a)
	okB := totality(&res, sqlB, b)
	if okA {
		if a.err != nil {
			res.Add(pbt.D(rejectKind(toks, a.err), "a statement of the documented grammar is rejected: %v; statement: %s", firstLine(a.err), sqlA))
		} else {
			faithful(&res, s, sqlA, a.cfg, a.cond)
		}
	}
	if okA && okB {
		layoutDiff(&res, s, sqlA, sqlB, a, b)
	}
	// classes and non-triviality
	n := clauseCount(s)
	res.Class(fmt.Sprintf("clauses=%d", n))
	id, li, bt := keywordBearing(toks)
	if id {
		res.Class("kw-identifier")
	}
	if li {
		res.Class("kw-literal")
	}
	if bt {
		res.Class("backtick-name")
	}
	if sqlA != sqlB {
		res.Class("layout-differs")
	}
	if strings.ToUpper(sqlA) != strings.ToUpper(sqlB) {
		res.Class("layout-whitespace-differs")
	}
	if s.Window != nil {
		res.Class("window:" + s.Window.Kind)
	}
	if len(s.Joins) > 0 {
		res.Class("join")
	}
	if len(s.With) > 0 {
		res.Class("with")
	}
	if s.WithFirst {
		res.Class("with-before-having")
	}
	if len(s.Having) > 0 {
		res.Class("having")
	}
	if len(s.OrderBy) > 0 {
		res.Class("orderby")
	}
	if s.HasLimit {
		res.Class("limit")
	}
	res.NonTrivial = n >= 3 || id || li || bt

	if c.Exec && okA && okB && a.err == nil && b.err == nil {
		ea := execDirect(sqlA, c)
		eb := execDirect(sqlB, c)
		res.Count("executions", 2)
		switch {
		case ea.openErr != nil && eb.openErr != nil:
			res.Class("rejected-at-execute")
		case (ea.openErr != nil) != (eb.openErr != nil):
			res.Add(pbt.D("layout-exec-accept", "same tokens, different layout: Execute accepts one text only: A=%s err=%v ; B=%s err=%v", short(sqlA), ea.openErr, short(sqlB), eb.openErr))
		default:
			res.Class("executed")
			for i := range c.Rows {
				if ea.errs[i] != eb.errs[i] || !sameVal(ea.outs[i], eb.outs[i]) {
					res.Add(pbt.D("layout-exec-result", "same tokens, different layout: EmitSync(%v) gives %s (err %q) vs %s (err %q); A=%s B=%s",
						c.Rows[i], showRow(ea.outs[i]), ea.errs[i], showRow(eb.outs[i]), eb.errs[i], short(sqlA), short(sqlB)))
					break
				}
				if ea.outs[i] != nil {
					res.Count("rows-out", 1)
				}
			}
		}
	}
	return
}

var unknownFn = regexp.MustCompile(`Unknown function '([^']*)'`)

// rejectKind separates the rejection caused by call-like text inside a string literal
// ("Unknown function 'x'" where x( only occurs inside a literal) from every other rejection.
func rejectKind(toks []Tok, err error) string {
	m := unknownFn.FindStringSubmatch(err.Error())
	if m == nil {
		return "rejected"
	}
	inLit, asCode := false, false
	re := regexp.MustCompile(regexp.QuoteMeta(m[1]) + `\s*\(`)
	for i, t := range toks {
		if t.K == "lit" && !strings.HasPrefix(t.S, "`") && re.MatchString(t.S) {
			inLit = true
		}
		if t.K != "lit" && t.S == m[1] && i+1 < len(toks) && toks[i+1].S == "(" {
			asCode = true
		}
	}
	if inLit && !asCode {
		return "rejected-literal-call"
	}
	return "rejected"
}

func firstLine(err error) string {
	s := err.Error()
	if i := strings.Index(s, "\n"); i >= 0 {
		s = s[:i]
	}
	return s
}

// features names the known-finding shapes a case exhibits.
func features(c Case) []string {
	var f []string
	if c.Kind == "soup" && c.Soup != nil {
		if c.Soup.deepPattern() {
			f = append(f, "deep-pattern-nesting")
		}
		if c.Soup.longInvalidRun() {
			f = append(f, "long-invalid-run")
		}
		return f
	}
	s := c.Stmt
	if c.Kind != "stmt" || s == nil {
		return f
	}
	if hasHavingThenOrderBy(s) {
		f = append(f, "having-then-orderby")
	}
	if s.WithFirst && len(s.Having) > 0 && len(s.With) > 0 {
		f = append(f, "with-before-having")
	}
	if s.MR != nil && len(s.MR.Order) > 0 {
		f = append(f, "mr-inner-orderby")
	}
	bt, call := false, false
	for _, t := range s.toks() {
		if t.K == "lit" && strings.HasPrefix(t.S, "`") && strings.Contains(t.S, " ") {
			bt = true
		}
		if t.K == "lit" && !strings.HasPrefix(t.S, "`") && callLike.MatchString(t.S) {
			call = true
		}
	}
	for _, it := range s.Items {
		if it.Kind == "fn" && it.Alias == "" {
			f = append(f, "unaliased-scalar-fn")
			break
		}
	}
	if s.Window == nil && len(s.With) >= 2 {
		f = append(f, "with-no-window")
	}
	if bt {
		f = append(f, "backtick-space")
	}
	if call {
		f = append(f, "literal-call-text")
	}
	for _, t := range s.toks() {
		if t.K == "lit" && !strings.HasPrefix(t.S, "`") && windowLike.MatchString(t.S) {
			f = append(f, "literal-window-text")
			break
		}
	}
	return f
}

var spec = pbt.Spec[Case]{
	ID: "C11",
	Rule: "generated: (35%) arbitrary strings for totality - token soup, valid prefixes followed by soup, token-level mutations of valid statements, valid statements cut off in the middle (half of the time right after a back quote, quote, parenthesis, comma or =, optionally followed by one more opener), " +
		"long runs of one fragment (up to 20000 repetitions), random bytes - and (65%) statements of the documented grammar built from an AST " +
		"(direct / windowed-aggregate / MATCH_RECOGNIZE; select items with aliases, *, DISTINCT, FROM [AS] alias, JOIN..ON, WHERE token lists, GROUP BY columns + " +
		"every window kind, TRIGGER WHEN, HAVING, WITH options, ORDER BY, LIMIT; identifiers/literals/aliases with embedded clause keywords, back-quoted reserved names, " +
		"quotes of the other kind), each rendered twice (canonical layout; random keyword case and whitespace/tab/newline/CRLF between tokens). " +
		"oracle: Parse returns within the watchdog without panic and yields error xor configuration; the configuration equals the AST clause by clause " +
		"(text fields modulo whitespace); both layouts give deep-equal configurations and, for executable direct queries, equal EmitSync results on generated rows. " +
		"non-trivial = statement with >= 3 clauses or a keyword-bearing literal/identifier/back-quoted name (soup: >= 3 distinct clause keywords); distinct = hash of the case JSON",
	Assumptions: []string{
		"documented clause order: SELECT [DISTINCT] .. FROM .. [JOIN] [MATCH_RECOGNIZE] [WHERE] [GROUP BY] [HAVING] [WITH] [ORDER BY] [LIMIT] (rsql/doc.go, rsql/parser.go Parse)",
		"string literals carry no escape sequences (the lexer has none); keyword case is varied only for clause-level keywords, not inside SELECT/DEFINE/MEASURES expression text which the parser keeps verbatim",
		"whitespace is space, tab, LF, CR (the lexer's whitespace set); zero whitespace is used only between a punctuation token and its neighbour",
		"name of an un-aliased aggregate in FieldOrder is an engine convention and is not judged",
	},
	Gen:      genCase,
	Run:      runCase,
	Features: features,
	Trim: func(c Case) any {
		if c.Kind == "soup" {
			return map[string]any{"kind": "soup", "mode": c.Soup.Mode, "text": c.Soup.Text}
		}
		return map[string]any{"kind": "stmt", "sql": c.SQL, "sql2": c.SQL2, "exec": c.Exec, "rows": len(c.Rows)}
	},
}

// TestChildParse is the body of the child process used by parseChild; it is a no-op otherwise.
func TestChildParse(t *testing.T) {
	path := os.Getenv("C11_CHILD_INPUT")
	if path == "" {
		t.Skip("child-process helper")
	}
	b, err := os.ReadFile(path)
	if err != nil {
		t.Fatal(err)
	}
	func() {
		defer func() {
			if r := recover(); r != nil {
				fmt.Printf("C11CHILD panic: %v\n", r)
			}
		}()
		cfg, _, err := rsql.Parse(string(b))
		fmt.Printf("C11CHILD ok err=%v cfg=%v\n", err != nil, cfg != nil)
	}()
}

func TestProp(t *testing.T)    { pbt.RunProp(t, spec) }
func TestReplay(t *testing.T)  { pbt.RunReplay(t, spec) }
func TestWitness(t *testing.T) { pbt.RunWitnesses(t, spec) }
